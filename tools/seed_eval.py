#!/venv/bin/python
"""Apply a seeded change (seeded/<name>/patch.diff) to /repo, run the quick
checks of all (or the given) properties against it, undo the change, and write
seeded/<name>/result.json.  Evidence of these runs goes to a scratch directory,
never to /verif/evidence.

  tools/seed_eval.py C01 [C05 C12 ...props]"""
import json
import os
import subprocess
import sys
import tempfile
from concurrent.futures import ThreadPoolExecutor

VERIF = os.path.dirname(os.path.dirname(os.path.abspath(__file__)))
REPO = "/repo"
ALL = [f"C{i:02d}" for i in range(1, 21)]


def sh(*a, **k):
    return subprocess.run(a, capture_output=True, text=True, **k)


def main():
    name = sys.argv[1]
    props = sys.argv[2:] or ALL
    d = os.path.join(VERIF, "seeded", name)
    patch = os.path.join(d, "patch.diff")
    if sh("git", "-C", REPO, "status", "--porcelain").stdout.strip():
        print("refusing: /repo has uncommitted changes")
        return 2
    r = sh("git", "-C", REPO, "apply", patch)
    if r.returncode:
        print("patch does not apply:", r.stderr[:400])
        return 2
    out = {}
    try:
        with tempfile.TemporaryDirectory(prefix="verif-seed-") as ev:
            env = dict(os.environ, VERIF_EVIDENCE_DIR=ev)

            def run(p):
                r = sh(os.path.join(VERIF, "check"), p, "--tier", "quick", cwd=VERIF, env=env)
                lines = [l for l in r.stdout.splitlines() if "VIOLATION" in l or "ANALYSIS-ERROR" in l]
                diag = [l for l in r.stdout.splitlines() if l.startswith("fortls/") and "  C" in l]
                return p, r.returncode, lines, diag

            with ThreadPoolExecutor(8) as ex:
                for p, code, lines, diag in ex.map(run, props):
                    out[p] = {"exit": code, "lines": lines[:6], "diagnosis": [x[:400] for x in diag[:6]]}
    finally:
        sh("git", "-C", REPO, "checkout", "--", ".")
    caught = [p for p, v in out.items() if v["exit"] == 1]
    broken = [p for p, v in out.items() if v["exit"] not in (0, 1)]
    res = {"seed": name, "caught_by": caught, "analysis_errors": broken, "checks": out}
    with open(os.path.join(d, "result.json"), "w") as fh:
        json.dump(res, fh, indent=1)
    print(name, "caught by", caught or "NOTHING", ("analysis errors: " + str(broken)) if broken else "")
    for p in caught:
        for l in out[p]["diagnosis"][:2]:
            print("   ", l[:300])
    return 0


if __name__ == "__main__":
    sys.exit(main())
