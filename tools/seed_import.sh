#!/bin/sh
# tools/seed_import.sh C02 [name] [round]  : confirm a sub-agent's seeded change in its scratch worktree and file it under seeded/
id=$1; name=${2:-$1}; rnd=${3:-}
wt=/tmp/wt${rnd}_$id; sd=/tmp/seed${rnd}_$id; out=/verif/seeded/$name
[ -s $sd/patch.diff ] || { echo "no patch for $id"; exit 2; }
mkdir -p $out
cp $sd/patch.diff $out/patch.diff; cp $sd/demo.py $out/demo.py 2>/dev/null; cp $sd/meta.json $out/meta.json 2>/dev/null
cd $wt || exit 2
git diff > $sd/now.diff
cmp -s $sd/now.diff $sd/patch.diff || echo "NOTE: worktree diff differs from patch.diff"
/venv/bin/python $sd/demo.py > $out/demo_with.txt 2>&1; w=$?
# (not `git stash`: the stash is shared by all worktrees of /repo and agents may be using it)
git diff > $sd/.mine.diff; git apply -R $sd/.mine.diff; /venv/bin/python $sd/demo.py > $out/demo_without.txt 2>&1; wo=$?; git apply $sd/.mine.diff
td=$(mktemp -d /var/tmp/seedtmp.XXXXXX)
t=$(TMPDIR=$td /venv/bin/python -m pytest -q -p no:cacheprovider --timeout=600 -n 6 --no-cov --deselect test/test_interface.py::test_version_update_pypi 2>&1 | grep -v conda | tail -1)
rm -rf $td
echo "$name demo_with=$w demo_without=$wo tests: $t"
/venv/bin/python - "$out" "$w" "$wo" "$t" <<'PY'
import json,sys,os
out,w,wo,t=sys.argv[1:5]
p=os.path.join(out,'meta.json')
try: m=json.load(open(p))
except Exception: m={}
m['confirmed']={'demo_exit_with_change':int(w),'demo_exit_without_change':int(wo),'suite':t}
json.dump(m,open(p,'w'),indent=1)
PY
