#!/venv/bin/python
"""Write the task files for a round of fresh sub-agents (seeded changes).

  tools/seed_prompts.py break <round>     -> /tmp/seed<round>_<ID>/PROMPT.txt, worktree /tmp/wt<round>_<ID>
  tools/seed_prompts.py benign <round>    -> same layout, behaviour-preserving refactorings (false-alarm test)

Each sub-agent gets only the text of one property and its own scratch worktree;
nothing from /verif.  Earlier seeded changes for the same property are named in
one sentence each so that a new agent does something different."""
import glob
import json
import os
import subprocess
import sys

VERIF = os.path.dirname(os.path.dirname(os.path.abspath(__file__)))

BREAK = """You are helping to evaluate a verification tool. Your job: introduce ONE realistic regression into a Python code base so that a stated semantic property no longer holds, while the code still imports and the project's existing test suite still passes.

The code base is fortls (a Fortran language server written in Python). You have your own scratch git worktree of it at {wt} (work ONLY there; never touch /repo or /verif, and do not read anything under /verif). The interpreter with all dependencies is /venv/bin/python. Running pytest from inside the worktree tests the worktree's own copy of the package.

The property (this is all the specification you get):

{txt}

What to produce:
1. A small source change inside {wt}/fortls (typically 1-20 changed lines, in one or two files) of the kind a developer could plausibly make by mistake or in a well-meant refactoring/"optimisation"/"clean-up"/small feature - NOT an obviously malicious or absurd edit, not a syntax error, not deleting a whole feature. After the change the property above must be violated for SOME specific input / configuration / history, while ordinary use keeps working. Prefer a change that needs something specific to manifest: a multi-step sequence of operations, an unusual input, a particular ordering of events or files, or TWO COOPERATING SITES that each look fine alone (e.g. a producer and a consumer that no longer agree, a helper whose contract changes slightly while one caller still relies on the old one, a new early-return path that skips a later step).
2. The existing test suite must still pass with your change: run
   cd {wt} && /venv/bin/python -m pytest -q -p no:cacheprovider --timeout=600 -n 4 --no-cov --deselect test/test_interface.py::test_version_update_pypi 2>&1 | tail -5
   (179 passed is the expected result before and after; the deselected test needs network access). If your change makes a test fail, choose a different change.
3. A demonstration script {sd}/demo.py that, run as `cd {wt} && /venv/bin/python {sd}/demo.py`, exercises the changed code in-process (import fortls modules, or drive fortls.langserver.LangServer.handle with JSON-RPC dicts through a fake connection object having write_response/write_error/send_notification methods, or call the parser functions directly) on the specific input, prints what is observed and what the property demands, and exits with status 1 when the property is violated (0 when it holds). Verify: with your change it exits 1; on the unmodified code it exits 0 (to compare, do NOT use `git stash` - the stash is shared with other worktrees; use `git -C {wt} diff > {sd}/mine.diff && git -C {wt} apply -R {sd}/mine.diff`, run the demo, then `git -C {wt} apply {sd}/mine.diff`).
   IMPORTANT: a script placed outside the worktree imports the installed copy of fortls unless the worktree comes first on sys.path; start demo.py with `import sys, os; sys.path.insert(0, os.getcwd())`.
4. Leave the change UNCOMMITTED in the worktree, and write it out with: git -C {wt} diff > {sd}/patch.diff
5. Write {sd}/meta.json with keys: "property" ("{pid}"), "summary" (one sentence: what was changed), "why_plausible" (why a developer might do this), "manifests_when" (the specific input/config/history needed), "files" (list of changed files), "tests_pass" (true/false as you observed), "demo_exit_with_change", "demo_exit_without_change".

Other engineers have already tried the following changes for this property, so do something DIFFERENT (a different mechanism, function or clause of the property):
{prev}

Constraints: no network. Do not modify tests. Do not add new files to the package. Keep the diff minimal. Do not commit. Prefer a change in the mechanism the property's "anchors" point at, but any change that really breaks the stated property is acceptable. Be concrete and finish all five items; your final message should be a 5-line summary (what you changed, where, what manifests it, test result, demo result)."""

BENIGN = """You are helping to evaluate a verification tool for false alarms. Your job: make ONE realistic, BEHAVIOUR-PRESERVING change to a Python code base - the kind of refactoring or clean-up a maintainer would merge - in the code that implements a stated semantic property, such that the property STILL HOLDS afterwards for every input, and the project's existing test suite still passes.

The code base is fortls (a Fortran language server written in Python). You have your own scratch git worktree of it at {wt} (work ONLY there; never touch /repo or /verif, and do not read anything under /verif). The interpreter with all dependencies is /venv/bin/python. Running pytest from inside the worktree tests the worktree's own copy of the package.

The property (this is all the specification you get):

{txt}

What to produce:
1. A source change inside {wt}/fortls of 10-60 changed lines, in one to three files, located in the functions the property's "anchors" point at (or their direct helpers). It must be a genuine restructuring, not a comment or whitespace change. Good examples: extract a helper function or method and call it; inline a small helper; rename locals/parameters; replace an if/else chain by early returns or a lookup table; replace a loop by a comprehension or vice versa; hoist a repeated expression into a local; split a long function into two; reorder independent statements; switch `x is None` / `not x` idioms where equivalent; move a guard from callee to all callers or from callers into the callee; change a container type where it does not matter; replace string concatenation by an f-string; rewrite a regular expression into an equivalent one. Combine two or three of these. The observable behaviour of the server/parser must be EXACTLY the same for every input - be careful and conservative about semantics (exceptions, None, empty strings, case, order).
2. The existing test suite must still pass with your change: run
   cd {wt} && /venv/bin/python -m pytest -q -p no:cacheprovider --timeout=600 -n 4 --no-cov --deselect test/test_interface.py::test_version_update_pypi 2>&1 | tail -5
   (179 passed is the expected result before and after; the deselected test needs network access).
3. Leave the change UNCOMMITTED in the worktree, and write it out with: git -C {wt} diff > {sd}/patch.diff
4. Write {sd}/meta.json with keys: "property" ("{pid}"), "summary" (2-3 sentences: what was restructured), "why_equivalent" (the argument that behaviour is unchanged and the property still holds), "files" (list of changed files), "tests_pass" (true/false as you observed).

Constraints: no network. Do not modify tests. Do not add new files to the package. Do not commit. Your final message should be a 4-line summary (what you restructured, where, why equivalent, test result)."""


RENAME = BENIGN.replace("""1. A source change inside {wt}/fortls of 10-60 changed lines, in one to three files, located in the functions the property's "anchors" point at (or their direct helpers). It must be a genuine restructuring, not a comment or whitespace change. Good examples: extract a helper function or method and call it; inline a small helper; rename locals/parameters; replace an if/else chain by early returns or a lookup table; replace a loop by a comprehension or vice versa; hoist a repeated expression into a local; split a long function into two; reorder independent statements; switch `x is None` / `not x` idioms where equivalent; move a guard from callee to all callers or from callers into the callee; change a container type where it does not matter; replace string concatenation by an f-string; rewrite a regular expression into an equivalent one. Combine two or three of these.""", """1. A source change inside {wt}/fortls, in one to four files, in or around the functions the property's "anchors" point at, of ONE of these two kinds (pick the one that fits the code best):
   (a) RENAME / MOVE: give two or three functions, methods, nested functions, fields or module-level constants that implement the mechanism a clearer name and update EVERY use in the package (and nothing in the tests may break - check which names the tests use and leave those alone), and/or move a module-level helper function to a more fitting module of the package (updating imports), and/or turn a nested function into a method or a module-level function.
   (b) SMALL FEATURE that leaves the property intact: e.g. an additional log.debug line, an extra optional parameter with a default that no caller uses yet, a new small public helper method that nothing calls yet, support for an additional spelling that is handled by exactly the same code path, a clearer error message text. Nothing that changes what existing inputs produce.""")


def main():
    kind, rnd = sys.argv[1], sys.argv[2]
    only = sys.argv[3:]
    props = [json.loads(l) for l in open(os.path.join(VERIF, "properties.jsonl"))]
    for p in props:
        pid = p["id"]
        if only and pid not in only:
            continue
        wt, sd = f"/tmp/wt{rnd}_{pid}", f"/tmp/seed{rnd}_{pid}"
        subprocess.run(["git", "-C", "/repo", "worktree", "add", "-q", "--detach", wt, "HEAD"], check=False)
        os.makedirs(sd, exist_ok=True)
        txt = json.dumps({k: p[k] for k in ("id", "title", "statement", "quantifier", "why_tests_cant", "anchors")}, indent=1)
        prev = []
        for m in sorted(glob.glob(os.path.join(VERIF, "seeded", pid + "*", "meta.json"))):
            s = json.load(open(m)).get("summary", "")
            if s and "benign" not in os.path.basename(os.path.dirname(m)):
                prev.append("- " + s)
        t = BREAK if kind == "break" else RENAME if kind == "rename" else BENIGN
        text = t.format(wt=wt, sd=sd, pid=pid, txt=txt, prev="\n".join(prev) or "- (none yet)")
        if kind != "break":
            done = []
            for m in sorted(glob.glob(os.path.join(VERIF, "seeded", "benign-" + pid + "*", "meta.json"))):
                s_ = json.load(open(m)).get("summary", "")
                if s_:
                    done.append("- " + s_)
            if done:
                text = text.replace("Constraints: no network.", "Other engineers have already made the following restructurings for this property, so restructure DIFFERENT functions or use different techniques (for example: change a data representation, merge or split functions the other way round, convert between early returns and nested conditionals, introduce a small class or dataclass for a tuple, replace index loops by enumerate/zip, move code between caller and callee, rename methods and update all callers, reorder method definitions, turn a nested function into a method or module-level function):\n" + "\n".join(done) + "\n\nConstraints: no network.")
        open(os.path.join(sd, "PROMPT.txt"), "w").write(text)
    print("written")


if __name__ == "__main__":
    main()
