#!/venv/bin/python
"""Run the quick checks against every seeded change, in parallel, on scratch
copies of /repo's working tree (never on /repo itself), and write
seeded/<name>/result.json plus seeded/MATRIX.md.

  tools/seed_matrix.py [--own] [--jobs 16] [name ...]

--own : only the seeded property's own check (fast); default = all 20 checks.
Each scratch copy lives under a mkdtemp in /var/tmp and is removed as soon as
its checks have run.  Evidence of these runs goes to the scratch directory."""
import json
import os
import shutil
import subprocess
import sys
import tempfile
from concurrent.futures import ThreadPoolExecutor

VERIF = os.path.dirname(os.path.dirname(os.path.abspath(__file__)))
REPO = "/repo"
ALL = [f"C{i:02d}" for i in range(1, 21)]


def sh(*a, **k):
    return subprocess.run(a, capture_output=True, text=True, **k)


def prepare(name):
    d = os.path.join(VERIF, "seeded", name)
    tmp = tempfile.mkdtemp(prefix=f"verif-seed-{name}-", dir="/var/tmp")
    shutil.copytree(os.path.join(REPO, "fortls"), os.path.join(tmp, "fortls"), ignore=shutil.ignore_patterns("__pycache__"))
    r = sh("git", "apply", "--unsafe-paths", "--directory", tmp, os.path.join(d, "patch.diff"), cwd=tmp)
    if r.returncode:
        r = sh("patch", "-p1", "-s", "-i", os.path.join(d, "patch.diff"), cwd=tmp)
    if r.returncode:
        shutil.rmtree(tmp, ignore_errors=True)
        return None, (r.stderr or r.stdout)[:300]
    return tmp, None


def run_one(args):
    tmp, p = args
    env = dict(os.environ, VERIF_EVIDENCE_DIR=os.path.join(tmp, "ev-" + p))
    r = sh(os.path.join(VERIF, "check"), p, "--tier", "quick", "--repo", tmp, cwd=VERIF, env=env)
    lines = [l for l in r.stdout.splitlines() if "VIOLATION" in l or "ANALYSIS-ERROR" in l]
    diag = [l for l in r.stdout.splitlines() if l.startswith("fortls/") and "  C" in l]
    return p, {"exit": r.returncode, "lines": lines[:6], "diagnosis": [x[:400] for x in diag[:6]]}


def main():
    argv = sys.argv[1:]
    own = "--own" in argv
    jobs = 16
    if "--jobs" in argv:
        jobs = int(argv[argv.index("--jobs") + 1])
    names = [a for a in argv if not a.startswith("--") and not a.isdigit()]
    if not names:
        names = sorted(n for n in os.listdir(os.path.join(VERIF, "seeded")) if os.path.exists(os.path.join(VERIF, "seeded", n, "patch.diff")))
    tasks = []
    tmps = {}
    for n in names:
        tmp, err = prepare(n)
        if tmp is None:
            print(n, "patch does not apply:", err)
            continue
        tmps[n] = tmp
        props = [n[:3]] if own else ALL
        tasks += [(n, tmp, p) for p in props]
    res = {n: {} for n in tmps}
    try:
        with ThreadPoolExecutor(jobs) as ex:
            for (n, _, _), (p, v) in zip(tasks, ex.map(run_one, [(t, p) for _, t, p in tasks])):
                res[n][p] = v
    finally:
        for t in tmps.values():
            shutil.rmtree(t, ignore_errors=True)
    rows = []
    for n in sorted(res):
        out = res[n]
        caught = sorted(p for p, v in out.items() if v["exit"] == 1)
        broken = sorted(p for p, v in out.items() if v["exit"] not in (0, 1))
        rp = os.path.join(VERIF, "seeded", n, "result.json")
        old = {}
        if own and os.path.exists(rp):
            old = json.load(open(rp)).get("checks", {})
            old.update(out)
            out = old
            caught = sorted(p for p, v in out.items() if v["exit"] == 1)
            broken = sorted(p for p, v in out.items() if v["exit"] not in (0, 1))
        with open(rp, "w") as fh:
            json.dump({"seed": n, "caught_by": caught, "analysis_errors": broken, "checks": out}, fh, indent=1)
        rules = []
        for p in caught:
            for l in out[p]["diagnosis"]:
                parts = l.split()
                if len(parts) > 1 and parts[1] not in rules:
                    rules.append(parts[1])
        rows.append((n, caught, rules, broken))
        print(n, "caught by", caught or "NOTHING", rules, ("analysis errors: " + str(broken)) if broken else "")
    return 0


if __name__ == "__main__":
    sys.exit(main())
