#!/venv/bin/python
"""seeded/MATRIX.md from seeded/*/meta.json and result.json (written by tools/seed_matrix.py)."""
import glob
import json
import os

VERIF = os.path.dirname(os.path.dirname(os.path.abspath(__file__)))


def main():
    rows, ben = [], []
    for d in sorted(glob.glob(os.path.join(VERIF, "seeded", "*", "meta.json"))):
        name = os.path.basename(os.path.dirname(d))
        m = json.load(open(d))
        rp = os.path.join(os.path.dirname(d), "result.json")
        r = json.load(open(rp)) if os.path.exists(rp) else {"caught_by": [], "analysis_errors": [], "checks": {}}
        rules = []
        for p in r["caught_by"]:
            for l in r["checks"][p]["diagnosis"]:
                parts = l.split()
                if len(parts) > 1 and parts[1] not in rules:
                    rules.append(parts[1])
        summ = " ".join(m.get("summary", "").split())
        if name.startswith("benign"):
            ben.append((name, summ, r["caught_by"], r["analysis_errors"]))
        else:
            rows.append((name, m.get("property", name[:3]), summ, m.get("manifests_when", ""), r["caught_by"], rules, r["analysis_errors"]))
    out = ["# Seeded changes and what the checks say about them", "",
           "Written by `tools/seed_table.py` from the last `tools/seed_matrix.py` run (all 20 quick checks against a scratch copy of `/repo` with the change applied).", "",
           "## Breaking changes (each confirmed: demo fails with the change, passes without; pinned suite 179 passed with it)", "",
           "| seed | breaks | change | caught by | rules |", "|---|---|---|---|---|"]
    own = other = miss = 0
    for name, prop, summ, when, caught, rules, errs in rows:
        if prop in caught:
            own += 1
        elif caught:
            other += 1
        else:
            miss += 1
        c = ", ".join(caught) if caught else "**not caught**"
        if errs:
            c += " (analysis error: " + ", ".join(errs) + ")"
        out.append(f"| {name} | {prop} | {summ[:260]} | {c} | {', '.join(rules)} |")
    out += ["", f"{len(rows)} changes: {own} caught by the check of the property they break, {other} only by another property's check, {miss} not caught.", "",
            "## Behaviour-preserving refactorings (pinned suite passes; every alarm here would be a false alarm)", "",
            "| seed | change | alarms |", "|---|---|---|"]
    for name, summ, caught, errs in ben:
        a = "none" if not caught and not errs else ("VIOLATION by " + ", ".join(caught) if caught else "") + (" ANALYSIS-ERROR in " + ", ".join(errs) if errs else "")
        out.append(f"| {name} | {summ[:260]} | {a} |")
    open(os.path.join(VERIF, "seeded", "MATRIX.md"), "w").write("\n".join(out) + "\n")
    print(f"{len(rows)} breaking ({own} own, {other} other, {miss} missed), {len(ben)} benign ({sum(1 for b in ben if b[2] or b[3])} with alarms)")


if __name__ == "__main__":
    main()
