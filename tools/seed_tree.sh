#!/bin/sh
# tools/seed_tree.sh <seed name> <dir> : scratch copy of /repo/fortls with the seeded change applied (caller removes it)
rm -rf "$2"; mkdir -p "$2"; cp -r /repo/fortls "$2/fortls"; find "$2" -name __pycache__ -prune -exec rm -rf {} +
cd "$2" && git apply --unsafe-paths --directory "$2" /verif/seeded/$1/patch.diff 2>/dev/null || patch -p1 -s -d "$2" -i /verif/seeded/$1/patch.diff
