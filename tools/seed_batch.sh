#!/bin/sh
# tools/seed_batch.sh <round> <suffix> : import every finished, not yet imported seed of a round
rnd=$1; suf=$2
for i in 01 02 03 04 05 06 07 08 09 10 11 12 13 14 15 16 17 18 19 20; do
  id=C$i
  [ -s /tmp/seed${rnd}_$id/patch.diff ] && [ -s /tmp/seed${rnd}_$id/meta.json ] || continue
  [ -d /verif/seeded/$id$suf ] && continue
  sh /verif/tools/seed_import.sh $id $id$suf $rnd 2>&1 | grep -v conda
done
