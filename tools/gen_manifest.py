#!/venv/bin/python
"""Regenerates MANIFEST.json from the table below (kept next to the rules so
that the claim text stays in step with what the rules decide)."""
import json
import os
import subprocess

HERE = os.path.dirname(os.path.dirname(os.path.abspath(__file__)))

BASE_NOTE = (
    "Trusted base: CPython's ast and re._parser (syntax trees), the call-resolution approximations of DESIGN 2.2 "
    "(by-name edges are may-edges), the frozen idiom and triage tables. Decides the named structural clauses on "
    "every path/instance of the current tree, not the behaviour as a whole; 'undecided' instances (unrecognised "
    "implementation shape) give no verdict."
)

CLAIMS = {
    "C01": ("dataflow over the dispatcher CFG + who-may-call", "Pairing request<->response, notification silence, error-code mapping, single writer, loop survival and ordering by construction are decided for every path of the server loop, the dispatcher and the connection senders (hence for every message sequence); JSON-serialisability only for definite non-JSON constructs. Not decided: content of the handlers' results."),
    "C16": ("def-use + template matching on framing sites, CFG path search in the receiver", "Writer half decided completely (announced length = UTF-8 byte length of the body written, frame layout, UTF-8 + flush, binary std streams); reader half structurally (every header line reaches the Content-Length parser, body read only with a known length, bytes cut before decoding, never decoded block by block); URI quote/unquote pairing; byte counts and character counts are never compared, subtracted or requested against each other on the reading side. Not decided: behaviour of the underlying buffered stream under partial reads."),
}

CLAIMS.update({
    "C17": ("package-wide effect inventory (import-resolved references) + call-graph reachability + dominating guards", "The complete syntactic inventory of evaluation/process/file-write/network primitives of the package and its reachability from the server entry points is decided for all inputs (inputs do not change which primitives the code can call): no dynamic evaluation with computed arguments anywhere (eval/exec/compile/import machinery, pickle, subprocess/os process calls, logging.config and other configuration-driven object construction), no reachable file write except the debug log under its option, network/process effects only behind disable_autoupdate with constant targets. Not decided: effects inside third-party libraries (json5, packaging) or through reflection."),
    "C19": ("table agreement between argparse declarations and configuration loaders + handler coverage", "Option tables of cli() and the three loaders agree (every effective option loadable, key = attribute, default = current command-line value, set-valued options wrapped), derived state recomputed, consumers after the load, the loader's try covers OSError/ValueError/TypeError/AttributeError with a message and no re-raise; the stored value depends on the current value only through the .get default (no merging), and the loaders read the parsed file itself, not a value-filtered copy. Not decided: that an option has the same downstream effect on both channels; partial application when a loader fails midway."),
})

CLAIMS.update({
    "C20": ("SCCs of the resolved call graph, edge classification (tree / name-resolved link / text) from all field stores, guard recognition on dominating facts", "Every recursive component of the call graph is enumerated; each recursive call is classified by the object it descends through, and every cycle that follows a name-resolved link (link_obj, inherit_var, ancestor_obj, workspace lookups, included files) must pass a guard: visited collection (G1), generation stamp (G2), depth counter (G3), absorbed RecursionError (G4), link field acyclic by construction - every store dominated by a chain walk whose answer cannot be invalidated by a link writer called in between (G5), one-shot flag (G6). Link-following loops must be bounded; the parent/children graph may only receive freshly built objects or ancestry-tested grafts; the recursion limit is applied before indexing. Not decided: time bounds, non-recursive blow-ups, recursion hidden behind unresolved dynamic calls."),
})

CLAIMS.update({
    "C18": ("regex syntax-tree queries (anchoring, finite language) + dominating-condition check at the collection point + call order", "The suffix pattern template is end-anchored per alternative, its default alternative is exactly the finite documented suffix list in both letter cases, user suffixes pass re.escape on both construction paths, the pattern is applied with search() to bare directory entries; every append to the start-up file list is dominated by all four filters; directory discovery guards, root-relative glob expansion, directories-only, subtraction after expansion, and the initialize call order are checked; glob patterns are expanded by a primitive whose `*` also matches dot-names (pathlib / fnmatch; glob.glob only with include_hidden). Not decided: the resulting file set on a concrete directory tree."),
})

CLAIMS.update({
    "C02": ("regex-language enumeration of the line splitter, def-use/shape matching of the splice, dominators in the edit routine", "Decides: the splitter's language is exactly {LF, CRLF, CR} with CRLF consumed as one, on both ingestion paths, and it is not memoised (the list becomes the file's mutable buffer); trailing-newline fix-up agrees with the splitter; every buffer mutation keeps contents_pp/nLines in step and is dominated by the hash reset; changes applied forwards, once, abort on failure; splice provenance (prefix ends at range start, suffix starts at range end, strict copy condition); every entry-exit path of the didChange handler applies the content changes or posts a message (no change notification is dropped silently); a range coordinate re-bound before the splice is clamped only to the length of the line it addresses. Not decided: the splice arithmetic for every range (value-level)."),
    "C03": ("interprocedural dominating-facts analysis (nullability, non-emptiness), def-use taint into regex sinks, regex-tree ambiguity query, loop-progress check on per-loop CFGs", "Decides four mechanisms by which text kills this parser: parser state that is None outside constructs is never dereferenced unguarded (with lock-step twin, establishing calls, caller obligations, result-conditioned summaries); constant end-subscripts on possibly empty text are guarded; document/option text reaches no pattern unescaped and no replacement template unescaped, no pattern has ambiguous nested unbounded repetition; every while loop of the indexing code has a progress statement on every cycle; a call result that is unpacked, subscripted, iterated or dereferenced on the spot comes from functions that return a value on every path; macro-table values (text, (args, body) tuples, anything the JSON configuration supplies) are used as text only where a path-sensitive kind analysis shows them to be text (conversion, type test, pattern cache keyed by what the entry's kind depends on); a pop() right after a push takes from a push that is never empty. Not decided: absence of every other exception, concrete time bounds."),
})

CLAIMS.update({
    "C13": ("regex-tree queries (cased letters vs IGNORECASE, end anchors), case lattice over string expressions (def-use, field and container stores, call-site substitution)", "Decides: every pattern that spells out letters and is applied to Fortran text carries IGNORECASE; no entity name is compared as written, and where one side of a comparison or look-up is case-normalised the other is normalised alike (violations only on provably raw operands; underivable cases are reported as undecided); one LF/CRLF/CR splitter for both ingestion paths; end-anchored statement patterns tolerate trailing blanks (look-aheads evaluated at the end of the text) or their argument is right-stripped. Not decided: continuation/semicolon handling, comment insertion, line shifts (behaviour of get_code_line/parse on text)."),
    "C14": ("regex-tree queries on the fixed-form lexical patterns + dominating-facts check of every free/fixed pattern use", "Decides: FIXED_COMMENT/FIXED_DOC start with exactly {! c C d D *} and are applied at column 1, FIXED_CONT is five blanks plus a non-blank, LINE_LABEL is digits plus blank; every use of a FREE_* pattern is in the not-fixed arm of a test of the form flag and the function has a fixed-form arm; every whole-buffer writer re-detects the form and the parser re-derives its comment patterns; the stripped label reaches the labelled-DO closer, which closes every DO sharing the label; the free-form evidence of detect_fixed_format is examined independently of the comment-flag test; both fixed-form arms of the statement assembler store continuation lines with their label/marker columns blanked. Not decided: equality of the two renderings' indexes, the remaining content heuristics of detect_fixed_format."),
})

CLAIMS.update({
    "C10": ("interprocedural write-effect summaries (roots self/param/global, freshness, return aliasing) + CFG dominance in the resolvers and the re-index routine", "Decides which state can survive re-indexing at all: no read-only request (nor computing diagnostics) writes a field of the server, a file, an AST or an entity; every resolver that looks a name up resets or reassigns its link on every path and link containers are emptied before refilling; no link is cached outside the re-link path; old top-level entries are pruned before the new AST is installed, on every re-index path (no condition on the routine's parameters), a failed parse touches nothing, closing a deleted file prunes; parsing does not mutate the option objects it is given. Not decided: equality with a fresh server over all histories."),
    "C15": ("effect summary of the pool worker + dominance/order checks of the phase structure + sibling comparison", "Decides the phase structure that makes the start-up index schedule-independent: the worker is a static function whose transitive writes touch only fresh objects and the per-process keyword-order global; join precedes the first result.get(); the merge loop resolves nothing across files; includes for all files, version bump, then links for all files - at start-up and on every open/save; both indexing paths construct and parse files with the same arguments; the include and link calls are unconditional inside the whole-workspace loops; a derived type forces its parent's inheritance on every path before copying the parent's members; a process-wide parse setting that workers receive as an argument holds the same option value in the server process when initialisation ends (event order over constructor + initialize, including the configuration load). Not decided: order-dependence inside the resolvers, pickling fidelity, unordered sources of the file list."),
})

CLAIMS.update({
    "C07": ("def-use obligations along the diagnostic pipeline, CFG path check per constructed diagnostic, constant folding of severities, write-effect summary of get_diagnostics", "Decides the error discipline of the diagnostic pipeline: every function that builds diagnostics is reachable from the aggregator, each per-scope checker's result and each callee-returned diagnostic is added, scope list and none-scope are both visited, end errors and parse errors are returned, both parts are merged and built, the list is published unchanged under the document's URI on every non-error path; no constructed diagnostic can reach the end of its function unappended; severities are 1..3; computing diagnostics writes no persistent state; a related location becomes a URI only when its path exists (declarations of intrinsic modules have none); nothing created before the scope loop is handed to a per-scope checker that both writes and reads it; the valid-parent predicate of procedures, evaluated over the table of type ids, is false for a parent of class Type and of every subclass of Block. Not decided: silence on all valid programs, presence at every seeding position (what the checkers find)."),
})

CLAIMS.update({
    "C04": ("table agreement between statement readers, parser dispatch, END patterns and kind tables (regex trees + AST), line-base dimension analysis", "Decides the tables END matching rests on: every construct is closed by a pattern that shares its opener's keyword and whose keywords END_WORD lists; non-unit constructs require a container; the set of tags produced by the statement readers equals the set the parser dispatches on; both symbol-kind tables have an explicit arm for every entity type and stay within the SymbolKinds the protocol offers for that notion; 1-based entity lines reach symbol ranges through exactly one `- 1`; the workspace query is case-insensitive on both operands, sorted by name and skips entries without a file; every statement reader applies its opener pattern at the start of the line (match() or an anchored pattern). Not decided: END matching on arbitrary nestings, containers, exact start/end lines."),
})

CLAIMS.update({
    "C05": ("argument/default resolution at every scope look-up call site (lexical vs USE-reached scope), dominating-condition and statement-order checks in the resolver", "Decides the rule table of name resolution: every look-up into a module reached by USE passes the public filter (explicitly or by default), lexical look-ups do not, the filter tests both the entity's own accessibility and the default of the scope being searched (not of the child's own parent, which INCLUDE grafting re-binds) before the name comparison and is forwarded into nested interface look-ups; in the USE loop the ONLY list is tested before and the rename map applied to the look-up; the search order is own scope, INCLUDE/USE, host, submodule ancestors; the USE traversal is cycle-cut and a derived type's members include inherited ones. Not decided: that the declaration found is the one Fortran binds for every program (value-level), get_inner_scope's choice of scope."),
    "C12": ("tag-table agreement between classifier and handler, dominating-facts check at every item append, argument/default resolution at collector call sites, constant folding of the type-mask length against all type ids (code and bundled JSON)", "Decides: every context tag the classifier returns is handled and every tag handled can be produced; the typed prefix is lower-cased and every completion item is appended under a lower-cased startswith test (or comes from the collector, which filters unless the prefix is empty), renamed entities under their local name; members of USE-associated modules are collected with the public filter and the ONLY list (compared on lower-cased names), USE ... ONLY: asks for public members; after CALL every candidate passes is_callable(), in USE only modules; the type mask has an entry for every type id including those of the bundled intrinsic tables; type members include inherited ones. Not decided: that the offered set equals the accessible set on every program (agreement with go-to-definition is only through the shared rules of C05)."),
})

CLAIMS.update({
    "C06": ("regex-tree query on the occurrence matcher (zero-width neighbours, hole inside the group, escape, flags), def-use of match spans into hit records, dominating facts at the record point, sibling comparison of the references and rename handlers", "Decides the mechanics that turn occurrences into ranges: one searcher is shared by references, documentHighlight and rename; its pattern consumes nothing but the name (so adjacent occurrences are all found), the name is inserted through re.escape and matched case-insensitively; a hit's record is (0-based line index, start, end) of the name group and the hit is re-resolved at a column inside the identifier; the searched text is comment-stripped by a string-literal-aware cut, preprocessor lines are skipped, a hit is recorded only under a non-None resolution and an identity (qualified-name) comparison, the word expander tries character-literal patterns before the word pattern and no pattern that can start with an operator sign or digit before it; rename and references call the searcher with the same arguments under the same restriction code (compared up to the spelling of comparisons) and pass line/start/end and newName through unchanged; the search is restricted to one file only under the nested-entity test (FQSN depth > 2). Not decided: which occurrences bind to the entity (get_definition's answer, C05), continuation lines."),
})

CLAIMS.update({
    "C08": ("dominating facts at every statement-reader call and every define/undef/include site, regex-tree enumeration of parenthesis skeletons, def-use of the macro table through the recursive include call, taint of macro text into regex sinks", "Decides necessary conditions around the conditional state machine: in parse() every statement reader is behind the skip test, which tests the same 1-based line variable against region[0] <= line <= region[1] and the directive-line list produced by the preprocessing pass of the same parse (run iff preproc); region bounds are stored as i + 1; #define, #undef, #include and directive-line recording happen only under a flag computed over the whole stack of open conditionals; macro and parameter names are escaped and bodies never used as replacement templates; every match of the `defined` rewriting pattern has balanced parentheses and the looked-up group is the identifier; the macro table is a copy, passed to and taken back from included files, used by every condition, stored on the file; the expansion cache is keyed by everything its entries are computed from, or invalidated at every place that removes a definition or replaces the table (#undef, the table handed back by an included file); the per-macro skip test of the substitution loop reads the line as rewritten so far. Not decided (said plainly): that the #if/#elif/#else automaton and the expression evaluator agree with a reference preprocessor for all nestings and truth assignments, and character-exact expansion of function-like macro arguments."),
})

CLAIMS.update({
    "C09": ("class-set (protocol) analysis of result objects narrowed by dominating isinstance / get_type() facts, nullability of dict.get results and link fields, override signature agreement, format-string and sign-test queries", "Decides, for the nine position-based handlers and the helpers they hand objects to: every attribute read on an object that came out of get_definition / find_in_scope / the candidate lists exists for every class the object can still have at that point (class sets from constructors, narrowed by isinstance and get_type() comparisons, with each class's possible get_type() values read from its code and the bundled intrinsic tables), or AttributeError is absorbed; dict.get results, nullable link fields and file-less intrinsic ASTs are tested before use (also when handed to a function that dereferences its parameter); every method call fits every remaining class's override; no computed text is used as a format string; a not-found column never reaches a range builder without a sign test; a position outside the document yields None through get_line / get_line_prefix and handlers touch the line only after that test; immediately used call results are never None; an object built on a referenced file's tree does not take its line from the referring statement (one known finding: INCLUDE). Not decided: absence of other exceptions in text helpers (index arithmetic in get_paren_level, get_var_stack), that every returned position lies inside the target document."),
})

CLAIMS.update({
    "C11": ("table agreement between the attribute patterns (regex-tree alternatives), the id table, the argument-keeping set and the bundled completion lists; typestate of the pending documentation block on the CFG; backward slice from the hover return values to the entity's fields", "Decides: every attribute the declaration patterns recognise has an id, argument-carrying attributes keep their argument, constant keys exist, every attribute the server's own completion lists offer is recognised by the declaration parser (an unrecognised one silently drops itself and all later attributes); a pending `!>` block is attached by both entity producers and reset on every path afterwards, the forward flag selects between parking and attaching, the parser's buffer is emptied after every hand-over; documentation is never used as a format template; the hover text of a variable depends on desc, kind, keywords, keyword_info, name and param_val and its documentation on its own doc_str, procedures list arg_objs in declared order through each argument's own hover, type hover depends on name/inherit/abstract; a container that an entity method changes in place is created anew for every entity built in a loop; the argument of an attribute is recorded for every occurrence in the attribute list (not gated on what was mapped before), so the entity's own array-spec overrides the statement-level DIMENSION. Not decided: kind/len extraction, attribute order, active-parameter computation, which entity a doc block belongs to. One known finding (CODIMENSION) is listed in known_findings.json."),
})

NA_REASON = "check under construction in this round (rules designed in DESIGN.md section 3, not yet implemented); will move to checks once its rules run"


def main():
    props = [json.loads(l) for l in open(os.path.join(HERE, "properties.jsonl"))]
    checks = []
    na = []
    for p in props:
        pid = p["id"]
        if pid in CLAIMS and os.path.exists(os.path.join(HERE, "rules", pid.lower() + ".py")):
            tech, text = CLAIMS[pid]
            checks.append({
                "property_id": pid,
                "quick_cmd": f"./check {pid} --tier quick",
                "thorough_cmd": f"./check {pid} --tier thorough",
                "evidence_file": f"/verif/evidence/{pid}.json",
                "replay_cmd_template": f"./check {pid} --replay {{path}}",
                "engine": "sa",
                "level_claimed": {"category": "other", "text": "Static analysis (necessary structural conditions). " + text, "design_ref": f"DESIGN.md section 3 / {pid}"},
                "level_note": BASE_NOTE,
                "technique": "static analysis: " + tech,
            })
        else:
            na.append({"property_id": pid, "reason": NA.get(pid, NA_REASON)})
    m = {
        "version": 1,
        "setup_cmd": "/venv/bin/python -m compileall -q sa rules selftest tools check >/dev/null && echo setup-ok",
        "hooks": {
            "guard": "FORTLS_VERIF",
            "enable": "none needed: the checks read /repo's source and never run it; no hook or instrumentation commit exists",
            "baseline_off_cmd": "cd /repo && /venv/bin/python -m pytest -q -p no:cacheprovider --timeout=900",
            "source_commits": [],
            "add_only": True,
        },
        "engines": [{"name": "sa", "path": "/verif/sa", "serves_properties": [c["property_id"] for c in checks], "kind_free_text": "repository-specific static analysis in Python (ast, re._parser): source model, call resolution, CFG + dominating facts, effects, regex trees"}],
        "checks": checks,
        "not_applicable": na,
        "notes": "All checks are static (family: static analysis). quick = all rules of the property on the current tree; thorough = the same plus checker validation on scratch copies of the current tree: every registered mutant of the property and every seeded sub-agent change attributed to it (seeded/<name>/patch.diff) must be flagged, every benign twin and every one of the 60 behaviour-preserving seeded refactorings (seeded/benign-*) must leave the check silent; validation is reported (CHECKER-VALIDATION lines, evidence coverage.checker_validation) and never changes the verdict on the tree. Before any rule runs the model normalises the tree (sa/inline.py, sa/renames.py): helpers, constants and names that did not exist on the pinned tree are inlined / folded / mapped back, so behaviour-preserving refactorings do not hide code from the rules; nothing is normalised on the pinned tree itself.",
    }
    with open(os.path.join(HERE, "MANIFEST.json"), "w") as fh:
        json.dump(m, fh, indent=1)
    print("checks:", [c["property_id"] for c in checks], "n/a:", len(na))


NA = {}

if __name__ == "__main__":
    main()
