#!/bin/sh
# run every property's checker validation (mutants + twins); one summary line per property
cd "$(dirname "$0")/.."
for i in 01 02 03 04 05 06 07 08 09 10 11 12 13 14 15 16 17 18 19 20; do
  /venv/bin/python selftest/run.py C$i --jobs 16 > /var/tmp/st_C$i.log 2>&1
  echo "C$i exit=$? $(tail -1 /var/tmp/st_C$i.log)"
  grep -E "^(fail|FAIL|miss)" /var/tmp/st_C$i.log | head -5
done
