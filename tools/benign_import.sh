#!/bin/sh
# tools/benign_import.sh <round> : file behaviour-preserving sub-agent refactorings under seeded/benign-<ID>[suffix]/ after re-running the suite
rnd=$1; suf=$2
for i in 01 02 03 04 05 06 07 08 09 10 11 12 13 14 15 16 17 18 19 20; do
  id=C$i; wt=/tmp/wt${rnd}_$id; sd=/tmp/seed${rnd}_$id; out=/verif/seeded/benign-$id$suf
  [ -s $sd/patch.diff ] && [ -s $sd/meta.json ] || continue
  [ -d $out ] && continue
  mkdir -p $out; cp $sd/patch.diff $sd/meta.json $out/
  td=$(mktemp -d /var/tmp/seedtmp.XXXXXX)
  t=$(cd $wt && TMPDIR=$td /venv/bin/python -m pytest -q -p no:cacheprovider --timeout=600 -n 6 --no-cov --deselect test/test_interface.py::test_version_update_pypi 2>&1 | grep -v conda | tail -1)
  rm -rf $td
  /venv/bin/python - "$out" "$t" <<'PY'
import json,sys,os
out,t=sys.argv[1:3]
p=os.path.join(out,'meta.json')
try: m=json.load(open(p))
except Exception: m={}
m['kind']='benign'; m['confirmed']={'suite':t}
json.dump(m,open(p,'w'),indent=1)
PY
  echo "benign-$id$suf tests: $t"
done
