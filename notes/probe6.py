from harness import *
import shutil, logging
logging.disable(logging.CRITICAL)
from fortls.parsers.internal.parser import preprocess_file
# P2
for cond in ["(defined A || defined B)", "(defined(A) || defined(B))", "defined A && (defined B)", "!defined(A)", "(defined A)"]:
    out = preprocess_file([f"#if {cond}", "integer :: a", "#endif"], "/tmp/scratch/x.F90", {"A":"1","B":"1"}, set())
    print("P2", cond, "skips:", out[1])
# P1
root="/tmp/scratch/ws6"; shutil.rmtree(root, ignore_errors=True)
a="module ma\n private\n public :: FOO\n integer :: foo\n integer :: bar\nend module ma\n"
b="program p\n use ma\n foo = 1\nend program p\n"
s,c = make_server(root, {"a.f90":a,"b.f90":b})
r=req(s,"textDocument/definition",root+"/b.f90",2,2)
print("P1 def foo (public FOO):", r[0][:3])
a2=a.replace("FOO","foo")
root="/tmp/scratch/ws7"; shutil.rmtree(root, ignore_errors=True)
s,c = make_server(root, {"a.f90":a2,"b.f90":b})
r=req(s,"textDocument/definition",root+"/b.f90",2,2)
print("P1 def foo (public foo):", r[0][:3])
