import ast, re
import re._parser as sp, re._constants as sc
src=open("/repo/fortls/regex_patterns.py").read(); t=ast.parse(src)
pats={}
for n in ast.walk(t):
    if isinstance(n,ast.AnnAssign) and isinstance(n.value,ast.Call) and getattr(n.value.func,"id","")=="compile":
        a=n.value.args
        if isinstance(a[0],ast.Constant):
            flags = re.I if len(a)>1 and getattr(a[1],"id","")=="I" else 0
            pats[n.target.id]=(a[0].value,flags)
print(len(pats),"patterns")
def walk(p):
    for op,av in p:
        yield op,av
        if op in (sc.MAX_REPEAT,sc.MIN_REPEAT,sc.POSSESSIVE_REPEAT): yield from walk(av[2])
        elif op is sc.SUBPATTERN: yield from walk(av[3])
        elif op is sc.BRANCH:
            for b in av[1]: yield from walk(b)
        elif op in (sc.ASSERT,sc.ASSERT_NOT): yield from walk(av[1])
def has_cased(p):
    for op,av in walk(p):
        if op is sc.LITERAL and chr(av).isalpha(): return True
        if op is sc.IN:
            for o,a in av:
                if o is sc.LITERAL and chr(a).isalpha(): return True
                if o is sc.RANGE and (chr(a[0]).isalpha()): return True
    return False
for k,(p,f) in pats.items():
    tree=sp.parse(p,f)
    if has_cased(tree) and not f: print("NOFLAG-CASED",k,p)
    w=tree.getwidth()
    if w[0]==0: print("CAN-MATCH-EMPTY",k,p)
    # nested repeats
    def nested(p,depth=0):
        for op,av in p:
            if op in (sc.MAX_REPEAT,sc.MIN_REPEAT):
                lo,hi,sub=av
                if hi is sc.MAXREPEAT or hi>10:
                    if depth>0: print("NESTED-UNBOUNDED",k,p if isinstance(p,str) else pats[k][0])
                    nested(sub,depth+1)
                else: nested(sub,depth)
            elif op is sc.SUBPATTERN: nested(av[3],depth)
            elif op is sc.BRANCH:
                for b in av[1]: nested(b,depth)
    nested(tree)
print(sp.parse(r"(?:\W|^)(abc)(?:\W|$)",re.I).dump())
print(sp.parse(pats["DEFINED"][0],re.I).dump())
print("CASED:", sum(1 for k,(p,f) in pats.items() if has_cased(sp.parse(p,f))), "of", len(pats), "flagged I:", sum(1 for k,(p,f) in pats.items() if f))
