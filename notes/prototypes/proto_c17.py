import ast, collections
from proto_model import M
from proto_scc import edges
SINK_NAMES={"eval","exec","compile","__import__","open"}
SINK_ATTR={("os","system"),("os","remove"),("os","unlink"),("os","rename"),("os","makedirs"),("os","mkdir"),("os","popen"),("os","fdopen"),("subprocess","run"),("subprocess","Popen"),("logging","basicConfig"),("urllib.request","urlopen"),("urllib.request","Request"),("pickle","loads"),("pickle","load")}
sites=[]
for q,fn in M.funcs.items():
    rel=q.split(":")[0]
    stack=list(ast.iter_child_nodes(fn))
    while stack:
        n=stack.pop()
        if isinstance(n,(ast.FunctionDef,ast.ClassDef)): continue
        stack.extend(ast.iter_child_nodes(n))
        if isinstance(n,ast.Call):
            f=n.func
            if isinstance(f,ast.Name) and f.id in SINK_NAMES and f.id not in M.imports[rel]:
                sites.append((q,n.lineno,f.id,ast.unparse(n)[:70]))
            elif isinstance(f,ast.Attribute):
                base=ast.unparse(f.value)
                if (base,f.attr) in SINK_ATTR or f.attr in ("write_text","write_bytes","unlink","rmdir","touch"):
                    sites.append((q,n.lineno,base+"."+f.attr,ast.unparse(n)[:70]))
# reachability
roots=[q for q in M.funcs if q.endswith("LangServer.run") or q.endswith("LangServer.handle") or q.endswith("LangServer.file_init") or (q.startswith("fortls/langserver.py:LangServer.serve_") and q.count(".")==2)]
seen=set(roots); st=list(roots)
while st:
    q=st.pop()
    for t in set(edges.get(q,()))|{k for k in M.funcs if M.parent_func[k]==q}:
        if t not in seen: seen.add(t); st.append(t)
print(len(seen),"reachable of",len(M.funcs))
for s in sorted(sites):
    print("REACH " if s[0] in seen else "unreach", s[0].split(":")[0].replace("fortls/",""), s[0].split(":")[1], s[1], s[2], "|", s[3])
