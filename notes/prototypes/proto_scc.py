import ast, collections, sys
from proto_model import M
from proto_calls import resolve
BUILTIN_CLASH={"copy","end","get","add","start","count","format","update","pop","remove","append","index","find","match","search","strip","lower","upper","split","join","replace","items","keys","values","sort","read","write","readline","close","group"}
edges=collections.defaultdict(set); kindof={}
for q in M.funcs:
    for n,k,t in resolve(q):
        if k in("external","typed-ext"): continue
        if k=="by_name" and n.func.attr in BUILTIN_CLASH: continue
        for x in t:
            if x: edges[q].add(x); kindof[(q,x)]=k
    for k2 in M.funcs:
        if M.parent_func[k2]==q: pass
def sccs(nodes,edges):
    idx={};low={};st=[];on=set();out=[];c=[0]
    sys.setrecursionlimit(10000)
    def sc(v):
        idx[v]=low[v]=c[0];c[0]+=1;st.append(v);on.add(v)
        for w in edges.get(v,()):
            if w not in idx: sc(w);low[v]=min(low[v],low[w])
            elif w in on: low[v]=min(low[v],idx[w])
        if low[v]==idx[v]:
            comp=[]
            while True:
                w=st.pop();on.discard(w);comp.append(w)
                if w==v:break
            out.append(comp)
    for v in nodes:
        if v not in idx: sc(v)
    return out
if __name__=="__main__":
    for comp in sccs(list(M.funcs),edges):
        if len(comp)>1 or comp[0] in edges[comp[0]]:
            print(sorted(x.split(":")[1] for x in comp))
            for a in comp:
                for b in edges[a]:
                    if b in comp: print("     ",a.split(":")[1],"->",b.split(":")[1],kindof[(a,b)])
