import ast, os, collections
import os as _os
ROOT=_os.environ.get("SA_REPO","/repo")
class Model:
    def __init__(self, root=ROOT):
        self.mods={}; self.funcs={}; self.classes={}; self.cls_of_func={}
        self.parent_func={}
        for d,_,fs in os.walk(os.path.join(root,"fortls")):
            for f in sorted(fs):
                if f.endswith(".py"):
                    p=os.path.join(d,f); rel=os.path.relpath(p,root)
                    self.mods[rel]=ast.parse(open(p).read())
        for rel,t in self.mods.items(): self._collect(t,rel,"",None,None)
        # class table by simple name (unique in repo)
        self.cname={c.split(":")[1]:c for c in self.classes}
        self.bases={c:[self.cname[b] for b in [ast.unparse(x) for x in n.bases] if b in self.cname] for c,n in self.classes.items()}
        self.subs=collections.defaultdict(set)
        for c in self.classes:
            for a in self.mro(c)[1:]: self.subs[a].add(c)
        self.imports={rel:self._imports(t) for rel,t in self.mods.items()}
        self.fields=self._fields()
    def _collect(self,node,rel,prefix,cls,pf):
        for ch in ast.iter_child_nodes(node):
            if isinstance(ch,ast.FunctionDef):
                q=f"{rel}:{prefix}{ch.name}"; self.funcs[q]=ch; self.cls_of_func[q]=cls; self.parent_func[q]=pf
                self._collect(ch,rel,prefix+ch.name+".",cls if pf is None and False else cls,q)
            elif isinstance(ch,ast.ClassDef):
                c=f"{rel}:{prefix}{ch.name}"; self.classes[c]=ch
                self._collect(ch,rel,prefix+ch.name+".",c,None)
            else: self._collect(ch,rel,prefix,cls,pf)
    def mro(self,c):
        out=[c]
        for b in self.bases.get(c,[]):
            for x in self.mro(b):
                if x not in out: out.append(x)
        return out
    def _imports(self,t):
        imp={}
        for n in ast.walk(t):
            if isinstance(n,ast.ImportFrom):
                for a in n.names: imp[a.asname or a.name]=(n.module or "", a.name, n.level)
            elif isinstance(n,ast.Import):
                for a in n.names: imp[a.asname or a.name.split(".")[0]]=(a.name,None,0)
        return imp
    def method(self,c,name):
        for k in self.mro(c):
            q=f"{k.split(':')[0]}:{k.split(':')[1]}.{name}"
            if q in self.funcs: return q
        return None
    def dispatch(self,c,name):
        out=set(); m=self.method(c,name)
        if m: out.add(m)
        for s in self.subs.get(c,()):
            q=f"{s.split(':')[0]}:{s.split(':')[1]}.{name}"
            if q in self.funcs: out.add(q)
        return out
    def _fields(self):
        fields=collections.defaultdict(dict) # class -> field -> annotation class
        for q,fn in self.funcs.items():
            c=self.cls_of_func[q]
            if not c or self.parent_func[q]: continue
            for n in ast.walk(fn):
                if isinstance(n,ast.AnnAssign) and isinstance(n.target,ast.Attribute) and getattr(n.target.value,"id","")=="self":
                    fields[c][n.target.attr]=ast.unparse(n.annotation)
                elif isinstance(n,ast.Assign):
                    for tg in n.targets:
                        if isinstance(tg,ast.Attribute) and getattr(tg.value,"id","")=="self": fields[c].setdefault(tg.attr,None)
        return fields
    def field_ann(self,c,f):
        for k in self.mro(c):
            if f in self.fields.get(k,{}) and self.fields[k][f]: return self.fields[k][f]
        return None
M=Model()
if __name__=="__main__":
    print(len(M.mods),len(M.classes),len(M.funcs))
