import ast, collections
from proto_model import M
CONTAINER_ELEM={"workspace":"FortranFile"}
def ann_class(ann):
    if not ann: return None
    ann=ann.replace('"','').replace("'","")
    for part in ann.replace("|"," ").replace("["," ").replace("]"," ").replace(","," ").split():
        part=part.split(".")[-1]
        if part in M.cname: return M.cname[part]
    return None
def local_env(q,fn):
    env={}
    c=M.cls_of_func[q]
    # enclosing functions' envs
    pf=M.parent_func[q]
    if pf: env.update(local_env(pf,M.funcs[pf]))
    args=fn.args.args+fn.args.kwonlyargs
    for a in args:
        k=ann_class(ast.unparse(a.annotation)) if a.annotation else None
        if k: env[a.arg]=k
    if c and args and args[0].arg=="self" and not pf: env["self"]=c
    if pf and "self" not in env:
        c2=M.cls_of_func[pf]
    for n in ast.walk(fn):
        if isinstance(n,ast.AnnAssign) and isinstance(n.target,ast.Name):
            k=ann_class(ast.unparse(n.annotation))
            if k: env[n.target.id]=k
        if isinstance(n,ast.Assign) and len(n.targets)==1 and isinstance(n.targets[0],ast.Name):
            k=expr_class(n.value,env,q)
            if k: env.setdefault(n.targets[0].id,k)
        if isinstance(n,ast.For) and isinstance(n.target,ast.Tuple) and isinstance(n.iter,ast.Call) and getattr(n.iter.func,"attr","")=="items":
            base=n.iter.func.value
            if isinstance(base,ast.Attribute) and base.attr=="workspace" and len(n.target.elts)==2 and isinstance(n.target.elts[1],ast.Name):
                env[n.target.elts[1].id]=M.cname["FortranFile"]
    return env
def expr_class(e,env,q):
    if isinstance(e,ast.Name): return env.get(e.id)
    if isinstance(e,ast.Call):
        f=e.func
        if isinstance(f,ast.Name) and f.id in M.cname: return M.cname[f.id]
        if isinstance(f,ast.Attribute) and f.attr=="get" and isinstance(f.value,ast.Attribute) and f.value.attr=="workspace": return M.cname["FortranFile"]
        return None
    if isinstance(e,ast.Attribute):
        k=expr_class(e.value,env,q)
        if k:
            a=M.field_ann(k,e.attr)
            return ann_class(a)
    return None
def resolve(q):
    fn=M.funcs[q]; rel=q.split(":")[0]; env=local_env(q,fn)
    out=[]  # (callnode, kind, targets)
    stack=list(ast.iter_child_nodes(fn))
    nested={k.split(".")[-1]:k for k in M.funcs if M.parent_func[k]==q}
    # nested defs visible from enclosing too
    pf=M.parent_func[q]
    while pf:
        nested.update({k.split(".")[-1]:k for k in M.funcs if M.parent_func[k]==pf and k.split(".")[-1] not in nested}); pf=M.parent_func[pf]
    while stack:
        n=stack.pop()
        if isinstance(n,(ast.FunctionDef,ast.ClassDef)): continue
        stack.extend(ast.iter_child_nodes(n))
        if not isinstance(n,ast.Call): continue
        f=n.func
        if isinstance(f,ast.Name):
            if f.id in nested: out.append((n,"nested",{nested[f.id]})); continue
            mq=f"{rel}:{f.id}"
            if mq in M.funcs: out.append((n,"module",{mq})); continue
            if f.id in M.cname:
                c=M.cname[f.id]; m=M.method(c,"__init__"); out.append((n,"ctor",{m} if m else set())); continue
            imp=M.imports[rel].get(f.id)
            if imp:
                cands=[k for k in M.funcs if k.endswith(":"+imp[1]) and imp[0].split(".")[-1] in k]
                if cands: out.append((n,"import",set(cands))); continue
            out.append((n,"external",{f.id})); continue
        if isinstance(f,ast.Attribute):
            if isinstance(f.value,ast.Call) and getattr(f.value.func,"id","")=="super":
                c=M.cls_of_func[q]
                tg=set()
                for b in M.mro(c)[1:]:
                    qq=f"{b.split(':')[0]}:{b.split(':')[1]}.{f.attr}"
                    if qq in M.funcs: tg={qq}; break
                out.append((n,"super",tg)); continue
            k=expr_class(f.value,env,q)
            if k:
                tg=M.dispatch(k,f.attr)
                out.append((n,"typed" if tg else "typed-ext",tg)); continue
            cands={k2 for k2 in M.funcs if k2.split(":")[1].split(".")[-1]==f.attr and M.cls_of_func[k2] and not M.parent_func[k2]}
            out.append((n,"by_name" if cands else "external",cands if cands else {ast.unparse(f)}))
    return out
if __name__=="__main__":
    kinds=collections.Counter()
    for q in M.funcs:
        for n,k,t in resolve(q): kinds[k]+=1
    print(kinds)
