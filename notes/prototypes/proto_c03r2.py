import ast
from proto_model import M
from proto_facts import Facts
STRM={"strip","rstrip","lstrip","lower","upper","replace"}
def idx(s):
    if isinstance(s,ast.UnaryOp) and isinstance(s.op,ast.USub) and isinstance(s.operand,ast.Constant): return -s.operand.value
    if isinstance(s,ast.Constant) and isinstance(s.value,int): return s.value
    return None
def nonempty(facts,key):
    for t,pos in facts:
        if pos and t in (key, f"len({key}) > 0", f"len({key}) > 1", f"len({key}) == 2", f"len({key}) >= 1"): return True
        if not pos and t in (f"not {key}", f"len({key}) == 0", f"len({key}) == 1", f"{key} == ''"): return True
    return False
FILES=("parser.py","helper_functions.py","ast.py","utilities.py","langserver.py")
for q,fn in M.funcs.items():
    if not q.split(":")[0].endswith(FILES): continue
    # local stacks: names with append & pop in fn
    names=collections=None
    app=set(); 
    for n in ast.walk(fn):
        if isinstance(n,ast.Call) and isinstance(n.func,ast.Attribute) and n.func.attr in("append","pop") and isinstance(n.func.value,ast.Name): app.add(n.func.value.id)
    params={a.arg:(ast.unparse(a.annotation) if a.annotation else None) for a in fn.args.args}
    def cb(e,facts):
        if isinstance(e,ast.Subscript) and isinstance(e.ctx,ast.Load):
            k=idx(e.slice)
            if k is None: return
            v=e.value; key=ast.unparse(v); kind=None
            if isinstance(v,ast.Call) and isinstance(v.func,ast.Attribute) and v.func.attr in STRM: kind="strcall"
            elif isinstance(v,ast.Call) and isinstance(v.func,ast.Attribute) and v.func.attr=="split":
                if k in (0,-1) : return
                kind="split[k]"
            elif isinstance(v,ast.Subscript) and isinstance(v.slice,ast.Slice): kind="slice"
            elif isinstance(v,ast.Name) and params.get(v.id) in ("str",): kind="strparam"
            elif isinstance(v,ast.Name) and v.id in app: kind="stack"
            elif isinstance(v,ast.Name):
                # local assigned from split / str method
                for n in ast.walk(fn):
                    if isinstance(n,ast.Assign) and any(isinstance(t,ast.Name) and t.id==v.id for t in n.targets) and isinstance(n.value,ast.Call) and isinstance(n.value.func,ast.Attribute):
                        if n.value.func.attr=="split" and k not in (0,-1): kind="splitvar[k]"
                        if n.value.func.attr in STRM or (n.value.func.attr=="split" and False): kind=kind or "strvar"
                    if isinstance(n,ast.Assign) and any(isinstance(t,ast.Name) and t.id==v.id for t in n.targets) and isinstance(n.value,ast.Subscript) and isinstance(n.value.slice,ast.Slice): kind=kind or "slicevar"
            if kind: print(q.split(":")[1], e.lineno, ast.unparse(e), kind, "OK" if nonempty(facts,key) else "OPEN", [f for f in facts if key in f[0]][:2])
    Facts(cb).run(fn)
