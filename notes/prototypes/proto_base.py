import ast, collections
from proto_model import M
B1_ATTRS={"sline","eline","line_number","contains_start","implicit_line"}
# sinks: function name -> {arg index or kw: expected base}
SINK0={"range_json":[0,2],"uri_json":[1,3],"location_json":[1,3],"symbol_json":[3,5],"change_json":[1,3],"diagnostic_json":[0,2],"Diagnostic":[0],"get_line":[0],"get_code_line":[0],"find_word_in_code_line":[0],"add_related":["line"]}
SINK1={"get_inner_scope":[0],"get_scopes":[0],"find_in_scope":["var_line_number"],"add_error":[2],"end_scope":[0]}
def base(e, env, depth=0):
    """returns 1, 0, or None"""
    if isinstance(e,ast.Attribute) and e.attr in B1_ATTRS: return 1
    if isinstance(e,ast.Subscript) and isinstance(e.slice,ast.Constant) and e.slice.value=="line": return 0
    if isinstance(e,ast.BinOp) and isinstance(e.right,ast.Constant) and e.right.value==1:
        b=base(e.left,env,depth)
        if b is None: return None
        if isinstance(e.op,ast.Sub): return b-1
        if isinstance(e.op,ast.Add): return b+1
    if isinstance(e,ast.Name) and depth<4:
        ds=env.get(e.id,[])
        bs={base(d,env,depth+1) for d in ds}
        if len(bs)==1: return bs.pop()
    if isinstance(e,ast.Call) and getattr(e.func,"id","") in("min","max"):
        bs={base(a,env,depth) for a in e.args}; 
        if len(bs)==1: return bs.pop()
    return None
for q,fn in M.funcs.items():
    if "debug.py" in q: continue
    env=collections.defaultdict(list)
    for n in ast.walk(fn):
        if isinstance(n,ast.Assign) and len(n.targets)==1 and isinstance(n.targets[0],ast.Name): env[n.targets[0].id].append(n.value)
        if isinstance(n,ast.AnnAssign) and isinstance(n.target,ast.Name) and n.value is not None: env[n.target.id].append(n.value)
        if isinstance(n,ast.For) and isinstance(n.iter,ast.Call) and getattr(n.iter.func,"id","")=="enumerate" and isinstance(n.target,ast.Tuple) and isinstance(n.target.elts[0],ast.Name):
            env[n.target.elts[0].id].append(ast.Subscript(value=ast.Name(id="_"),slice=ast.Constant(value="line")))  # index -> 0-based
    for n in ast.walk(fn):
        if not isinstance(n,ast.Call): continue
        name=n.func.id if isinstance(n.func,ast.Name) else getattr(n.func,"attr",None)
        for table,exp in ((SINK0,0),(SINK1,1)):
            if name in table:
                for pos in table[name]:
                    arg=None
                    if isinstance(pos,int) and pos<len(n.args): arg=n.args[pos]
                    for k in n.keywords:
                        if k.arg==pos: arg=k.value
                    if arg is None: continue
                    b=base(arg,env)
                    tag="ok" if b==exp else ("UNKNOWN" if b is None else "MISMATCH")
                    if tag!="ok": print(tag,q.split(":")[1],n.lineno,name,ast.unparse(arg),b,"expected",exp)
