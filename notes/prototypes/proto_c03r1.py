import ast
from proto_model import M
from proto_facts import Facts
def nonnull(facts, key):
    for t,pos in facts:
        if pos and t in (f"{key} is not None", key): return True
        if not pos and t in (f"{key} is None", f"not {key}"): return True
    return False
for q,fn in M.funcs.items():
    if M.parent_func[q]: continue
    hits=[]
    def cb(e,facts):
        if isinstance(e,ast.Attribute) and isinstance(e.value,ast.Attribute) and e.value.attr=="current_scope" and isinstance(e.ctx,ast.Load):
            key=ast.unparse(e.value)
            twin=key.replace("current_scope","end_scope_regex")
            g = "self" if nonnull(facts,key) else ("twin" if nonnull(facts,twin) else None)
            hits.append((e.lineno,ast.unparse(e),g))
    Facts(cb).run(fn)
    for h in hits: print(q.split(":")[1],h)
