import ast, sys, os
from proto_model import M
def events_of(e):
    """calls in evaluation order (approx: ast.walk order sorted by position)"""
    calls=[n for n in ast.walk(e) if isinstance(n,ast.Call)]
    calls.sort(key=lambda n:(n.end_lineno,n.end_col_offset))
    return calls
class Path:
    def __init__(self,ev=(),facts=()): self.ev=list(ev); self.facts=list(facts)
    def fork(self): return Path(self.ev,self.facts)
def covers_exception(h):
    if h.type is None: return True
    names=[ast.unparse(x) for x in (h.type.elts if isinstance(h.type,ast.Tuple) else [h.type])]
    return any(n in("Exception","BaseException") for n in names)
def run_block(body, path, in_try_handlers):
    """returns list of (path, outcome) with outcome in 'fall','return','raise'"""
    paths=[(path,'fall')]
    for st in body:
        nxt=[]
        for p,o in paths:
            if o!='fall': nxt.append((p,o)); continue
            nxt.extend(run_stmt(st,p))
        paths=nxt
    return paths
def expr_events(e,p):
    """yield (path,outcome) variants: each call may raise"""
    outs=[]
    cur=p
    for c in events_of(e):
        name=ast.unparse(c.func)
        r=cur.fork(); r.ev.append(("RAISE-IN",name)); outs.append((r,'raise'))
        cur.ev.append(("CALL",name, ast.unparse(c.args[0]) if c.args else None))
    outs.append((cur,'fall'))
    return outs
def run_stmt(st,p):
    if isinstance(st,ast.If):
        res=[]
        for pe,o in expr_events(st.test,p.fork()):
            if o=='raise': res.append((pe,o)); continue
            a=pe.fork(); a.facts.append((ast.unparse(st.test),True)); res.extend(run_block(st.body,a,None))
            b=pe.fork(); b.facts.append((ast.unparse(st.test),False)); res.extend(run_block(st.orelse,b,None))
        return res
    if isinstance(st,ast.Try):
        res=[]
        for pb,o in run_block(st.body,p.fork(),st.handlers):
            if o=='raise':
                for h in st.handlers:
                    ph=pb.fork(); ph.ev.append(("HANDLER",ast.unparse(h.type) if h.type else "bare"))
                    res.extend(run_block(h.body,ph,None))
                if not any(covers_exception(h) for h in st.handlers):
                    pu=pb.fork(); pu.ev.append(("UNCAUGHT",)); res.append((pu,'raise'))
            elif o=='fall': res.extend(run_block(st.orelse,pb,None))
            else: res.append((pb,o))
        return res
    if isinstance(st,ast.Return):
        res=[]
        if st.value is not None:
            for pe,o in expr_events(st.value,p.fork()): res.append((pe,'return' if o=='fall' else o))
        else: res.append((p,'return'))
        return res
    if isinstance(st,ast.FunctionDef): return [(p,'fall')]
    return expr_events(st,p.fork()) if not isinstance(st,(ast.Pass,)) else [(p,'fall')]
fn=M.funcs["fortls/langserver.py:LangServer.handle"]
paths=run_block(fn.body,Path(),None)
print(len(paths),"paths")
import collections
summ=collections.Counter()
for p,o in paths:
    notif=any(f==("'id' not in request",True) for f in p.facts)
    writes=[e for e in p.ev if e[0]=="CALL" and e[1] in("self.conn.write_response","self.conn.write_error")]
    handler=[e for e in p.ev if e[0]=="CALL" and e[1]=="handler"]
    summ[(("notif" if notif else "req" if any(f==("'id' not in request",False) for f in p.facts) else "pre"),o,len(handler),tuple((w[1].split('.')[-1],w[2]) for w in writes))]+=1
for k,v in sorted(summ.items(),key=str): print(v,k)
