import ast
def terminates(body):
    if not body: return False
    last=body[-1]
    if isinstance(last,(ast.Return,ast.Raise,ast.Continue,ast.Break)): return True
    if isinstance(last,ast.If) and last.orelse: return terminates(last.body) and terminates(last.orelse)
    return False
def conj(e, pos=True):
    """atoms known true when e evaluates to `pos`"""
    if isinstance(e,ast.BoolOp):
        if isinstance(e.op,ast.And) and pos: return [a for v in e.values for a in conj(v,True)]
        if isinstance(e.op,ast.Or) and not pos: return [a for v in e.values for a in conj(v,False)]
        return []
    if isinstance(e,ast.UnaryOp) and isinstance(e.op,ast.Not): return conj(e.operand, not pos)
    return [(ast.unparse(e),pos)]
def names_in(s):
    try: t=ast.parse(s,mode="eval")
    except SyntaxError: return set()
    out=set()
    for n in ast.walk(t):
        if isinstance(n,ast.Name): out.add(n.id)
        if isinstance(n,ast.Attribute): out.add(ast.unparse(n))
    return out
class Facts(ast.NodeVisitor):
    """calls cb(node, facts) for every expression node, facts=list of (text,bool)"""
    def __init__(self, cb): self.cb=cb
    def run(self, fn): self.block(fn.body, [])
    def kill(self, facts, targets):
        killed=set()
        for t in targets:
            for n in ast.walk(t):
                if isinstance(n,(ast.Name,ast.Attribute)): killed.add(ast.unparse(n))
        return [f for f in facts if not (names_in(f[0]) & killed)]
    def expr(self, e, facts):
        if e is None: return
        if isinstance(e,ast.BoolOp):
            acc=list(facts)
            for v in e.values:
                self.expr(v,acc)
                acc=acc+conj(v, isinstance(e.op,ast.And))
            return
        if isinstance(e,ast.IfExp):
            self.expr(e.test,facts); self.expr(e.body,facts+conj(e.test,True)); self.expr(e.orelse,facts+conj(e.test,False)); return
        self.cb(e,facts)
        for c in ast.iter_child_nodes(e):
            if isinstance(c,ast.expr): self.expr(c,facts)
            elif isinstance(c,ast.comprehension):
                self.expr(c.iter,facts)
                for i in c.ifs: self.expr(i,facts)
            elif isinstance(c,ast.keyword): self.expr(c.value,facts)
    def block(self, body, facts):
        facts=list(facts)
        for st in body:
            facts=self.stmt(st,facts)
        return facts
    def stmt(self, st, facts):
        if isinstance(st,ast.If):
            self.expr(st.test,facts)
            fb=self.block(st.body,facts+conj(st.test,True))
            fe=self.block(st.orelse,facts+conj(st.test,False))
            out=list(facts)
            # conservative kill: anything assigned in either branch
            assigned=[n for b in (st.body,st.orelse) for s in b for n in ast.walk(s) if isinstance(n,(ast.Assign,ast.AugAssign,ast.AnnAssign))]
            tg=[t for a in assigned for t in (a.targets if isinstance(a,ast.Assign) else [a.target])]
            out=self.kill(out,tg)
            if terminates(st.body) and not st.orelse: out+= [f for f in conj(st.test,False)]
            elif st.orelse and terminates(st.orelse) and not terminates(st.body): out+=conj(st.test,True)
            elif terminates(st.body) and st.orelse: out+=conj(st.test,False)
            return out
        if isinstance(st,(ast.For,ast.While)):
            if isinstance(st,ast.For): self.expr(st.iter,facts)
            assigned=[n for s in st.body for n in ast.walk(s) if isinstance(n,(ast.Assign,ast.AugAssign,ast.AnnAssign))]
            tg=[t for a in assigned for t in (a.targets if isinstance(a,ast.Assign) else [a.target])]
            inner=self.kill(facts,tg+([st.target] if isinstance(st,ast.For) else []))
            if isinstance(st,ast.While): self.expr(st.test,inner); inner=inner+conj(st.test,True)
            self.block(st.body,inner); self.block(st.orelse,inner)
            return self.kill(facts,tg)
        if isinstance(st,ast.Try):
            self.block(st.body,facts)
            for h in st.handlers: self.block(h.body,facts)
            self.block(st.orelse,facts); self.block(st.finalbody,facts)
            assigned=[n for n in ast.walk(st) if isinstance(n,(ast.Assign,ast.AugAssign,ast.AnnAssign))]
            tg=[t for a in assigned for t in (a.targets if isinstance(a,ast.Assign) else [a.target])]
            return self.kill(facts,tg)
        if isinstance(st,ast.With):
            for i in st.items: self.expr(i.context_expr,facts)
            return self.block(st.body,facts)
        if isinstance(st,(ast.FunctionDef,ast.ClassDef)): return facts
        if isinstance(st,ast.Assign):
            self.expr(st.value,facts); 
            for t in st.targets: self.expr(t,facts)
            return self.kill(facts,st.targets)
        if isinstance(st,(ast.AugAssign,ast.AnnAssign)):
            self.expr(st.value,facts); self.expr(st.target,facts); return self.kill(facts,[st.target])
        for c in ast.iter_child_nodes(st):
            if isinstance(c,ast.expr): self.expr(c,facts)
        return facts
