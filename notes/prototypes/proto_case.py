import ast, os, collections
from proto_model import M
LOWER_FIELDS={"FQSN","link_name","mod_name","inherit","ancestor_name","pass_name"}  # to be derived
LOWER_CONTAINERS={"only_list","rename_map","obj_tree","global_dict","child_names","arg_list_lower"}
def is_lower(e, env, depth=0):
    if isinstance(e,ast.Constant): return isinstance(e.value,str) and e.value==e.value.lower()
    if isinstance(e,ast.Call) and isinstance(e.func,ast.Attribute):
        if e.func.attr=="lower": return True
        if e.func.attr in("strip","lstrip","rstrip","replace","split","get") : return is_lower(e.func.value,env,depth)
    if isinstance(e,ast.Subscript): return is_lower(e.value,env,depth)
    if isinstance(e,ast.Attribute):
        if e.attr in LOWER_FIELDS or e.attr in LOWER_CONTAINERS: return True
    if isinstance(e,ast.Name):
        if e.id in LOWER_CONTAINERS: return True
        defs=env.get(e.id)
        if defs and depth<4: return all(is_lower(d,env,depth+1) for d in defs)
        if e.id.endswith("_lower"): return True
    if isinstance(e,(ast.ListComp,ast.SetComp)): return is_lower(e.elt,env,depth)
    return False
def env_of(fn):
    env=collections.defaultdict(list)
    for n in ast.walk(fn):
        if isinstance(n,ast.Assign):
            for t in n.targets:
                if isinstance(t,ast.Name): env[t.id].append(n.value)
        if isinstance(n,(ast.For,ast.comprehension)):
            t=n.target
            if isinstance(t,ast.Name): env[t.id].append(n.iter)
            if isinstance(t,ast.Tuple) and isinstance(n.iter,ast.Call) and getattr(n.iter.func,"id","")=="enumerate" and isinstance(t.elts[1],ast.Name): env[t.elts[1].id].append(n.iter.args[0])
    return env
def has_name(e): return any(isinstance(x,ast.Attribute) and x.attr=="name" for x in ast.walk(e))
for q,fn in M.funcs.items():
    if "debug.py" in q: continue
    env=env_of(fn)
    pf=M.parent_func[q]
    if pf:
        e2=env_of(M.funcs[pf]); 
        for k,v in e2.items(): env.setdefault(k,v)
    body=[n for n in ast.walk(fn)]
    for n in body:
        ops=None
        if isinstance(n,ast.Compare) and len(n.ops)==1 and isinstance(n.ops[0],(ast.Eq,ast.NotEq,ast.In,ast.NotIn)):
            ops=[n.left,n.comparators[0]]
        elif isinstance(n,ast.Call) and isinstance(n.func,ast.Attribute) and n.func.attr in("startswith","endswith","find","count") and n.args:
            ops=[n.func.value,n.args[0]]
        if not ops or not any(has_name(o) for o in ops): continue
        if any(isinstance(o,ast.Constant) and isinstance(o.value,str) and o.value.startswith("#") for o in ops): continue
        if any(isinstance(o,ast.Attribute) and isinstance(o.value,ast.Name) and o.value.id=="os" for o in ops): continue
        lows=[is_lower(o,env) for o in ops]
        tag="OK " if all(lows) else "BAD"
        print(tag, q.split(":")[1], n.lineno, ast.unparse(n)[:90], lows)
