import ast
from proto_model import M
from proto_facts import Facts
def nonnull(facts, key):
    for t,pos in facts:
        if pos and t in (f"{key} is not None", key): return True
        if not pos and t in (f"{key} is None", f"not {key}"): return True
    return False
for q,fn in M.funcs.items():
    if "debug.py" in q: continue
    optional={}
    for n in ast.walk(fn):
        if isinstance(n,ast.Assign) and len(n.targets)==1 and isinstance(n.targets[0],ast.Name) and isinstance(n.value,ast.Call) and isinstance(n.value.func,ast.Attribute) and n.value.func.attr=="get" and len(n.value.args)==1 and not n.value.keywords:
            optional[n.targets[0].id]=n.lineno
    if not optional: continue
    def cb(e,facts):
        if isinstance(e,ast.Attribute) and isinstance(e.value,ast.Name) and e.value.id in optional and e.lineno>optional[e.value.id]:
            print(q.split(":")[1], e.lineno, ast.unparse(e), "OK" if nonnull(facts,e.value.id) else "UNGUARDED")
    Facts(cb).run(fn)
