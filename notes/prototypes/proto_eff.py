import ast, collections
from proto_model import M
from proto_scc import edges, kindof
MUT={"append","add","pop","remove","update","extend","clear","sort","reverse","setdefault","insert","popleft","extendleft","discard"}
def fresh_locals(fn):
    fresh=set()
    for n in ast.walk(fn):
        if isinstance(n,ast.Assign) and len(n.targets)==1 and isinstance(n.targets[0],ast.Name):
            v=n.value
            if isinstance(v,(ast.List,ast.Dict,ast.Set,ast.ListComp,ast.DictComp,ast.SetComp,ast.Tuple)) or (isinstance(v,ast.Call) and ((isinstance(v.func,ast.Name) and (v.func.id in M.cname or v.func.id in("list","dict","set","deque","Counter"))) or (isinstance(v.func,ast.Attribute) and v.func.attr in("copy","split","items")))):
                fresh.add(n.targets[0].id)
    return fresh
def writes(q):
    fn=M.funcs[q]; out=[]
    params={a.arg for a in fn.args.args+fn.args.kwonlyargs}
    fresh=fresh_locals(fn)
    def root(e):
        while isinstance(e,(ast.Attribute,ast.Subscript)): e=e.value
        if isinstance(e,ast.Call): return "<call>"
        return e.id if isinstance(e,ast.Name) else "?"
    stack=list(ast.iter_child_nodes(fn))
    while stack:
        n=stack.pop()
        if isinstance(n,(ast.FunctionDef,ast.ClassDef)): continue
        stack.extend(ast.iter_child_nodes(n))
        tg=[]
        if isinstance(n,ast.Assign): tg=n.targets
        elif isinstance(n,(ast.AugAssign,ast.AnnAssign)): tg=[n.target]
        for t in tg:
            for tt in (t.elts if isinstance(t,ast.Tuple) else [t]):
                if isinstance(tt,(ast.Attribute,ast.Subscript)):
                    r=root(tt)
                    if r in fresh and r not in params: continue
                    if isinstance(tt,ast.Subscript) and isinstance(tt.value,ast.Name) and tt.value.id not in params: continue
                    out.append((n.lineno,r,ast.unparse(tt)))
        if isinstance(n,ast.Call) and isinstance(n.func,ast.Attribute) and n.func.attr in MUT:
            r=root(n.func.value)
            if isinstance(n.func.value,ast.Name) and n.func.value.id not in params: continue
            if r in fresh and r not in params: continue
            out.append((n.lineno,r,ast.unparse(n.func)))
    return out
roots=[q for q in M.funcs if q.startswith("fortls/langserver.py:LangServer.") and q.split(".")[-1] in ("serve_document_symbols","serve_workspace_symbol","serve_autocomplete","serve_signature","serve_definition","serve_references","serve_hover","serve_implementation","serve_rename","serve_codeActions","get_diagnostics")]
seen=set(roots); st=list(roots); via={}
while st:
    q=st.pop()
    nxt=set(edges.get(q,()))|{k for k in M.funcs if M.parent_func[k]==q}
    for t in nxt:
        if t not in seen and "debug.py" not in t: seen.add(t); st.append(t); via[t]=q
print(len(seen),"reachable from query handlers")
for q in sorted(seen):
    if q.endswith("__init__"): continue
    w=writes(q)
    if w:
        chain=[q]; 
        while chain[-1] in via: chain.append(via[chain[-1]])
        print(q.split(":")[1], "   via", " <- ".join(c.split(":")[1].replace("LangServer.","") for c in chain[1:4]))
        for l,r,s in sorted(set(w)): print("      ",l,r,s)
