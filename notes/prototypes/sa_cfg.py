import ast
t=ast.parse(open("/repo/fortls/interface.py").read())
dests=[]
for n in ast.walk(t):
    if isinstance(n,ast.Call) and isinstance(n.func,ast.Attribute) and n.func.attr=="add_argument":
        opts=[a.value for a in n.args if isinstance(a,ast.Constant)]
        long=[o for o in opts if o.startswith("--")]
        act=[k.value.value for k in n.keywords if k.arg=="action" and isinstance(k.value,ast.Constant)]
        dests.append((long[0][2:] if long else opts[0], act))
t2=ast.parse(open("/repo/fortls/langserver.py").read())
loads={}
for n in ast.walk(t2):
    if isinstance(n,ast.Assign) and isinstance(n.targets[0],ast.Attribute):
        for c in ast.walk(n.value):
            if isinstance(c,ast.Call) and isinstance(c.func,ast.Attribute) and c.func.attr=="get" and getattr(c.func.value,"id","")=="config_dict":
                loads[n.targets[0].attr]=(c.args[0].value, ast.unparse(c.args[1]) if len(c.args)>1 else None)
print("CLI dests:",[d for d,a in dests])
print("not loaded:",[d for d,a in dests if d not in loads and not d.startswith("debug_")])
for k,v in loads.items(): 
    ok = v[0]==k and v[1]==f"self.{k}"
    if not ok: print("MISMATCH",k,v)
