import subprocess, sys, re, json, os
R="/var/tmp/fx/repo"
M=[
 ("C01 notif gets response (drop return)", "fortls/langserver.py", '                log.exception("error handling request: %s", request, exc_info=True)\n            return\n', '                log.exception("error handling request: %s", request, exc_info=True)\n'),
 ("C01 narrow except", "fortls/langserver.py", "        except Exception as e:\n            self.conn.write_error(\n                request[\"id\"],", "        except KeyError as e:\n            self.conn.write_error(\n                request[\"id\"],"),
 ("C01 shutdown stops loop", "fortls/langserver.py", '            "shutdown": noop,', '            "shutdown": self.serve_exit,'),
 ("C02 forget hash reset", "fortls/parsers/internal/parser.py", "        self.hash = None\n        text = change.get", "        text = change.get"),
 ("C02 splitter drops CR", "fortls/parsers/internal/parser.py", 'return re.split(r"\\n|\\r\\n?", text)', 'return re.split(r"\\r?\\n", text)'),
 ("C05 drop filter_public", "fortls/parsers/internal/utilities.py", "tmp_var = check_scope(use_scope, mod_name, filter_public=True)", "tmp_var = check_scope(use_scope, mod_name)"),
 ("C05/C20 drop cycle cut", "fortls/parsers/internal/utilities.py", "    if scope.FQSN in curr_path:\n        return use_dict\n", ""),
 ("C06 start(0)", "fortls/langserver.py", "file_refs.append([i, match.start(1), match.end(1)])", "file_refs.append([i, match.start(0), match.end(1)])"),
 ("C07 drop check_use", "fortls/parsers/internal/ast.py", "            errors += scope.check_use(obj_tree)\n", ""),
 ("C08 define ignores stack", "fortls/parsers/internal/parser.py", "        if (match is not None) and stack_is_true:\n            output_file.append(line)\n            pp_defines.append(i + 1)", "        if match is not None:\n            output_file.append(line)\n            pp_defines.append(i + 1)"),
 ("C10 no prune of obj_tree", "fortls/langserver.py", "        ast_old = file_obj.ast\n        if ast_old is not None:\n            for key in ast_old.global_dict:\n                self.obj_tree.pop(key, None)\n        # Add new file to workspace", "        # Add new file to workspace"),
 ("C13 END_WORD case-sensitive", "fortls/regex_patterns.py", '        r"|SUBROUTINE|FUNCTION|PROCEDURE|FORALL)?([ ]+(?!\\W)|$)",\n        I,\n    )', '        r"|SUBROUTINE|FUNCTION|PROCEDURE|FORALL)?([ ]+(?!\\W)|$)",\n    )'),
 ("C13 find_in_scope raw compare", "fortls/parsers/internal/utilities.py", "            if child.name.lower() == var_name_lower:", "            if child.name == var_name_lower:"),
 ("C14 drop d comment flag", "fortls/regex_patterns.py", 'FIXED_COMMENT: Pattern = compile(r"([!cd*])", I)', 'FIXED_COMMENT: Pattern = compile(r"([!c*])", I)'),
 ("C15 link inside merge loop", "fortls/langserver.py", "            for key in ast_new.global_dict:\n                self.obj_tree[key] = [ast_new.global_dict[key], path]\n        # Update include statements", "            for key in ast_new.global_dict:\n                self.obj_tree[key] = [ast_new.global_dict[key], path]\n            ast_new.resolve_links(self.obj_tree, self.link_version)\n        # Update include statements"),
 ("C16 ensure_ascii False", "fortls/jsonrpc.py", '        bd = json.dumps(body, separators=(",", ":"))\n        content_length = len(bd)', '        bd = json.dumps(body, separators=(",", ":"), ensure_ascii=False)\n        content_length = len(bd)'),
 ("C17 write backup file", "fortls/parsers/internal/parser.py", "            self.hash = hash\n            self.contents_split = splitlines(contents)", "            self.hash = hash\n            open(self.path + '.bak', 'w').write(contents)\n            self.contents_split = splitlines(contents)"),
 ("C18 unanchored default suffix", "fortls/regex_patterns.py", "return re.compile(rf\"(({'$)|('.join(EXPRESSIONS)}$))\")", "return re.compile(rf\"(({')|('.join(EXPRESSIONS)}))\")"),
 ("C19 notify_init default False", "fortls/langserver.py", 'self.notify_init = config_dict.get("notify_init", self.notify_init)', 'self.notify_init = config_dict.get("notify_init", False)'),
 ("C20 drop inherit guard", "fortls/parsers/internal/type.py", "        if (self.inherit is None) or (self.inherit_version == inherit_version):\n            return", "        if self.inherit is None:\n            return"),
 ("C09 drop Intrinsic guard in rename", "fortls/langserver.py", '        if isinstance(def_obj, Intrinsic):\n            self.post_message("Rename failed: Cannot rename intrinsics", Severity.warn)\n            return None\n', ''),
 ("C12 context typo", "fortls/parsers/internal/parser.py", '            return "mod_mems", test_match[1].mod_name', '            return "mod_mem", test_match[1].mod_name'),
 ("C11 drop contiguous from table", "fortls/constants.py", '    "contiguous",\n', ''),
 ("C04 wrong END pairing", "fortls/parsers/internal/parser.py", "file_ast.add_scope(new_sub, FRegex.END_SUB)", "file_ast.add_scope(new_sub, FRegex.END_FUN)"),
 ("C03 drop pp_stack empty guard", "fortls/parsers/internal/parser.py", "            if len(pp_stack) == 0:\n                continue\n", ""),
]
res=[]
for name,f,old,new in M:
    p=os.path.join(R,f); s=open(p).read()
    if s.count(old)!=1:
        res.append((name,"NOT-APPLIED",s.count(old))); print(res[-1]); continue
    open(p,"w").write(s.replace(old,new))
    try:
        c=subprocess.run(["/venv/bin/python","-c","import fortls.langserver"],cwd=R,capture_output=True,text=True)
        if c.returncode!=0: res.append((name,"IMPORT-FAIL",c.stderr[-200:]))
        else:
            r=subprocess.run(["/venv/bin/python","-m","pytest","-q","-p","no:cacheprovider","--timeout=600","-n","12","--no-cov","-x","--deselect","test/test_interface.py::test_version_update_pypi"],cwd=R,capture_output=True,text=True)
            tail=[l for l in r.stdout.splitlines() if " passed" in l or " failed" in l][-1:] 
            failed=[l for l in r.stdout.splitlines() if l.startswith("FAILED")][:2]
            res.append((name,tail,failed))
    finally:
        open(p,"w").write(s)
    print(res[-1],flush=True)
json.dump(res,open("/var/tmp/fx/mutants.json","w"),indent=1)
