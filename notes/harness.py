import os, sys, json, tempfile, shutil
from fortls.interface import cli
from fortls.langserver import LangServer
from fortls.jsonrpc import path_to_uri

class FakeConn:
    def __init__(self): self.out=[]
    def write_response(self, rid, result): json.dumps(result); self.out.append(("resp", rid, result))
    def write_error(self, rid, code, message, data=None): self.out.append(("err", rid, code, message))
    def send_notification(self, method, params): self.out.append(("notif", method, params))
    def read_message(self): raise EOFError

def make_server(root, files, argv=()):
    os.makedirs(root, exist_ok=True)
    for name, txt in files.items():
        p = os.path.join(root, name); os.makedirs(os.path.dirname(p), exist_ok=True)
        open(p,"w").write(txt)
    args = vars(cli("fortls").parse_args(["--disable_autoupdate","--nthreads","1",*argv]))
    conn = FakeConn()
    s = LangServer(conn, args)
    s.handle({"jsonrpc":"2.0","id":0,"method":"initialize","params":{"rootPath":root}})
    return s, conn

def req(s, method, path, line=None, ch=None, rid=1, **extra):
    params = {"textDocument":{"uri":path_to_uri(path)}}
    if line is not None: params["position"]={"line":line,"character":ch}
    params.update(extra)
    n=len(s.conn.out)
    s.handle({"jsonrpc":"2.0","id":rid,"method":method,"params":params})
    return s.conn.out[n:]
def notif(s, method, path, **extra):
    params = {"textDocument":{"uri":path_to_uri(path)}}
    params.update(extra)
    n=len(s.conn.out)
    s.handle({"jsonrpc":"2.0","method":method,"params":params})
    return s.conn.out[n:]
