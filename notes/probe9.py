from harness import *
import shutil, logging
logging.disable(logging.CRITICAL)
for nm,(a,b) in {"same":("foo","foo"),"diff":("FOO","foo")}.items():
    root="/tmp/scratch/ws11"+nm; shutil.rmtree(root, ignore_errors=True)
    src=f"subroutine s()\n implicit none\n real {a}\n external {b}\n print *, {b}(1.0)\nend subroutine s\n"
    s,c = make_server(root, {"a.f":src})
    r=notif(s,"textDocument/didOpen",root+"/a.f")
    print(nm, [ (d["message"],d["severity"]) for o in r if o[0]=="notif" for d in o[2].get("diagnostics",[])])
