from harness import *
import shutil
root="/tmp/scratch/ws1"; shutil.rmtree(root, ignore_errors=True)
src = """module m
  implicit none
  integer :: i
contains
  subroutine s(a)
    integer :: a
    i = i+i
    a = abs(a)
  end subroutine s
end module m
program p
  use m
  call s(i)
end program p
"""
s, c = make_server(root, {"a.f90": src})
p = root+"/a.f90"
# C06 references on i at line 6 "    i = i+i"
print("refs i:", [ (r['range']['start']['line'], r['range']['start']['character']) for r in req(s,"textDocument/references",p,6,4)[0][2]])
# C09 references on intrinsic abs
print("refs abs:", req(s,"textDocument/references",p,7,9)[0][:4])
# C09 implementation on top-level name m (line 11 'use m')
print("impl m:", req(s,"textDocument/implementation",p,11,6)[0][:4])
print("impl s:", req(s,"textDocument/implementation",p,12,7)[0][:4])
# C10 duplicate diagnostics
s.max_line_length = 5
r1 = notif(s,"textDocument/didSave",p)
r2 = notif(s,"textDocument/didSave",p)
print("diag counts:", [len(x[2]["diagnostics"]) for x in r1 if x[0]=="notif"], [len(x[2]["diagnostics"]) for x in r2 if x[0]=="notif"])
