import sys, io, json, traceback
from fortls.parsers.internal.parser import FortranFile, preprocess_file
for src in (["#define A a\\qb", "x = A"], ["#define F(x) x\\1", "y = F(2)"], ["#define A \\g<0>", "A"], ["#define A(", "A"],):
    f = FortranFile("/tmp/scratch/x.F90")
    f.set_contents(list(src))
    try:
        f.parse()
        print("C03 ok", src, f.contents_pp)
    except Exception as e:
        print("C03 EXC", src, type(e).__name__, e)
# C16 reader
from fortls.jsonrpc import JSONRPC2Connection, ReadWriter
body = b'{"jsonrpc":"2.0","id":1,"method":"x","params":{}}'
stream = b"Content-Type: application/vscode-jsonrpc; charset=utf8\r\nContent-Length: %d\r\n\r\n" % len(body) + body + b"Content-Length: %d\r\n\r\n" % len(body) + body
conn = JSONRPC2Connection(ReadWriter(io.BytesIO(stream), io.BytesIO()))
try:
    print("C16 msg1", conn.read_message())
    print("C16 msg2", conn.read_message())
except Exception as e:
    print("C16 EXC", type(e).__name__, e)
# writer non-ascii
out = io.BytesIO()
conn = JSONRPC2Connection(ReadWriter(io.BytesIO(b""), out))
conn.write_response(1, {"x": "é€𝄞"})
raw = out.getvalue()
hdr, b = raw.split(b"\r\n\r\n",1)
print("C16 write", hdr.split(b"\r\n")[0], len(b))
from fortls.jsonrpc import path_from_uri, path_to_uri
for p in ["/tmp/a b/c#d%e/é.f90"]:
    print(p, path_to_uri(p), path_from_uri(path_to_uri(p)))
