from harness import *
import shutil, logging
logging.disable(logging.CRITICAL)
root="/tmp/scratch/ws5"; shutil.rmtree(root, ignore_errors=True)
a1="module ma\n type :: t\n  integer :: x\n end type t\nend module ma\n"
a2="module ma\n type :: t\n  integer :: x\n  integer :: ynew\n end type t\nend module ma\n"
b="program p\n use ma\n type(t) :: v\n v%x = 1\nend program p\n"
s,c = make_server(root, {"a.f90":a1,"b.f90":b})
pa,pb=root+"/a.f90",root+"/b.f90"
notif(s,"textDocument/didOpen",pa); notif(s,"textDocument/didOpen",pb)
def comp(s): 
    r=req(s,"textDocument/completion",pb,3,3)
    return [i["label"] for i in r[0][2]] if r[0][0]=="resp" and r[0][2] else r
print("before:", comp(s))
open(pa,"w").write(a2)
notif(s,"textDocument/didSave",pa)
print("after save a:", comp(s))
s2,c2 = make_server(root, {})
print("fresh:", comp(s2))
