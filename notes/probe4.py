from harness import *
import shutil, logging
logging.disable(logging.CRITICAL)
# C19
root="/tmp/scratch/ws2"; shutil.rmtree(root, ignore_errors=True)
s,c = make_server(root, {"a.f90":"program p\nend program p\n", ".fortlsrc":'{"nthreads": 2}'}, argv=["--pp_suffixes",".h",".F90","--pp_defs",'{"X":"1"}',"--hover_language","xx"])
print("C19 pp_suffixes", s.pp_suffixes, "pp_defs", s.pp_defs, "hover_language", s.hover_language, "nthreads", s.nthreads)
# wrong top-level type
root="/tmp/scratch/ws3"; shutil.rmtree(root, ignore_errors=True)
s,c = make_server(root, {"a.f90":"program p\nend program p\n", ".fortlsrc":'[1,2]'})
print("C19 list config:", [o[:4] for o in c.out])
root="/tmp/scratch/ws4"; shutil.rmtree(root, ignore_errors=True)
s,c = make_server(root, {"a.f90":"program p\nend program p\n", ".fortlsrc":'{"nthreads": '})
print("C19 bad json:", [o[:3] for o in c.out])
# C20
def try_ws(name, files, probes):
    root="/tmp/scratch/"+name; shutil.rmtree(root, ignore_errors=True)
    s,c = make_server(root, files)
    print(name, "init:", [o[:4] for o in c.out if o[0]!="resp"])
    for (f, meth, l, ch) in probes:
        p=root+"/"+f
        for o in notif(s,"textDocument/didOpen",p): 
            if o[0]=="err" or (o[0]=="notif" and o[1]=="window/showMessage"): print("  open->", o[:4])
        r = req(s, meth, p, l, ch, **({"newName":"zz"} if meth.endswith("rename") else {}))
        print("  ", meth, l, ch, "->", [ (o[0], str(o[2:])[:90]) for o in r])
try_ws("cyc1", {"a.f90": "module m\n type, extends(b) :: a\n contains\n procedure :: f => fa\n end type\n type, extends(a) :: b\n contains\n procedure :: f => fb\n end type\ncontains\n subroutine fa(x)\n class(a) :: x\n end subroutine\n subroutine fb(x)\n class(b) :: x\n end subroutine\nend module m\n"},
  [("a.f90","textDocument/references",3,14),("a.f90","textDocument/hover",3,14),("a.f90","textDocument/rename",3,14)])
try_ws("cyc2", {"a.f90": "submodule (s) s\ncontains\n subroutine q()\n integer :: zz\n zz = 1\n end subroutine\nend submodule s\n"},
  [("a.f90","textDocument/hover",4,2),("a.f90","textDocument/definition",4,2)])
try_ws("cyc3", {"a.f90": "program p\n integer, pointer :: q => q\n q = 1\nend program p\n"},
  [("a.f90","textDocument/hover",2,1),("a.f90","textDocument/completion",2,2)])
try_ws("cyc4", {"a.f90": "program p\n integer :: x\n associate(a => b, b => a)\n a = 1\n end associate\nend program p\n"},
  [("a.f90","textDocument/hover",3,1),("a.f90","textDocument/completion",3,2)])
