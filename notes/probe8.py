from harness import *
import shutil, logging
logging.disable(logging.CRITICAL)
root="/tmp/scratch/ws10"; shutil.rmtree(root, ignore_errors=True)
files={"d1/a.F90":'program pa\nend program pa\n', "d1/h.h":'#define HH 1\n', "d2/b.F90":'#include "h.h"\nprogram pb\n#ifdef HH\n integer :: only_if_hh\n#endif\nend program pb\n'}
s,c = make_server(root, files)
def syms(s,p): 
    r=req(s,"textDocument/hover",p,3,12); return r[0][2]
pb=root+"/d2/b.F90"; pa=root+"/d1/a.F90"
print("fresh include_dirs:", s.include_dirs, "hover:", syms(s,pb))
notif(s,"textDocument/didOpen",pa)
open(pa,"a").write("! x\n"); notif(s,"textDocument/didSave",pa)
open(pb,"a").write("! x\n"); notif(s,"textDocument/didSave",pb)
print("after saves include_dirs:", s.include_dirs, "hover:", syms(s,pb))
s2,c2 = make_server(root, {})
print("fresh2:", s2.include_dirs, syms(s2,pb))
