import sys, io, json, traceback
from fortls.parsers.internal.parser import FortranFile, preprocess_file
# C02
f = FortranFile("/tmp/scratch/x.f90")
f.set_contents(["program a","end program a"])
f.apply_change({"range":{"start":{"line":0,"character":9},"end":{"line":0,"character":9}},"text":"\n"})
print("C02 after newline insert:", f.contents_split)
f.set_contents(["program a","end program a"])
f.apply_change({"range":{"start":{"line":0,"character":9},"end":{"line":0,"character":9}},"text":"\nx"})
print("C02 after newline+x insert:", f.contents_split)
f.set_contents(["program a","end program a"])
f.apply_change({"text":"a\nb\n"})
print("C02 full:", f.contents_split)
# C17
import os
try:
    out = preprocess_file(["#define X __import__('os').getpid()", "#if X", "integer :: a","#endif"], "/tmp/scratch/x.F90", {}, set())
    print("C17 eval ok, skips:", out[1])
except Exception as e:
    print("C17 exc", e)
out = preprocess_file(["#define X print('PWNED')", "#if X", "integer :: a","#endif"], "/tmp/scratch/x.F90", {}, set())
# C03
for src in (["#define A 1 \\", "", "x"], ["#define A a\\b", "A"], ["procedure :: x"], ["procedure x"], ["module procedure x"]):
    f = FortranFile("/tmp/scratch/x.F90")
    f.set_contents(list(src))
    try:
        f.parse()
        print("C03 ok", src)
    except Exception as e:
        print("C03 EXC", src, type(e).__name__, e)
