from harness import *
import shutil, logging
logging.disable(logging.CRITICAL)
root="/tmp/scratch/ws13"; shutil.rmtree(root, ignore_errors=True)
src="""module m
  interface foo
    module procedure f1
  end interface foo
contains
  subroutine f1(a)
    integer :: a
  end subroutine f1
  subroutine t()
    integer, pointer :: p => foo
    associate (x => foo)
      call x(1)
    end associate
    p = 1
  end subroutine t
end module m
"""
s,c = make_server(root, {"a.f90":src})
p=root+"/a.f90"
notif(s,"textDocument/didOpen",p)
for (l,ch) in [(11,11),(13,4)]:
    for m in ["hover","definition","references","implementation","signatureHelp","completion"]:
        r=req(s,"textDocument/"+m,p,l,ch)
        print(l,ch,m,r[0][0], str(r[0][2:])[:100])
