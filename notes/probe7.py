from harness import *
import shutil, logging, time
logging.disable(logging.CRITICAL)
root="/tmp/scratch/ws8"; shutil.rmtree(root, ignore_errors=True)
files={"a.F90":'#include "x.h"\nprogram p\n integer :: q\nend program p\n', "x.h":'#include "y.h"\n#define XX 1\n', "y.h":'#include "x.h"\n#define YY 2\n'}
t=time.time()
s,c = make_server(root, files)
print("init", round(time.time()-t,2), [o[:4] for o in c.out if o[0]!="resp"])
t=time.time()
print(notif(s,"textDocument/didOpen",root+"/a.F90")); print("open",round(time.time()-t,2))
print(req(s,"textDocument/hover",root+"/a.F90",2,12)[0][:3])
# format injection
root="/tmp/scratch/ws9"; shutil.rmtree(root, ignore_errors=True)
src="module m\ncontains\n !> does {x} things\n subroutine s(a)\n  integer :: a !< the {0} arg\n end subroutine s\n subroutine t()\n  call s(1)\n end subroutine t\nend module m\n"
s,c = make_server(root, {"a.f90":src}, argv=["--use_signature_help"])
print("sig:", req(s,"textDocument/signatureHelp",root+"/a.f90",7,9)[0][:4])
print("hover:", req(s,"textDocument/hover",root+"/a.f90",7,8)[0][:4])
