from harness import *
import shutil, logging
logging.disable(logging.CRITICAL)
root="/tmp/scratch/ws12"; shutil.rmtree(root, ignore_errors=True)
src="module m\n type t\n  interface foo\n  end interface foo\n  type inner\n  end type inner\n end type t\nend module m\n"
s,c = make_server(root, {"a.f90":src})
p=root+"/a.f90"
print(req(s,"textDocument/implementation",p,2,13)[0][:4])
print(req(s,"textDocument/implementation",p,4,8)[0][:4])
print(req(s,"textDocument/hover",p,2,13)[0][:4])
