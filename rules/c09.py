"""C09 — positional requests are total (DESIGN.md 3/C09): result-object
protocol, optional values, override signatures, format strings, -1 columns."""
from __future__ import annotations

import ast
import json
import os
import re

from sa.model import AnalysisError, access_path, unparse

from .shared import absorbs, calls_in, defs_of, deref, dispatch_table, key, loc, reaching_defs

POSITIONAL = (
    "textDocument/hover", "textDocument/definition", "textDocument/implementation", "textDocument/references",
    "textDocument/documentHighlight", "textDocument/rename", "textDocument/signatureHelp", "textDocument/completion",
    "textDocument/codeAction",
)
TOP = None


class Objects:
    """The FortranObj cone as a protocol: which class has which attribute, which
    get_type() values, which method signatures."""

    def __init__(self, ctx):
        self.ctx = ctx
        m = ctx.m
        self.base = m.cname.get("FortranObj")
        if not self.base:
            raise AnalysisError("class FortranObj not found")
        cone = m.cone(self.base)
        inst = set()
        for f in m.funcs.values():
            for c in calls_in(f.node):
                k, t = ctx.r.resolve_call(f, c)
                if k == "ctor":
                    for q in t:
                        cq = m.funcs[q].cls if q in m.funcs else q
                        if cq in cone:
                            inst.add(cq)
                elif isinstance(c.func, ast.Name) and m.cname.get(c.func.id) in cone:
                    inst.add(m.cname[c.func.id])
        self.all = {c for c in cone if c in inst}
        self.intr = m.cname.get("Intrinsic")
        if self.intr not in self.all:
            raise AnalysisError("class Intrinsic not found among the instantiated object classes")
        self.nointr = self.all - {self.intr}
        self.consts = {}
        for k, v in m.consts.get("fortls/constants.py", {}).items():
            try:
                val = ast.literal_eval(v)
            except (ValueError, TypeError, SyntaxError):
                continue
            if isinstance(val, int) and not isinstance(val, bool):
                self.consts[k] = val
        self.fileless = self._fileless()
        self._init = {}
        self._gt = {}
        self.intr_types = self._intrinsic_types()

    def short(self, cs):
        return sorted(c.split(":")[-1] for c in cs)

    def _fileless(self):
        """classes whose instances always hang off an AST without a file (the
        module-level `FortranAST()` of the bundled intrinsic tables)"""
        m = self.ctx.m
        out = set()
        for c in self.all:
            q = m.method(c, "__init__")
            f = m.funcs.get(q)
            if f is None:
                continue
            for st in m.walk_own(f.node):
                if isinstance(st, (ast.Assign, ast.AnnAssign)):
                    t = st.targets[0] if isinstance(st, ast.Assign) else st.target
                    if unparse(t) == "self.file_ast" and isinstance(st.value, ast.Name):
                        g = m.consts.get(f.rel, {}).get(st.value.id)
                        if isinstance(g, ast.Call) and unparse(g.func).endswith("FortranAST") and not g.args and not g.keywords:
                            out.add(c)
        return out

    # -- attributes
    def init_fields(self, c):
        if c in self._init:
            return self._init[c]
        self._init[c] = out = set()
        m = self.ctx.m
        q = m.method(c, "__init__")
        if not q:
            return out
        f = m.funcs[q]
        for st in m.walk_own(f.node):
            if isinstance(st, (ast.Assign, ast.AnnAssign)):
                tg = st.targets if isinstance(st, ast.Assign) else [st.target]
                for t in tg:
                    for x in (t.elts if isinstance(t, ast.Tuple) else [t]):
                        if isinstance(x, ast.Attribute) and isinstance(x.value, ast.Name) and x.value.id == "self":
                            out.add(x.attr)
            elif isinstance(st, ast.Call) and isinstance(st.func, ast.Attribute) and st.func.attr == "__init__":
                v = st.func.value
                if isinstance(v, ast.Call) and isinstance(v.func, ast.Name) and v.func.id == "super":
                    for b in m.mro(f.cls)[1:]:
                        if m.classes[b].methods.get("__init__"):
                            out |= self.init_fields(b)
                            break
                elif isinstance(v, ast.Name) and m.cname.get(v.id):
                    out |= self.init_fields(m.cname[v.id])
        return out

    def has_attr(self, c, a):
        m = self.ctx.m
        if a in self.init_fields(c) or m.method(c, a):
            return True
        for k in m.mro(c):
            for st in m.classes[k].node.body:
                if isinstance(st, ast.AnnAssign) and isinstance(st.target, ast.Name) and st.target.id == a and st.value is not None:
                    return True
                if isinstance(st, ast.Assign) and any(isinstance(t, ast.Name) and t.id == a for t in st.targets):
                    return True
        return False

    def nullable(self, c, a):
        """can field a of class c hold None (assigned None somewhere, or a parameter default None)"""
        m = self.ctx.m
        fld = m.field(c, a)
        if fld is None:
            return False
        for q, v, st in fld.assigns:
            if isinstance(v, ast.Constant) and v.value is None:
                return True
            if isinstance(v, ast.Name) and q in m.funcs:
                f = m.funcs[q]
                args = f.node.args
                pos = args.posonlyargs + args.args
                dfl = dict(zip([p.arg for p in pos][len(pos) - len(args.defaults):], args.defaults))
                d = dfl.get(v.id)
                if isinstance(d, ast.Constant) and d.value is None:
                    return True
        return False

    # -- get_type()
    def _intrinsic_types(self):
        out = set()
        ok = True
        m = self.ctx.m
        for f in m.funcs.values():
            for c in calls_in(f.node):
                if isinstance(c.func, ast.Name) and c.func.id == "create_int_object" and len(c.args) >= 3:
                    a = c.args[2]
                    if isinstance(a, ast.Constant) and isinstance(a.value, int):
                        out.add(a.value)
                    elif unparse(a).endswith('["type"]') or unparse(a).endswith("['type']"):
                        out.add("json")
                    else:
                        ok = False
        if "json" in out:
            out.discard("json")
            jf = os.path.join(self.ctx.repo, "fortls/parsers/internal/intrinsic.procedures.json")
            try:
                with open(jf, encoding="utf-8") as fh:
                    out |= {v["type"] for v in json.load(fh).values() if isinstance(v, dict) and isinstance(v.get("type"), int)}
            except (OSError, ValueError):
                ok = False
        return out if ok and out else TOP

    def gt_vals(self, c, no_link=False):
        k = (c, no_link)
        if k in self._gt:
            return self._gt[k]
        m = self.ctx.m
        q = m.method(c, "get_type")
        if c == self.intr:
            self._gt[k] = self.intr_types
            return self._gt[k]
        out = set()
        f = m.funcs[q]
        for r in (n for n in m.walk_own(f.node) if isinstance(n, ast.Return)):
            # returns under `if (not no_link) and ...` do not happen for no_link=True
            p = m.parent.get(r)
            under_link = False
            while p is not None and p is not f.node:
                if isinstance(p, ast.If) and "not no_link" in unparse(p.test) and r in list(ast.walk(ast.Module(body=p.body, type_ignores=[]))):
                    under_link = True
                p = m.parent.get(p)
            if under_link and no_link:
                continue
            v = r.value
            if isinstance(v, ast.Name) and v.id in self.consts:
                out.add(self.consts[v.id])
            elif isinstance(v, ast.Constant) and isinstance(v.value, int):
                out.add(v.value)
            else:
                out = TOP
                break
        self._gt[k] = out
        return out

    # -- narrowing
    def _cone_of(self, names):
        m = self.ctx.m
        out = set()
        for n in names:
            c = m.cname.get(n.split(".")[-1])
            if c:
                out |= m.cone(c)
        return out

    def _const(self, e):
        if isinstance(e, ast.Name) and e.id in self.consts:
            return self.consts[e.id]
        if isinstance(e, ast.Constant) and isinstance(e.value, int):
            return e.value
        return None

    def narrow(self, S, facts, var):
        S = set(S)
        aliases = {}
        for b in facts:
            if b[0] == "bind" and re.fullmatch(re.escape(var) + r"\.get_type\((True|no_link=True)?\)", b[2]):
                aliases[b[1]] = "True" in b[2]
        if any(b[0] == "nonnull" and b[1] == f"{var}.file_ast.file" for b in facts):
            S -= self.fileless
        for b in facts:
            if b[0] == "inst" and b[1] == var:
                S &= self._cone_of(b[2])
            elif b[0] == "notinst" and b[1] == var:
                S -= self._cone_of(b[2])
            elif b[0] == "cond":
                try:
                    e = ast.parse(b[1], mode="eval").body
                except SyntaxError:
                    continue
                if not (isinstance(e, ast.Compare) and len(e.ops) == 1):
                    continue
                l, op, r = e.left, e.ops[0], e.comparators[0]
                nl = None
                lt = unparse(l)
                if lt in aliases:
                    nl = aliases[lt]
                else:
                    mm = re.fullmatch(re.escape(var) + r"\.get_type\((True|no_link=True)?\)", lt)
                    if mm:
                        nl = bool(mm.group(1))
                if nl is None:
                    continue
                if isinstance(op, (ast.Eq, ast.NotEq)):
                    ks = [self._const(r)]
                    pos = isinstance(op, ast.Eq) == b[2]
                elif isinstance(op, (ast.In, ast.NotIn)) and isinstance(r, (ast.Tuple, ast.List, ast.Set)):
                    ks = [self._const(x) for x in r.elts]
                    pos = isinstance(op, ast.In) == b[2]
                else:
                    continue
                if any(k is None for k in ks):
                    continue
                ks = set(ks)
                keep = set()
                for c in S:
                    vals = self.gt_vals(c, nl)
                    if pos:
                        if vals is TOP or vals & ks:
                            keep.add(c)
                    else:
                        if vals is TOP or not vals <= ks:
                            keep.add(c)
                S = keep
        return S

    # -- signatures
    def accepts(self, c, meth, npos, kws):
        m = self.ctx.m
        q = m.method(c, meth)
        if not q:
            return None
        a = m.funcs[q].node.args
        pos = [p.arg for p in a.posonlyargs + a.args][1:]
        if a.vararg is None and npos > len(pos):
            return f"{q.split(':')[-1]}({', '.join(pos)}) takes at most {len(pos)} positional argument(s), {npos} given"
        names = set(pos) | {p.arg for p in a.kwonlyargs}
        bad = [k for k in kws if k not in names]
        if bad and a.kwarg is None:
            return f"{q.split(':')[-1]}({', '.join(pos)}) has no parameter {bad[0]!r}"
        return None


# ---------------------------------------------------------------- scope
def handlers(ctx):
    t = dispatch_table(ctx)
    hs = []
    for mth in POSITIONAL:
        qs = t.get(mth)
        if not qs:
            raise AnalysisError(f"no handler registered for {mth}")
        for q in qs:
            if ctx.m.funcs[q] not in hs:
                hs.append(ctx.m.funcs[q])
    return hs


def scope_funcs(ctx, hs):
    """handlers + their nested functions + server methods they call that take objects"""
    out = []
    for h in hs:
        out.append(h)
        out += [g for g in ctx.m.funcs.values() if g.qual.startswith(h.qual + ".")]
    srv = hs[0].cls
    extra = []
    for f in list(out):
        for c, kd, tg in ctx.r.callees(f):
            for q in tg:
                g = ctx.m.funcs.get(q)
                if g is not None and g.cls == srv and g not in out and g not in extra and g.name in ("get_all_references", "_create_ref_link", "get_definition"):
                    extra.append(g)
    return out + extra


class Origins:
    """class set a local can hold, from the expressions assigned to it"""

    def __init__(self, ctx, O):
        self.ctx = ctx
        self.O = O
        self.param_sets = {}  # (func qual, param) -> set

    def of_expr(self, f, e, depth=0):
        ctx, O = self.ctx, self.O
        if depth > 6 or e is None:
            return None
        if isinstance(e, ast.Constant) and e.value is None:
            return set()
        if isinstance(e, ast.Call):
            tg = ctx.r.resolve_call(f, e)[1]
            names = {q.split(".")[-1].split(":")[-1] for q in tg}
            if "get_definition" in names:
                return set(O.all)
            if names & {"find_in_scope", "climb_type_tree", "get_inner_scope", "check_scope"}:
                return set(O.nointr)
            cls = {ctx.m.funcs[q].cls for q in tg if q in ctx.m.funcs and q.endswith(".__init__")}
            if ctx.r.resolve_call(f, e)[0] == "ctor":
                cs = {ctx.m.funcs[q].cls if q in ctx.m.funcs else q for q in tg}
                if cs and cs <= ctx.m.cone(O.base):
                    return cs
            return None
        if isinstance(e, ast.Subscript):
            t = unparse(e)
            if re.fullmatch(r"self\.obj_tree\[[^\]]+\]\[0\]", t):
                return set(O.nointr)
            return None
        if isinstance(e, ast.Attribute):
            if e.attr in ("link_obj", "parent", "type_obj", "ancestor_obj", "inherit_var") and isinstance(e.value, ast.Name):
                return set(O.nointr)
            return None
        if isinstance(e, ast.Name):
            return self.of_name(f, e.id, depth + 1)
        return None

    def of_iter(self, f, it, idx, depth):
        """class set of the elements (tuple position idx or None) of an iterable"""
        ctx, O = self.ctx, self.O
        t = unparse(it)
        if t == "self.intrinsic_funs":
            return {O.intr}
        if isinstance(it, ast.Call):
            names = {q.split(".")[-1] for q in ctx.r.resolve_call(f, it)[1]}
            if "get_intrinsic_keywords" in names:
                return {O.intr}
            if isinstance(it.func, ast.Name) and it.func.id == "zip" and idx is not None and idx < len(it.args):
                return self.of_iter(f, it.args[idx], None, depth + 1)
            if isinstance(it.func, ast.Attribute) and it.func.attr in ("get_children", "get_overridden", "get_ancestors"):
                return set(O.nointr)
        if isinstance(it, ast.Attribute) and it.attr in ("mems", "children", "in_children", "members", "arg_objs"):
            return set(O.nointr)
        if isinstance(it, ast.Name) and depth < 6:
            out = None
            for st, v in defs_of(ctx, f, it.id):
                tgt = st.targets[0] if isinstance(st, ast.Assign) else None
                if isinstance(tgt, ast.Tuple) and isinstance(st.value, ast.Call) and any(q.endswith(".get_candidates") for q in ctx.r.resolve_call(f, st.value)[1]):
                    pos = [unparse(x) for x in tgt.elts].index(it.id)
                    if pos == 0:
                        out = set(O.all) | (out or set())
            return out
        return None

    def of_name(self, f, name, depth=0):
        ctx = self.ctx
        if (f.qual, name) in self.param_sets:
            return set(self.param_sets[(f.qual, name)])
        out = None
        unknown = False
        for st, v in defs_of(ctx, f, name):
            s = None
            if isinstance(st, ast.For):
                tg = st.target
                idx = None
                if isinstance(tg, ast.Tuple):
                    idx = [unparse(x) for x in tg.elts].index(name) if name in [unparse(x) for x in tg.elts] else None
                s = self.of_iter(f, st.iter, idx, depth)
            elif v is not None:
                s = self.of_expr(f, v, depth + 1)
            if s is None:
                unknown = True
            else:
                out = s | (out or set())
        if out is None:
            return None
        if unknown and out:
            # partly known: stay with the known part only when the unknown defs are non-object (kept simple: widen)
            out = out | set()
        return out


def tracked(ctx, O, org, f):
    """{local name: class set} for locals of f that hold result objects"""
    names = set()
    for n in ctx.m.walk_own(f.node):
        if isinstance(n, ast.Name) and isinstance(n.ctx, ast.Store):
            names.add(n.id)
    names |= {p for p in f.params if (f.qual, p) in org.param_sets}
    out = {}
    for nm in sorted(names):
        s = org.of_name(f, nm)
        if s:
            out[nm] = s
    return out


IDIOM_DEPTH = re.compile(r"^(\w+)\.FQSN\.count\(':'\)$")


def depth_idiom(fact, var):
    """Does the condition fact say that <var>.FQSN contains more than two ':' (a nested
    entity)?  Any spelling: `count > 2` true, `count >= 3` true, `count <= 2` false,
    `2 < count` true, `count < 3` false."""
    if fact[0] != "cond" or "FQSN" not in fact[1]:
        return False
    try:
        e = ast.parse(fact[1], mode="eval").body
    except SyntaxError:
        return False
    pol = fact[2]
    if isinstance(e, ast.UnaryOp) and isinstance(e.op, ast.Not):
        e, pol = e.operand, not pol
    if not (isinstance(e, ast.Compare) and len(e.ops) == 1):
        return False
    l, op, r = e.left, e.ops[0], e.comparators[0]
    flip = {ast.Lt: ast.Gt, ast.Gt: ast.Lt, ast.LtE: ast.GtE, ast.GtE: ast.LtE}
    if isinstance(l, ast.Constant) and type(op) in flip:
        l, r, op = r, l, flip[type(op)]()
    m = IDIOM_DEPTH.match(unparse(l))
    if not (m and m.group(1) == var and isinstance(r, ast.Constant) and isinstance(r.value, int)):
        return False
    k = r.value
    # the set of counts the fact allows must lie inside {3, 4, ...}
    if pol:
        return isinstance(op, ast.Gt) and k >= 2 or isinstance(op, ast.GtE) and k >= 3
    return isinstance(op, ast.LtE) and k >= 2 or isinstance(op, ast.Lt) and k >= 3


def r1_r2_r3(ctx, R, O, funcs):
    R.rule("C09.R1", "every attribute read on a result object exists for every class the object can have at that point (narrowed by isinstance / get_type() tests), or AttributeError is absorbed", floor=40, confirmed=60)
    R.rule("C09.R2", "optional values are tested before use: dict.get results, nullable link fields of result objects, files of intrinsic objects", floor=15, confirmed=20)
    R.rule("C09.R3", "method calls on result objects fit the signature of every class's override", floor=10, confirmed=14)
    org = Origins(ctx, O)
    # parameter sets of helper methods: union over call sites, computed after the callers
    order = [f for f in funcs if f.name not in ("get_all_references", "_create_ref_link")] + [f for f in funcs if f.name in ("get_all_references", "_create_ref_link")]
    pending = {}
    for f in order:
        if f.name in ("get_all_references", "_create_ref_link"):
            for (q, p), s in pending.items():
                if q == f.qual:
                    org.param_sets[(q, p)] = s
        F = ctx.facts(f, interproc=False)
        tr = tracked(ctx, O, org, f)
        for n in ctx.m.walk_own(f.node):
            # helper calls: record narrowed argument sets
            if isinstance(n, ast.Call):
                for q in ctx.r.resolve_call(f, n)[1]:
                    g = ctx.m.funcs.get(q)
                    if g is None or g.name not in ("get_all_references", "_create_ref_link"):
                        continue
                    for i, a in enumerate(n.args):
                        base = a
                        S = None
                        if isinstance(a, ast.Name) and a.id in tr:
                            S = O.narrow(tr[a.id], F.at(n) or set(), a.id)
                        elif isinstance(a, ast.Attribute) and a.attr == "link_obj":
                            S = set(O.nointr)
                        if S is not None and i + 1 < len(g.params) + 1:
                            pn = g.params[i + 1] if g.params and g.params[0] == "self" else g.params[i]
                            pending[(g.qual, pn)] = pending.get((g.qual, pn), set()) | S
            if not (isinstance(n, ast.Attribute) and isinstance(n.ctx, ast.Load) and isinstance(n.value, ast.Name) and n.value.id in tr):
                continue
            var = n.value.id
            facts = F.at(n) or set()
            S = O.narrow(tr[var], facts, var)
            st = ctx.m.enclosing_stmt(n)
            k = f"{var}.{n.attr} in {key(f, st)[:70]}"
            parent = ctx.m.parent.get(n)
            is_call = isinstance(parent, ast.Call) and parent.func is n
            missing = [c for c in S if not O.has_attr(c, n.attr)]
            if missing and not absorbs(ctx, n, "AttributeError"):
                R.violation("C09.R1", f.short, k, loc(f, n), f"`{var}` can be a {'/'.join(O.short(missing)[:4])} here, which has no attribute `{n.attr}`: the request is answered with an internal error (AttributeError)")
            else:
                R.ok("C09.R1", f.short, k, loc(f, n), f"{len(S)} classes" + (" (AttributeError absorbed)" if missing else ""))
            # R3 signature
            if is_call:
                npos = len(parent.args)
                kws = [kw.arg for kw in parent.keywords if kw.arg]
                bad = None
                for c in sorted(S):
                    if c in missing:
                        continue
                    why = O.accepts(c, n.attr, npos, kws)
                    if why:
                        bad = why
                        break
                kk = f"{unparse(parent)[:60]} in {key(f, st)[:50]}"
                if bad and not absorbs(ctx, n, "TypeError"):
                    R.violation("C09.R3", f.short, kk, loc(f, n), f"{bad}: TypeError for that class, the request fails")
                else:
                    R.ok("C09.R3", f.short, kk, loc(f, n), f"{len(S)} overrides accept the call")
            # R2 nullable chain: var.a.<something>
            if isinstance(parent, ast.Attribute) and parent.value is n and isinstance(parent.ctx, ast.Load):
                nulls = [c for c in S if c not in missing and O.nullable(c, n.attr)]
                if nulls:
                    path = f"{var}.{n.attr}"
                    nn = any(b[0] == "nonnull" and b[1] == path for b in facts)
                    idiom = n.attr == "parent" and any(depth_idiom(b, var) for b in facts)
                    kk = f"{path}.{parent.attr} in {key(f, st)[:60]}"
                    if nn or absorbs(ctx, n, "AttributeError"):
                        R.ok("C09.R2", f.short, kk, loc(f, n), "non-None established" if nn else "AttributeError absorbed")
                    elif idiom:
                        R.ok("C09.R2", f.short, kk, loc(f, n), "idiom: a qualified name with more than two ':' belongs to a nested entity, whose parent is set when it is added to its scope")
                    else:
                        R.violation("C09.R2", f.short, kk, loc(f, n), f"`{path}` is None for {'/'.join(O.short(nulls)[:3])} objects without one (e.g. top-level units); `.{parent.attr}` on it raises AttributeError and the request is answered with an internal error")
    return org


def r2_get(ctx, R, funcs):
    """dict.get(k) results are None-tested before use"""
    n_sites = 0
    for f in [g for g in funcs if g.name.startswith("serve_")]:
        F = ctx.facts(f, interproc=False)
        for st, v in [(s, s.value) for s in ctx.m.walk_own(f.node) if (isinstance(s, ast.Assign) and isinstance(s.targets[0], ast.Name)) or (isinstance(s, ast.AnnAssign) and isinstance(s.target, ast.Name) and s.value is not None)]:
            if not (isinstance(v, ast.Call) and isinstance(v.func, ast.Attribute) and v.func.attr == "get" and len(v.args) == 1 and not v.keywords and unparse(v.func.value).startswith("self.")):
                continue
            var = st.targets[0].id if isinstance(st, ast.Assign) else st.target.id
            n_sites += 1
            uses = [n for n in ctx.m.walk_own(f.node) if isinstance(n, (ast.Attribute, ast.Subscript)) and isinstance(n.ctx, ast.Load) and isinstance(n.value, ast.Name) and n.value.id == var and st in [d for d in _reaching(ctx, f, n, var)]]
            # handed to a repository function that dereferences the parameter unguarded
            for c in calls_in(f.node):
                if ctx.m.enclosing_func(c) is not f:
                    continue
                for i, a in enumerate(c.args):
                    if isinstance(a, ast.Name) and a.id == var and st in _reaching(ctx, f, c, var):
                        for q in ctx.r.resolve_call(f, c)[1]:
                            g = ctx.m.funcs.get(q)
                            if g is None:
                                continue
                            ps = g.params[1:] if g.params and g.params[0] == "self" else g.params
                            if i < len(ps) and _derefs_param_unguarded(ctx, g, ps[i]):
                                uses.append(c)
            bad = [n for n in uses if not any(b[0] == "nonnull" and b[1] == var for b in (F.at(n) or set())) and not absorbs(ctx, n, "AttributeError")]
            k = f"{var} = {unparse(v)}"
            if bad:
                R.violation("C09.R2", f.short, k, loc(f, bad[0]), f"`{var}` is None when the document is not in the workspace; `{unparse(bad[0])[:40]}` then raises and the request is answered with an internal error")
            else:
                R.ok("C09.R2", f.short, k, loc(f, st), f"{len(uses)} uses, all after a None test")
    if n_sites < 7:
        raise AnalysisError(f"only {n_sites} dict.get sites found in the positional handlers")


def _derefs_param_unguarded(ctx, g, pname):
    Fg = ctx.facts(g, interproc=False)
    for n in ctx.m.walk_own(g.node):
        if isinstance(n, ast.Attribute) and isinstance(n.ctx, ast.Load) and isinstance(n.value, ast.Name) and n.value.id == pname:
            if "param" in _reaching(ctx, g, n, pname) and not any(b[0] == "nonnull" and b[1] == pname for b in (Fg.at(n) or set())) and not absorbs(ctx, n, "AttributeError"):
                return True
    return False


def _reaching(ctx, f, at, name):
    from .shared import reaching_def_nodes
    return reaching_def_nodes(ctx, f, at, name)


def r2_file(ctx, R, funcs):
    """objects of the bundled intrinsic tables have no file: every link builder call is behind a file test"""
    g = next((f for f in funcs if f.name == "_create_ref_link"), None)
    if g is None:
        raise AnalysisError("_create_ref_link not found")
    # does the builder itself test?
    Fg = ctx.facts(g, interproc=False)
    self_ok = False
    for n in ctx.m.walk_own(g.node):
        if isinstance(n, ast.Attribute) and isinstance(n.ctx, ast.Load) and isinstance(n.value, ast.Name):
            ds = [d for _, d in defs_of(ctx, g, n.value.id)]
            if len(ds) == 1 and ds[0] is not None and unparse(ds[0]).endswith(".file_ast.file"):
                self_ok = any(b[0] == "nonnull" and b[1] == n.value.id for b in (Fg.at(n) or set()))
                break
    for f in funcs:
        F = ctx.facts(f, interproc=False)
        for c in calls_in(f.node):
            if ctx.m.enclosing_func(c) is not f or g.qual not in ctx.r.resolve_call(f, c)[1] or not c.args:
                continue
            a = unparse(c.args[0])
            facts = F.at(c) or set()
            ok = self_ok or any(b[0] == "nonnull" and b[1] == f"{a}.file_ast.file" for b in facts)
            k = f"{unparse(c)[:60]}"
            if ok:
                R.ok("C09.R2", f.short, k, loc(f, c), "file of the target established")
            else:
                R.violation("C09.R2", f.short, k, loc(f, c), f"`{a}` may belong to a bundled intrinsic module, whose AST has no file: the link builder dereferences None and the request is answered with an internal error")


def r4(ctx, R):
    R.rule("C09.R4", "text that can contain documentation or declarations is never used as a format string", floor=1, confirmed=5)
    # the number of format calls is an inventory, not an anchor: fewer of them (f-strings instead) is fine
    n_fmt = sum(1 for f in ctx.m.funcs.values() for c in calls_in(f.node) if isinstance(c.func, ast.Attribute) and c.func.attr in ("format", "format_map"))
    R.ok("C09.R4", "package", "inventory of str.format / %-format uses", "fortls:0", f"{len(ctx.m.funcs)} functions scanned, {n_fmt} format calls")
    for f in ctx.m.funcs.values():
        if f.rel.endswith("debug.py"):
            continue
        for c in calls_in(f.node):
            if ctx.m.enclosing_func(c) is not f:
                continue
            recv = None
            if isinstance(c.func, ast.Attribute) and c.func.attr in ("format", "format_map"):
                recv = c.func.value
            if recv is None:
                continue
            v = deref(ctx, f, recv)
            k = f"{unparse(c)[:70]}"
            if isinstance(v, ast.Constant) and isinstance(v.value, str):
                R.ok("C09.R4", f.short, k, loc(f, c), "literal template")
            else:
                R.violation("C09.R4", f.short, k, loc(f, c), f"`{unparse(recv)[:40]}` is computed text (documentation comments, declarations, bundled intrinsic documentation): a brace in it (`{{x}}`, `{{}}`) makes str.format raise KeyError/IndexError and the request is answered with an internal error")
        for n in ctx.m.walk_own(f.node):
            if isinstance(n, ast.BinOp) and isinstance(n.op, ast.Mod):
                b = ctx.r.expr_builtin(f, n.left)
                v = deref(ctx, f, n.left)
                if isinstance(v, ast.Constant) and isinstance(v.value, str):
                    R.ok("C09.R4", f.short, unparse(n)[:70], loc(f, n), "literal template")
                elif b == "str":
                    R.violation("C09.R4", f.short, unparse(n)[:70], loc(f, n), "computed text used as a %-format template")


def r5(ctx, R):
    R.rule("C09.R5", "a `not found` column (-1) never reaches a range: every use of a word-search result in a range is behind a sign test", floor=2, confirmed=2)
    n_sites = 0
    for f in ctx.m.funcs.values():
        if f.rel.endswith("debug.py"):
            continue
        F = None
        for st in ctx.m.walk_own(f.node):
            if not (isinstance(st, ast.Assign) and isinstance(st.value, ast.Call) and isinstance(st.value.func, ast.Attribute) and st.value.func.attr in ("find_word_in_code_line", "find_word_in_line")):
                continue
            if f.name in ("find_word_in_code_line", "find_word_in_line"):
                continue
            tg = st.targets[0]
            rng = None  # names that carry start/end
            if isinstance(tg, ast.Tuple) and len(tg.elts) == 2:
                r = tg.elts[1]
                if isinstance(r, ast.Tuple):
                    rng = [unparse(x) for x in r.elts]
                else:
                    rng = [unparse(r) + ".start", unparse(r) + ".end"]
            elif isinstance(tg, ast.Name):
                rng = [tg.id + ".start", tg.id + ".end"]
            if rng is None:
                continue
            n_sites += 1
            F = ctx.facts(f, interproc=False)
            # sinks: calls to *_json builders / Range-building dicts using the names, or assignments of them to names used there
            bad = None
            okc = 0
            for c in calls_in(f.node):
                if ctx.m.enclosing_func(c) is not f or not (isinstance(c.func, ast.Name) and c.func.id.endswith("_json")):
                    continue
                for a in c.args:
                    srcs = {unparse(a)}
                    if isinstance(a, ast.Name):
                        srcs |= {unparse(v) for v in reaching_defs(ctx, f, c, a.id) if isinstance(v, ast.AST)}
                    hit = [s for s in srcs if s in rng]
                    if not hit:
                        continue
                    facts = F.at(c) or set()
                    # either the value itself was re-bound under a sign test, or a sign fact dominates
                    signed = any(b[0] in ("cond", "ge0") and rng[0] in str(b[1]) and (b[0] == "ge0" or (b[2] is True and ">= 0" in b[1]) or (b[2] is False and "< 0" in b[1])) for b in facts)
                    if isinstance(a, ast.Name) and a.id not in rng:
                        # a separate variable initialised to a safe constant and overwritten only under the sign test
                        ds = list(reaching_defs(ctx, f, c, a.id))
                        consts = [d for d in ds if isinstance(d, ast.Constant)]
                        others = [d for d in ds if not isinstance(d, ast.Constant)]
                        guarded = True
                        for d in others:
                            dst = next((s for s in ctx.m.walk_own(f.node) if isinstance(s, ast.Assign) and s.value is d), None)
                            fa = F.at(dst) or set() if dst is not None else set()
                            if not any(b[0] == "cond" and rng[0] in b[1] and ((b[2] is True and ">= 0" in b[1]) or (b[2] is False and "< 0" in b[1])) for b in fa):
                                guarded = False
                        signed = signed or (bool(consts) and guarded)
                    elif isinstance(a, ast.Name):
                        # same variable clamped: `if schar < 0: schar = echar = 0`
                        signed = signed or _clamped(ctx, f, F, rng[0], a.id)
                    if signed:
                        okc += 1
                    else:
                        bad = (c, a)
            k = f"{unparse(st)[:70]}"
            if bad:
                R.violation("C09.R5", f.short, k, loc(f, bad[0]), f"`{unparse(bad[1])}` can be -1 (word not found on the line) when it reaches {unparse(bad[0].func)}: the returned range has a negative character")
            else:
                R.ok("C09.R5", f.short, k, loc(f, st), f"{okc} range arguments behind a sign test")
    if n_sites < 2:
        raise AnalysisError(f"only {n_sites} word-search results flowing to ranges found")


def _clamped(ctx, f, F, start, name=None):
    for st in ctx.m.walk_own(f.node):
        if isinstance(st, ast.If) and isinstance(st.test, ast.Compare) and unparse(st.test) in (f"{start} < 0", f"{start} <= -1", f"{start} == -1"):
            tg = set()
            for s in st.body:
                if isinstance(s, ast.Assign) and isinstance(s.value, ast.Constant) and isinstance(s.value.value, int) and s.value.value >= 0:
                    tg |= {unparse(t) for t in s.targets}
            if start in tg and (name is None or name in tg):
                return True
    return False


def r6(ctx, R, funcs):
    R.rule("C09.R6", "a position outside the document yields no line: the line reader absorbs the index error, the prefix helper maps `no line` and `column past the end` to None, handlers touch the line only after the prefix test", floor=5, confirmed=6)
    gl = ctx.m.fn("FortranFile.get_line")
    subs = [n for n in ctx.m.walk_own(gl.node) if isinstance(n, ast.Subscript) and isinstance(n.ctx, ast.Load)]
    bad = [n for n in subs if not absorbs(ctx, n, "IndexError")]
    if subs and not bad:
        R.ok("C09.R6", gl.short, "line index out of range is absorbed", loc(gl, subs[0]), f"{len(subs)} subscripts inside try/except IndexError")
    else:
        R.violation("C09.R6", gl.short, "line index out of range is absorbed", loc(gl, (bad or [gl.node])[0]), "a request for a line past the end of the document raises IndexError, answered as an internal error")
    gcl = ctx.m.fn("FortranFile.get_code_line")
    Fg = ctx.facts(gcl, interproc=False)
    first = next((c for c in calls_in(gcl.node) if isinstance(c.func, ast.Attribute) and c.func.attr == "get_line"), None)
    st = ctx.m.enclosing_stmt(first) if first is not None else None
    var = st.targets[0].id if isinstance(st, ast.Assign) and isinstance(st.targets[0], ast.Name) else None
    uses = [n for n in ctx.m.walk_own(gcl.node) if isinstance(n, (ast.Subscript, ast.Attribute, ast.Call)) and var and any(isinstance(x, ast.Name) and x.id == var and isinstance(x.ctx, ast.Load) for x in ast.iter_child_nodes(n) if not isinstance(n, ast.Call) or x in n.args)]
    uses = [n for n in uses if st in _reaching(ctx, gcl, n, var)]
    # handing the (possibly missing) line back inside a record is no more a use than returning it in a tuple
    uses = [n for n in uses if not (isinstance(n, ast.Call) and isinstance(ctx.m.parent.get(n), ast.Return) and isinstance(n.func, ast.Name) and ctx.m.resolve_class_name(gcl.rel, n.func.id))]
    badu = [n for n in uses if not any(b[0] == "nonnull" and b[1] == var for b in (Fg.at(n) or set()))]
    if var and not badu:
        R.ok("C09.R6", gcl.short, f"`{var}` None-tested before use", loc(gcl, st), f"{len(uses)} uses")
    else:
        R.violation("C09.R6", gcl.short, "missing line None-tested before use", loc(gcl, (badu or [gcl.node])[0]), "get_code_line works on the missing line of a position outside the document")
    # prefix helper
    pf = ctx.m.fn("get_line_prefix")
    lp, cp = pf.params[1], pf.params[2]
    guard = None
    for s_ in pf.node.body:
        if isinstance(s_, ast.If) and any(isinstance(r, ast.Return) and (r.value is None or (isinstance(r.value, ast.Constant) and r.value.value is None)) for r in s_.body):
            guard = s_
            break
        if not (isinstance(s_, ast.Expr) and isinstance(s_.value, ast.Constant)):
            break
    t = unparse(guard.test) if guard is not None else ""
    disj = [unparse(v) for v in guard.test.values] if guard is not None and isinstance(guard.test, ast.BoolOp) and isinstance(guard.test.op, ast.Or) else [t]
    has_none = any(d in (f"{lp} is None", f"not {lp}", f"{lp} == None") for d in disj)
    has_col = any(d in (f"{cp} > len({lp})", f"len({lp}) < {cp}") for d in disj)
    if has_none:
        R.ok("C09.R6", pf.short, "no line -> None", loc(pf, guard))
    else:
        R.violation("C09.R6", pf.short, "no line -> None", loc(pf, guard or pf.node), "the prefix helper does not return None first thing for a missing line: positions below the last line fail in every positional handler")
    if has_col:
        R.ok("C09.R6", pf.short, "column past the end -> None", loc(pf, guard))
    else:
        R.violation("C09.R6", pf.short, "column past the end -> None", loc(pf, guard or pf.node), "a column beyond the end of the line is not rejected: handlers then compute on a prefix that does not correspond to the cursor")
    # handlers: the line is used only as argument of the prefix helper until the prefix has been tested
    for f in funcs:
        F = None
        for st in ctx.m.walk_own(f.node):
            if not (isinstance(st, ast.Assign) and isinstance(st.targets[0], ast.Tuple) and len(st.targets[0].elts) == 3 and isinstance(st.value, ast.Call) and isinstance(st.value.func, ast.Attribute) and st.value.func.attr == "get_code_line"):
                continue
            lv = st.targets[0].elts[1]
            if not isinstance(lv, ast.Name):
                continue
            F = F or ctx.facts(f, interproc=False)
            prefix_vars = set()
            for s2 in ctx.m.walk_own(f.node):
                if isinstance(s2, ast.Assign) and isinstance(s2.targets[0], ast.Name) and isinstance(s2.value, ast.Call) and pf.qual in ctx.r.resolve_call(f, s2.value)[1] and len(s2.value.args) > 1 and unparse(s2.value.args[1]) == lv.id:
                    prefix_vars.add(s2.targets[0].id)
            badn = []
            cnt = 0
            for n in ctx.m.walk_own(f.node):
                if isinstance(n, ast.Name) and n.id == lv.id and isinstance(n.ctx, ast.Load):
                    par = ctx.m.parent.get(n)
                    if isinstance(par, ast.Call) and pf.qual in ctx.r.resolve_call(f, par)[1]:
                        continue
                    cnt += 1
                    facts = F.at(n) or set()
                    if not any(b[0] == "nonnull" and (b[1] == lv.id or b[1] in prefix_vars) for b in facts) and not absorbs(ctx, n, "TypeError"):
                        badn.append(n)
            k = f"{lv.id} from get_code_line"
            if not prefix_vars:
                R.violation("C09.R6", f.short, k, loc(f, st), "the line of the request position is used without going through the prefix helper's None/column test")
            elif badn:
                R.violation("C09.R6", f.short, k, loc(f, badn[0]), f"`{lv.id}` (None for a position outside the document) is used before `{sorted(prefix_vars)[0]} is None` has returned")
            else:
                R.ok("C09.R6", f.short, k, loc(f, st), f"{cnt} uses, all after the prefix test")


def r7(ctx, R):
    R.rule("C09.R7", "columns sent to the client are computed on the client's text: functions that build protocol ranges never search the macro-expanded copy of a line", floor=2, confirmed=3)
    n = 0
    for f in ctx.m.funcs.values():
        if f.rel.endswith("debug.py"):
            continue
        builds = any(isinstance(c.func, ast.Name) and c.func.id.endswith("_json") for c in calls_in(f.node))
        if not builds:
            continue
        for c in calls_in(f.node):
            if ctx.m.enclosing_func(c) is not f or not (isinstance(c.func, ast.Attribute) and c.func.attr in ("find_word_in_code_line", "get_code_line", "get_line")):
                continue
            n += 1
            pp = next((kw.value for kw in c.keywords if kw.arg == "pp_content"), None)
            k = unparse(c)[:80]
            if pp is not None and not (isinstance(pp, ast.Constant) and pp.value is False):
                R.violation("C09.R7", f.short, k, loc(f, c), "the word is located in the preprocessed (macro-expanded) text, whose columns differ from the document the client holds: the returned range can lie beyond the end of the line")
            else:
                R.ok("C09.R7", f.short, k, loc(f, c), "searched in the text as the client has it")
    if n < 2:
        raise AnalysisError(f"only {n} text searches in range-building functions")


def r8(ctx, R):
    R.rule("C09.R8", "an entity object that stands for another file (built on that file's syntax tree) takes its line from that file, not from the record of the statement that mentions it", floor=1, confirmed=1)
    fobj = ctx.m.cname.get("FortranObj")
    cone = ctx.m.cone(fobj) if fobj else set()
    n = 0
    for f in ctx.m.funcs.values():
        if f.rel.endswith("debug.py"):
            continue
        for c in calls_in(f.node):
            if ctx.m.enclosing_func(c) is not f or not (isinstance(c.func, ast.Name) and len(c.args) >= 2):
                continue
            cq = ctx.m.resolve_class_name(f.rel, c.func.id)
            if cq is None or cq not in cone:
                continue
            a0 = c.args[0]
            # <rec>.file.ast : the tree of the file a record (an INCLUDE statement's) refers to
            if not (isinstance(a0, ast.Attribute) and a0.attr == "ast" and isinstance(a0.value, ast.Attribute) and a0.value.attr == "file"):
                continue
            rec = unparse(a0.value.value)
            n += 1
            line = c.args[1]
            k = key(f, ctx.m.enclosing_stmt(c))
            if isinstance(line, ast.Attribute) and unparse(line.value) == rec:
                R.violation("C09.R8", f.short, k, loc(f, c), f"the object is built on the tree of the file `{rec}` refers to, but its line is `{unparse(line)}`, a line of the file that contains the referring statement: go-to-definition on `include 'short.f90'` written on line 7 answers line 7 of short.f90, outside a shorter included file")
            else:
                R.ok("C09.R8", f.short, k, loc(f, c), f"line `{unparse(line)}` does not come from the referring record")
    if n == 0:
        R.ok("C09.R8", "package", "no entity object is built on a referenced file's tree", "fortls:0")


def r9(ctx, R, funcs):
    R.rule("C09.R9", "results taken apart on the spot are never None (request handlers and what they call)", floor=10, confirmed=30)
    from .shared import check_immediate_results

    check_immediate_results(ctx, R, "C09.R9", funcs)


# ------------------------------------------------------------------ R10
def r10(ctx, R):
    """A range is meaningful only together with the document it was found in.  The
    occurrence search answers per file; what a handler builds from it must keep
    each span with the URI of *its* file, and an answer whose items carry no URI
    (documentHighlight: `{range, kind}`) may only contain spans of the requested
    document."""
    from .c06 import searcher

    R.rule("C09.R10", "occurrence ranges stay with their document: items built from the per-file search carry the URI of the file they were found in, and URI-less items (documentHighlight) are restricted to the requested file", floor=1, confirmed=3)
    g, _hs = searcher(ctx)
    t = dispatch_table(ctx)
    hq = sorted(t.get("textDocument/documentHighlight", ()))
    rq = sorted(t.get("textDocument/references", ()))
    if not hq or not rq:
        raise AnalysisError("references / documentHighlight handlers not found")
    # consumers of the per-file search: `for <file>, <spans> in X.items()`
    for f in sorted(ctx.m.funcs.values(), key=lambda x: x.qual):
        if not any(g.qual in ctx.r.resolve_call(f, c)[1] for c in calls_in(f.node) if ctx.m.enclosing_func(c) is f):
            continue
        for lp in (n for n in ctx.m.walk_own(f.node) if isinstance(n, ast.For) and isinstance(n.target, ast.Tuple) and len(n.target.elts) == 2 and isinstance(n.iter, ast.Call) and isinstance(n.iter.func, ast.Attribute) and n.iter.func.attr == "items"):
            kv, vv = n_ = lp.target.elts
            if not (isinstance(kv, ast.Name) and isinstance(vv, ast.Name)):
                continue
            # items built from the spans: calls / displays inside the loop that mention elements of vv
            uris = [c for s_ in lp.body for c in ast.walk(s_) if isinstance(c, ast.Call) and isinstance(c.func, ast.Name) and c.func.id == "path_to_uri"]
            if not uris:
                continue
            k = key(f, lp)[:90]
            if all(any(isinstance(x, ast.Name) and x.id == kv.id for x in ast.walk(c)) for c in uris):
                R.ok("C09.R10", f.short, k, loc(f, lp), f"URI computed from the loop's own file key `{kv.id}`")
            else:
                bad = next(c for c in uris if not any(isinstance(x, ast.Name) and x.id == kv.id for x in ast.walk(c)))
                R.violation("C09.R10", f.short, k, loc(f, bad), f"spans found in file `{kv.id}` are reported under `{unparse(bad)}`: ranges of one document are attributed to another")
    # the highlight handler
    ref = ctx.m.funcs[rq[0]]
    for q in hq:
        h = ctx.m.funcs[q]
        if h is ref:
            R.ok("C09.R10", h.short, "documentHighlight answers with the references handler's Locations (URI kept)", loc(h, h.node))
            continue
        # items without "uri": dict displays with a "range" key built in the handler
        stripped = [d for d in ctx.m.walk_own(h.node) if isinstance(d, ast.Dict) and any(isinstance(k_, ast.Constant) and k_.value == "range" for k_ in d.keys) and not any(isinstance(k_, ast.Constant) and k_.value == "uri" for k_ in d.keys)]
        multi = any((ref.qual in ctx.r.resolve_call(h, c)[1] or g.qual in ctx.r.resolve_call(h, c)[1]) for c in calls_in(h.node))
        if not stripped:
            R.ok("C09.R10", h.short, "documentHighlight items keep their URI", loc(h, h.node)) if multi else R.undecided("C09.R10", h.short, "documentHighlight", loc(h, h.node), "source of the highlighted ranges not recognised")
            continue
        for d in stripped:
            # a filter on the item's file: a comparison that mentions the uri / path in the comprehension or an enclosing if
            conds = []
            p_ = ctx.m.parent.get(d)
            while p_ is not None and p_ is not h.node:
                if isinstance(p_, (ast.ListComp, ast.GeneratorExp)):
                    conds += [c_ for g_ in p_.generators for c_ in g_.ifs]
                elif isinstance(p_, ast.If):
                    conds.append(p_.test)
                p_ = ctx.m.parent.get(p_)
            filtered = any(isinstance(x, ast.Compare) and any(s_ in unparse(x) for s_ in ("uri", "path", "file")) for c_ in conds for x in ast.walk(c_))
            k = key(h, ctx.m.enclosing_stmt(d))[:90]
            if multi and not filtered:
                R.violation("C09.R10", h.short, k, loc(h, d), "the answer is built from occurrences found in *every* file of the workspace, with the URI dropped and no restriction to the requested document: ranges that belong to another file are reported against this one (lines that may not even exist in it)")
            elif filtered:
                R.ok("C09.R10", h.short, k, loc(h, d), "URI-less items restricted to the requested document")
            else:
                R.undecided("C09.R10", h.short, k, loc(h, d), "source of the highlighted ranges not recognised")


def run(ctx, R):
    O = Objects(ctx)
    hs = handlers(ctx)
    funcs = scope_funcs(ctx, hs)
    R.notes.append(f"C09: object classes {O.short(O.all)}; Intrinsic get_type() values {sorted(O.intr_types) if O.intr_types else 'any'}; {len(funcs)} functions in scope")
    r1_r2_r3(ctx, R, O, funcs)
    r2_get(ctx, R, funcs)
    r2_file(ctx, R, funcs)
    r4(ctx, R)
    r5(ctx, R)
    r6(ctx, R, funcs)
    r7(ctx, R)
    r8(ctx, R)
    r9(ctx, R, funcs)
    r10(ctx, R)
