"""C14 — fixed-form sources are recognised and understood like their free-form
twin (DESIGN.md 3/C14): lexical tables, both arms of every form decision."""
from __future__ import annotations

import ast

from sa import rex
from sa.model import AnalysisError, access_path, unparse

from .shared import calls_in, key, loc

C = rex.C


def _first_class(tree):
    """char set (ignorecase applied by caller) of the first consuming atom when the
    pattern starts with exactly one single-character atom, else None"""
    seq = rex.items(tree)
    while len(seq) == 1 and seq[0][0] is C.SUBPATTERN:
        seq = rex.items(seq[0][1][3])
    if not seq:
        return None, seq
    op, av = seq[0]
    if op is C.SUBPATTERN:
        inner = rex.items(av[3])
        if len(inner) == 1:
            return rex.atom_chars(*inner[0]), seq
        return None, seq
    return rex.atom_chars(op, av), seq


def r1(ctx, R):
    R.rule("C14.R1", "fixed-form lexical tables: comment flags {! c C d D *} in column 1, continuation = 5 blanks + non-blank in column 6, numeric labels", floor=5, confirmed=7)
    named = ctx.p.named
    uses = {}
    for f, call, method, name in ctx.p.use_sites():
        uses.setdefault(name, set()).add(method)

    def need(name):
        if name not in named:
            raise AnalysisError(f"pattern {name} not found")
        return named[name]

    want = set("!cCdD*")
    for nm in ("FIXED_COMMENT", "FIXED_DOC"):
        rx_ = need(nm)
        cs, seq = _first_class(rx_.tree)
        if cs is not None and rx_.ignorecase:
            cs = frozenset({c.lower() for c in cs} | {c.upper() for c in cs})
        k = f"{nm} comment flag class"
        if cs is None:
            R.violation("C14.R1", "FRegex", k, loc(rx_.rel, rx_.node), f"{nm} = {rx_.text!r} does not start with the comment flag character: the flag is accepted in other columns than column 1")
        elif set(cs) == want:
            R.ok("C14.R1", "FRegex", k, loc(rx_.rel, rx_.node), f"first column in {sorted(cs)}")
        else:
            R.violation("C14.R1", "FRegex", k, loc(rx_.rel, rx_.node), f"{nm} = {rx_.text!r} accepts {sorted(cs)} in column 1; fixed-form comment lines are flagged by {sorted(want)}" + (f" (missing {sorted(want - set(cs))})" if want - set(cs) else "") + (f" (extra {sorted(set(cs) - want)})" if set(cs) - want else ""))
        bad = uses.get(nm, set()) - {"match"}
        if bad:
            R.violation("C14.R1", "FRegex", f"{nm} applied at column 1", loc(rx_.rel, rx_.node), f"{nm} is applied with {sorted(bad)}: a flag character anywhere in the line makes it a comment")
        else:
            R.ok("C14.R1", "FRegex", f"{nm} applied at column 1", loc(rx_.rel, rx_.node), "only used with match()")
    # continuation: exactly 5 blanks then one non-blank
    rx_ = need("FIXED_CONT")
    seq = rex.items(rx_.tree)
    while len(seq) == 1 and seq[0][0] is C.SUBPATTERN:
        seq = rex.items(seq[0][1][3])
    ok = False
    why = rx_.text
    if len(seq) == 2 and seq[0][0] in rex.REPEATS:
        lo, hi, body = seq[0][1]
        b = rex.items(body)
        blanks = len(b) == 1 and rex.atom_chars(*b[0]) == frozenset(" ")
        nb = rex.atom_chars(*seq[1])
        nonblank = nb is not None and " " not in nb and len(nb) > 60
        ok = blanks and lo == 5 and hi == 5 and nonblank
    elif len(seq) == 6:
        ok = all(rex.atom_chars(*x) == frozenset(" ") for x in seq[:5]) and (rex.atom_chars(*seq[5]) or frozenset(" ")).isdisjoint(" ")
    if ok and uses.get("FIXED_CONT", {"match"}) <= {"match"}:
        R.ok("C14.R1", "FRegex", "FIXED_CONT column 6", loc(rx_.rel, rx_.node), "5 blanks + one non-blank, matched from column 1")
    else:
        R.violation("C14.R1", "FRegex", "FIXED_CONT column 6", loc(rx_.rel, rx_.node), f"FIXED_CONT = {why!r} does not mean 'five blanks then a non-blank in column 6' (or is not applied with match())")
    # label: digits then at least one blank
    rx_ = need("LINE_LABEL")
    g = rex.group_node(rx_.tree, 1)
    okl = False
    if g:
        seq, i = g
        inner = rex.items(seq[i][1][3])
        digits = len(inner) == 1 and inner[0][0] in rex.REPEATS and inner[0][1][0] >= 1 and rex.atom_chars(*rex.items(inner[0][1][2])[0]) == frozenset("0123456789")
        after = seq[i + 1] if i + 1 < len(seq) else None
        blank_after = after is not None and after[0] in rex.REPEATS and after[1][0] >= 1 and rex.atom_chars(*rex.items(after[1][2])[0]) == frozenset(" ")
        okl = digits and blank_after
        # the same pattern strips labels from free-form statements (any indentation) and fixed-form ones:
        # the blanks in front of the digits are unbounded, and at least the five digits of a label fit
        import re._constants as _rc

        before = seq[i - 1] if i > 0 else None
        lead_unbounded = before is not None and before[0] in rex.REPEATS and before[1][0] == 0 and before[1][1] == _rc.MAXREPEAT and rex.atom_chars(*rex.items(before[1][2])[0]) == frozenset(" ")
        digits_fit = digits and (inner[0][1][1] == _rc.MAXREPEAT or inner[0][1][1] >= 5)
        if okl and not (lead_unbounded and digits_fit):
            R.violation("C14.R1", "FRegex", "LINE_LABEL reach", loc(rx_.rel, rx_.node), f"LINE_LABEL = {rx_.text!r} only finds a label behind a bounded number of blanks" + ("" if digits_fit else " / fewer than five digits") + ": the pattern is applied to free-form statements as well, where a label may be indented arbitrarily - a labelled DO closed by an indented `20 continue` stays open in the free-form rendering while the fixed-form twin closes it")
        elif okl:
            R.ok("C14.R1", "FRegex", "LINE_LABEL reach", loc(rx_.rel, rx_.node), "any indentation, labels of five digits or more")
    if okl:
        R.ok("C14.R1", "FRegex", "LINE_LABEL", loc(rx_.rel, rx_.node), "a run of digits followed by at least one blank")
    else:
        R.violation("C14.R1", "FRegex", "LINE_LABEL", loc(rx_.rel, rx_.node), f"LINE_LABEL = {rx_.text!r} does not capture a run of digits followed by a blank")


PAIRS = {"FREE_COMMENT": "FIXED_COMMENT", "FREE_CONT": "FIXED_CONT", "FREE_DOC": "FIXED_DOC", "FREE_OPENMP": "FIXED_OPENMP"}


def r2(ctx, R):
    R.rule("C14.R2", "every use of a free-form lexical pattern sits in the not-fixed arm of a test of the file's form flag whose other arm uses the fixed-form counterpart", floor=5, confirmed=8)
    for f in ctx.m.funcs.values():
        if f.rel.endswith("debug.py"):
            continue
        refs = []
        for n in ctx.m.walk_own(f.node):
            nm = ctx.p.fregex_ref(f.rel, n) if isinstance(n, ast.Attribute) else None
            if nm and (nm in PAIRS or nm in PAIRS.values()):
                refs.append((n, nm))
        free = [(n, nm) for n, nm in refs if nm in PAIRS]
        if not free:
            continue
        F = ctx.facts(f, interproc=False)
        for n, nm in free:
            st = ctx.m.enclosing_stmt(n)
            k = f"{nm} in {key(f, st)[:80]}"
            # trailing `!` comments exist in both forms: docstring of a code line
            if "single_line" in f.name:
                R.ok("C14.R2", f.short, k, loc(f, n), "trailing-comment documentation: same in both forms")
                continue
            facts = F.at(n) or set()
            not_fixed = any(fa[0] == "falsy" and fa[1].endswith("fixed") for fa in facts)
            counterpart = PAIRS[nm]
            # the fixed-form arm must exist and apply fixed-form lexical rules
            # (normally the direct counterpart; a continuation scan may rely on
            # the continuation column instead of the comment flag)
            other = [m for m, x in refs if x in PAIRS.values()]
            other_ok = False
            for m in other:
                mf = F.at(m) or set()
                if any(fa[0] == "truthy" and fa[1].endswith("fixed") for fa in mf):
                    other_ok = True
            if not_fixed and other_ok:
                R.ok("C14.R2", f.short, k, loc(f, n), "free-form arm; the fixed-form arm applies fixed-form patterns")
            elif not not_fixed:
                R.violation("C14.R2", f.short, k, loc(f, n), f"{nm} is applied without testing the file's source form: fixed-form files are lexed with free-form rules here")
            else:
                R.violation("C14.R2", f.short, k, loc(f, n), f"no fixed-form arm: the function applies {nm} but never a fixed-form pattern ({counterpart}) under `fixed`")


def r3(ctx, R):
    R.rule("C14.R3", "the form flag follows the content: every whole-buffer writer re-detects the form; the parser derives its comment patterns from the flag before its loop", floor=3, confirmed=5)
    from .c02 import edit_routine, file_class

    fc = file_class(ctx)
    for q in fc.methods.values():
        f = ctx.m.funcs[q]
        if f.name in ("__init__", "copy"):
            continue
        for st in ctx.m.walk_own(f.node):
            if isinstance(st, ast.Assign) and any(isinstance(t, ast.Attribute) and t.attr == "contents_split" for t in st.targets):
                # same function assigns self.fixed from a detector, possibly under a flag defaulting to True
                det = [s2 for s2 in ctx.m.walk_own(f.node) if isinstance(s2, ast.Assign) and any(isinstance(t, ast.Attribute) and t.attr == "fixed" for t in s2.targets) and isinstance(s2.value, ast.Call)]
                if det:
                    R.ok("C14.R3", f.short, key(f, st), loc(f, st), "form re-detected from the new content")
                else:
                    R.violation("C14.R3", f.short, key(f, st), loc(f, st), "the buffer is replaced but the source form is not re-detected")
    ed = edit_routine(ctx)
    for c in calls_in(ed.node):
        if isinstance(c.func, ast.Attribute) and c.func.attr == "set_contents":
            bad = [kw for kw in c.keywords if kw.arg == "detect_format" and isinstance(kw.value, ast.Constant) and kw.value.value is False] or (len(c.args) > 1 and isinstance(c.args[1], ast.Constant) and c.args[1].value is False)
            st = ctx.m.enclosing_stmt(c)
            if bad:
                R.violation("C14.R3", ed.short, key(ed, st), loc(ed, c), "edited content keeps the old form flag: a document that changes form while typing is lexed with the wrong rules")
            else:
                R.ok("C14.R3", ed.short, key(ed, st), loc(ed, c), "form detection enabled")
    # the setter's default for form detection must be on
    sc = fc.methods.get("set_contents")
    if sc:
        g = ctx.m.funcs[sc]
        args = g.node.args
        pos = args.posonlyargs + args.args
        dflt = dict(zip([p.arg for p in pos][len(pos) - len(args.defaults):], args.defaults))
        d = dflt.get("detect_format")
        if d is not None and isinstance(d, ast.Constant) and d.value is False:
            R.violation("C14.R3", g.short, "detect_format default", loc(g, g.node), "form detection is off by default")
    # parse derives comment patterns before its loop
    pf = ctx.m.funcs[fc.methods["parse"]]
    loops = [n for n in ctx.m.walk_own(pf.node) if isinstance(n, ast.While)]
    derive = [st for st in ctx.m.walk_own(pf.node) if isinstance(st, ast.Assign) and isinstance(st.value, ast.Call) and isinstance(st.value.func, ast.Attribute) and "comment_regex" in st.value.func.attr]
    if loops and derive and derive[0].lineno < loops[0].lineno:
        R.ok("C14.R3", pf.short, key(pf, derive[0]), loc(pf, derive[0]), "comment patterns re-derived from the form flag before the parse loop")
    elif loops and not any(isinstance(st, (ast.Assign, ast.AnnAssign)) and isinstance(st.value, (ast.Call, ast.Tuple)) and any(isinstance(x, ast.Attribute) and "comment_regex" in x.attr for x in ast.walk(st.value)) and any(isinstance(t, ast.Attribute) or (isinstance(t, ast.Tuple) and any(isinstance(e_, ast.Attribute) for e_ in t.elts)) for t in (st.targets if isinstance(st, ast.Assign) else [st.target])) for q_ in fc.methods.values() for st in ctx.m.walk_own(ctx.m.funcs[q_].node)):
        R.ok("C14.R3", pf.short, "comment patterns derived before the loop", loc(pf, loops[0]), "no comment pattern is cached on the file object: they are computed from the form flag on access")
    elif loops:
        R.violation("C14.R3", pf.short, "comment patterns derived before the loop", loc(pf, loops[0]), "the parser keeps the comment patterns chosen when the file object was created")


def label_provenance(ctx, R, rid, pf, closer_call, strip_stmt, label_var):
    from .shared import reaching_def_nodes

    ds = reaching_def_nodes(ctx, pf, ctx.m.enclosing_stmt(closer_call), label_var)
    others = [d for d in ds if d is not strip_stmt]
    if others and not all(isinstance(d, ast.Assign) and isinstance(d.value, ast.Call) and isinstance(d.value.func, ast.Name) and d.value.func.id == "strip_line_label" for d in others):
        o = others[0]
        R.violation(rid, pf.short, f"label of every statement stripped :: {key(pf, o)[:60]}", loc(pf, o) if o != "param" else loc(pf, pf.node), f"on some path `{label_var}` does not come from strip_line_label ({unparse(o)[:50] if o != 'param' else 'parameter'}): a labelled statement that follows a `;` (`total = total + i; 10 continue`) keeps its label in the text and never closes its DO - the same statement on a line of its own does")
    else:
        R.ok(rid, pf.short, "label of every statement stripped", loc(pf, strip_stmt), "the closer's label always comes from strip_line_label")


def parse_label_sites(ctx):
    """(parse function, strip statement, label variable, closer call) or None"""
    from .c02 import file_class

    fc = file_class(ctx)
    pf = ctx.m.funcs[fc.methods["parse"]]
    strip = [c for c in calls_in(pf.node) if isinstance(c.func, ast.Name) and c.func.id == "strip_line_label"]
    closer = [c for c in calls_in(pf.node) if isinstance(c.func, ast.Attribute) and "do_fixed" in c.func.attr]
    if not strip or not closer:
        return None
    st = ctx.m.enclosing_stmt(strip[0])
    if isinstance(st, ast.Assign) and isinstance(st.targets[0], ast.Tuple) and len(st.targets[0].elts) == 2 and isinstance(st.targets[0].elts[1], ast.Name):
        return pf, st, st.targets[0].elts[1].id, closer[0]
    return None


def r4(ctx, R):
    R.rule("C14.R4", "labelled DO termination is wired: the statement label is stripped and handed to the DO closer, which closes every DO sharing the label", floor=3, confirmed=4)
    from .c02 import file_class

    fc = file_class(ctx)
    pf = ctx.m.funcs[fc.methods["parse"]]
    strip = [c for c in calls_in(pf.node) if isinstance(c.func, ast.Name) and c.func.id == "strip_line_label"]
    closer = [c for c in calls_in(pf.node) if isinstance(c.func, ast.Attribute) and "do_fixed" in c.func.attr]
    if not strip:
        R.violation("C14.R4", pf.short, "label stripping", loc(pf, pf.node), "statement labels are not stripped before statements are matched")
        return
    st = ctx.m.enclosing_stmt(strip[0])
    label_var = None
    if isinstance(st, ast.Assign) and isinstance(st.targets[0], ast.Tuple) and len(st.targets[0].elts) == 2 and isinstance(st.targets[0].elts[1], ast.Name):
        label_var = st.targets[0].elts[1].id
    R.ok("C14.R4", pf.short, key(pf, st), loc(pf, strip[0]), f"label -> {label_var}")
    if not closer:
        R.violation("C14.R4", pf.short, "labelled DO closer", loc(pf, pf.node), "no call to the labelled-DO closer")
        return
    c = closer[0]
    passed = any(isinstance(a, ast.Name) and a.id == label_var for a in list(c.args) + [k.value for k in c.keywords])
    if passed and c.lineno > strip[0].lineno:
        R.ok("C14.R4", pf.short, key(pf, ctx.m.enclosing_stmt(c)), loc(pf, c), "label handed to the closer")
    else:
        R.violation("C14.R4", pf.short, key(pf, ctx.m.enclosing_stmt(c)), loc(pf, c), "the stripped label does not reach the labelled-DO closer")
    # every statement - also one cut off at `;` - has its label stripped before it reaches the closer
    from .shared import reaching_def_nodes

    if label_var:
        label_provenance(ctx, R, "C14.R4", pf, c, st, label_var)
    # the stack of pending DO labels is popped by the closer only (push on `DO <label>`, pop on the labelled statement)
    stack_arg = next((unparse(a) for a in list(c.args) + [k.value for k in c.keywords] if isinstance(a, ast.Name) and "stack" in a.id), None)
    if stack_arg:
        foreign = [x for x in calls_in(pf.node) if ctx.m.enclosing_func(x) is pf and isinstance(x.func, ast.Attribute) and x.func.attr in ("pop", "clear", "remove", "popleft") and unparse(x.func.value) == stack_arg]
        foreign += [x for x in ctx.m.walk_own(pf.node) if isinstance(x, ast.Delete) and any(stack_arg in unparse(t) for t in x.targets)]
        if foreign:
            R.violation("C14.R4", pf.short, f"`{stack_arg}` popped by the labelled-DO closer only", loc(pf, foreign[0]), f"`{unparse(foreign[0])[:60]}` removes a pending DO label outside the closer: an unlabelled `do ... end do` nested in `do 10 i` discards label 10, `10 continue` no longer closes the outer DO and everything after it is nested wrongly")
        else:
            R.ok("C14.R4", pf.short, f"`{stack_arg}` popped by the labelled-DO closer only", loc(pf, c))
    # one labelled statement ends every DO that names its label (do 10 i / do 10 j / 10 continue)
    for q in ctx.r.resolve_call(pf, c)[1]:
        g = ctx.m.funcs.get(q)
        if g is None:
            continue
        pops = [x for x in calls_in(g.node) if isinstance(x.func, ast.Attribute) and x.func.attr == "pop" and isinstance(x.func.value, ast.Name) and "stack" in x.func.value.id]
        for x in pops:
            lp = ctx.m.parent.get(ctx.m.enclosing_stmt(x))
            while lp is not None and not isinstance(lp, (ast.While, ast.For, ast.FunctionDef)):
                lp = ctx.m.parent.get(lp)
            stack = x.func.value.id
            if isinstance(lp, ast.While) and f"{stack}[-1]" in unparse(lp.test) and any(isinstance(y, ast.Call) and isinstance(y.func, ast.Attribute) and y.func.attr == "end_scope" for y in ast.walk(lp)):
                R.ok("C14.R4", g.short, "every DO sharing the label is closed", loc(g, lp), f"while ... == {stack}[-1]: end_scope; pop")
            else:
                R.violation("C14.R4", g.short, "every DO sharing the label is closed", loc(g, x), "the labelled terminal statement closes one DO only: with `do 10 i` / `do 10 j` / `10 continue` the outer loop stays open, END SUBROUTINE no longer matches and everything after it disappears from the outline")
    # the label pushed for `DO <label>` comes from the DO pattern's digit group
    do = ctx.p.named.get("DO")
    if do is not None and do.tree is not None:
        g = rex.group_node(do.tree, 1)
        txt = do.text
        digits = "[0-9]" in txt or "\\d" in txt
        if g and digits:
            R.ok("C14.R4", "FRegex", "DO label group", loc(do.rel, do.node), "DO captures the numeric label")
        else:
            R.violation("C14.R4", "FRegex", "DO label group", loc(do.rel, do.node), "DO does not capture a numeric label: labelled DO loops are never closed by their terminal statement")


def r5(ctx, R):
    R.rule("C14.R5", "form detection: evidence for free form (a declaration keyword in columns 1-5, 1-4 leading blanks before a letter) is evaluated for every non-preprocessor line - in particular not only for lines that fail the fixed-form comment-flag test, whose flags are also first letters of declaration keywords", floor=2, confirmed=2)
    f = ctx.m.fn("detect_fixed_format")
    F = ctx.facts(f, interproc=False)
    com = ctx.p.named.get("FIXED_COMMENT")
    if com is None or com.tree is None:
        raise AnalysisError("FRegex.FIXED_COMMENT not found")
    flags, _ = rex.first_chars(com.tree, com.ignorecase)
    n = 0
    for c in calls_in(f.node):
        nm = ctx.p.fregex_ref(f.rel, c.func.value) if isinstance(c.func, ast.Attribute) else None
        if nm is None or nm == "FIXED_COMMENT" or c.func.attr != "match":
            continue
        rx_ = ctx.p.named[nm]
        # first non-blank characters the evidence pattern can start with
        seq = [it for it in rex.items(rx_.tree)]
        firsts = set()
        for i, (op, av) in enumerate(seq):
            fs, nullable = rex.first_chars([seq[i]], rx_.ignorecase)
            firsts |= {ch for ch in fs if ch != " "}
            if not nullable:
                break
        overlap = {ch for ch in firsts if ch in flags}
        n += 1
        facts = F.at(c) or set()
        shadowed = any(b[0] == "cond" and "FIXED_COMMENT.match(" in b[1] and b[2] is False for b in facts) or any(b[0] in ("falsy", "null") and "FIXED_COMMENT.match(" in str(b[1]) for b in facts)
        k = f"FRegex.{nm}.match(line)"
        if shadowed and overlap:
            R.violation("C14.R5", f.short, k, loc(f, c), f"this free-form evidence is only examined for lines that do not start with a comment flag, but {sorted(overlap)} are both comment flags and first letters of what {nm} matches (CHARACTER, COMPLEX, CLASS, DOUBLE ...): a free-form file whose declarations start in column 1 is classified as fixed form")
        else:
            R.ok("C14.R5", f.short, k, loc(f, c), f"evaluated independently of the comment-flag test (overlap {sorted(overlap)})")
    if n < 2:
        raise AnalysisError(f"detect_fixed_format: {n} evidence patterns found")


def _blanked(e):
    """`" " * k + x[k:]` / `"      " + x[6:]`: the first k columns replaced by blanks, length kept"""
    if not (isinstance(e, ast.BinOp) and isinstance(e.op, ast.Add)):
        return False
    l, r = e.left, e.right
    k = None
    if isinstance(l, ast.Constant) and isinstance(l.value, str) and l.value and not l.value.strip(" "):
        k = len(l.value)
    elif isinstance(l, ast.BinOp) and isinstance(l.op, ast.Mult):
        a, b = l.left, l.right
        if isinstance(b, ast.Constant) and isinstance(b.value, str):
            a, b = b, a
        if isinstance(a, ast.Constant) and a.value == " " and isinstance(b, ast.Constant) and isinstance(b.value, int):
            k = b.value
    if k is None:
        return False
    return isinstance(r, ast.Subscript) and isinstance(r.slice, ast.Slice) and isinstance(r.slice.lower, ast.Constant) and r.slice.lower.value == k and r.slice.upper is None


def r6(ctx, R):
    R.rule("C14.R6", "statement assembly in fixed form: every list of continuation lines that get_code_line returns receives, in the fixed-form arm, lines whose label/marker columns are blanked - a raw continuation line joined into the statement puts its column-6 marker (&, +, 1 ...) into the code text", floor=2, confirmed=2)
    from .c02 import file_class

    fc = file_class(ctx)
    q = fc.methods.get("get_code_line")
    if q is None:
        raise AnalysisError("FortranFile.get_code_line not found")
    f = ctx.m.funcs[q]
    returned = set()
    for n in ctx.m.walk_own(f.node):
        if isinstance(n, ast.Return) and isinstance(n.value, ast.Tuple):
            returned |= {e.id for e in n.value.elts if isinstance(e, ast.Name)}
        elif isinstance(n, ast.Return) and isinstance(n.value, ast.Call) and isinstance(n.value.func, ast.Name) and n.value.func.id[:1].isupper():
            # a record (NamedTuple / dataclass) built from the same locals
            returned |= {e.id for e in list(n.value.args) + [kw.value for kw in n.value.keywords] if isinstance(e, ast.Name)}
    arms = []
    for n in ctx.m.walk_own(f.node):
        if isinstance(n, ast.If) and isinstance(n.test, ast.Attribute) and n.test.attr == "fixed":
            if any(isinstance(c.func, ast.Attribute) and c.func.attr == "match" and ctx.p.fregex_ref(f.rel, c.func.value) == "FIXED_CONT" for b in n.body for c in calls_in(b)):
                arms.append(n)
    if len(arms) < 2:
        raise AnalysisError(f"get_code_line: {len(arms)} fixed-form arms testing FIXED_CONT found (backward and forward expected)")

    from .shared import reaching_def_nodes

    def raw(e, at, seen=frozenset()):
        """the value is provably a line exactly as stored in the buffer"""
        if isinstance(e, ast.Call) and isinstance(e.func, ast.Attribute) and e.func.attr == "get_line":
            return True
        if not isinstance(e, ast.Name):
            return False
        ds = reaching_def_nodes(ctx, f, at, e.id)
        if not ds:
            return False
        for d in ds:
            if not (isinstance(d, ast.Assign) and len(d.targets) == 1 and isinstance(d.targets[0], ast.Name)):
                return False
            k = (e.id, id(d))
            if k in seen:
                continue  # loop-carried copy: decided by the other definitions
            if not raw(d.value, d, seen | {k}):
                return False
        return True

    for arm in arms:
        stores = {}
        for b in arm.body:
            for n in ast.walk(b):
                if isinstance(n, ast.Call) and isinstance(n.func, ast.Attribute) and n.func.attr in ("append", "insert") and isinstance(n.func.value, ast.Name) and n.args:
                    stores.setdefault(n.func.value.id, []).append((n.args[-1], n))
                elif isinstance(n, ast.Assign) and isinstance(n.targets[0], ast.Subscript) and isinstance(n.targets[0].value, ast.Name):
                    stores.setdefault(n.targets[0].value.id, []).append((n.value, n))
        for name, sts in sorted(stores.items()):
            if name not in returned:
                continue
            kinds = []
            for v, n in sts:
                st = ctx.m.enclosing_stmt(n) if not isinstance(n, ast.stmt) else n
                cut = isinstance(v, ast.Subscript) and isinstance(v.slice, ast.Slice) and isinstance(v.slice.lower, ast.Constant) and isinstance(v.slice.lower.value, int) and v.slice.lower.value > 0 and v.slice.upper is None and raw(v.value, st)
                kinds.append("blanked" if _blanked(v) else "raw" if raw(v, st) else "cut" if cut else "other")
            where = f"{name} (fixed-form arm)"
            if "cut" in kinds:
                bad = next(n for (v, n), k_ in zip(sts, kinds) if k_ == "cut")
                R.violation("C14.R6", f.short, where, loc(f, bad), f"a continuation line is stored into {name} with its label/marker columns cut off instead of blanked: the statement text no longer has the columns of the source line, so entities declared on continuation lines are located that many columns too far left, and a continuation that starts in column 7 is fused with the last token of the line before it (`DOUBLE PRECISION` / `     &TOTAL` -> `DOUBLE PRECISIONTOTAL`), unlike the free-form twin")
            elif "blanked" in kinds:
                R.ok("C14.R6", f.short, where, loc(f, sts[0][1]), f"stores: {kinds}")
            elif kinds and all(k == "raw" for k in kinds):
                R.violation("C14.R6", f.short, where, loc(f, sts[0][1]), f"only unmodified buffer lines are stored into {name}: a statement continued over three or more fixed-form lines is assembled with the continuation marker of the middle lines inside the code text (`obj%` / `     &  sub%` / `     &  member` -> `obj%&  sub%member`), unlike its free-form twin")
            else:
                R.undecided("C14.R6", f.short, where, loc(f, sts[0][1]), f"stores: {kinds}")


def r7(ctx, R):
    R.rule("C14.R7", "column-1 patterns decide about whole physical lines only: a statement is never dropped because a fragment cut off at `;` happens to start with a comment flag (c, d, *, !)", floor=1, confirmed=1)
    from .c02 import file_class
    from .shared import reaching_def_nodes

    fc = file_class(ctx)
    pf = ctx.m.funcs[fc.methods["parse"]]
    F = ctx.facts(pf, interproc=False)
    # the stack of `;` fragments: a local that is popped into the line variable
    n = 0
    for st in ctx.m.walk_own(pf.node):
        if not isinstance(st, ast.If) or not st.body or not isinstance(st.body[-1], ast.Continue):
            continue
        for c in calls_in(ast.Expression(body=st.test)):
            if not (isinstance(c.func, ast.Attribute) and c.func.attr == "match" and c.args and isinstance(c.args[0], ast.Name)):
                continue
            pat = unparse(c.func.value)
            col1 = pat.endswith("COMMENT_LINE_MATCH") or pat.endswith("DOC_COMMENT_MATCH") or (ctx.p.fregex_ref(pf.rel, c.func.value) or "").startswith("FIXED_")
            if not col1:
                continue
            n += 1
            var = c.args[0].id
            defs = reaching_def_nodes(ctx, pf, st, var)
            frag = [d for d in defs if isinstance(d, ast.Assign) and isinstance(d.value, ast.Call) and isinstance(d.value.func, ast.Attribute) and d.value.func.attr in ("pop", "popleft")]
            facts = (F.at(c) or set()) | (F.at(st) or set())
            guarded = any(fa[0] in ("truthy",) and "get_full" in str(fa[1]) for fa in facts) or any(fa[0] == "cond" and fa[2] is True and fa[1] == "get_full" for fa in facts) or any(fa[0] in ("empty", "falsy") and "multi" in str(fa[1]) for fa in facts)
            k = key(pf, st)[:90]
            if frag and not guarded:
                R.violation("C14.R7", pf.short, k, loc(pf, st), f"`{var}` can be a fragment popped from the `;` stack ({unparse(frag[0])}); in fixed form `{pat}` looks at its first character as if it were column 1, so in `      integer n;double precision x` the second statement is dropped as a comment - the free-form twin keeps it")
            else:
                R.ok("C14.R7", pf.short, k, loc(pf, st), "applied to physical lines only")
    if n == 0:
        R.ok("C14.R7", pf.short, "no skip decision rests on a column-1 pattern in the statement loop", loc(pf, pf.node))


def run(ctx, R):
    r1(ctx, R)
    r2(ctx, R)
    r3(ctx, R)
    r4(ctx, R)
    r5(ctx, R)
    r6(ctx, R)
    r7(ctx, R)
