"""Def-use classification of strings that reach regular-expression sinks
(pattern holes, replacement templates): DESIGN.md C03.R3 / C06.R2 / C08.R3."""
from __future__ import annotations

import ast

from sa import rex
from sa.model import unparse

from .shared import defs_of, reaching_defs

CONST, SAN, WORD, CALLABLE, TAINT = "const", "sanitised", "word", "callable", "tainted"
ORDER = {CONST: 0, CALLABLE: 0, SAN: 1, WORD: 2, TAINT: 3}


def join(a, b):
    if a is None:
        return b
    if b is None:
        return a
    return a if ORDER[a] >= ORDER[b] else b


def _is_backslash_escape(call):
    """X.replace("\\", "\\\\")"""
    return (
        isinstance(call, ast.Call)
        and isinstance(call.func, ast.Attribute)
        and call.func.attr == "replace"
        and len(call.args) >= 2
        and isinstance(call.args[0], ast.Constant)
        and call.args[0].value == "\\"
        and isinstance(call.args[1], ast.Constant)
        and call.args[1].value == "\\\\"
    )


def word_only(sub):
    """Does the (sub)pattern match only word characters (letters, digits, _)?"""
    C = rex.C
    for op, av in rex.items(sub):
        if op is C.LITERAL:
            ch = chr(av)
            if not (ch.isalnum() or ch == "_"):
                return False
        elif op is C.IN:
            for o2, a2 in av:
                if o2 is C.CATEGORY and a2 in (C.CATEGORY_WORD, C.CATEGORY_DIGIT):
                    continue
                if o2 is C.LITERAL and (chr(a2).isalnum() or chr(a2) == "_"):
                    continue
                if o2 is C.RANGE and all(chr(c).isalnum() for c in a2):
                    continue
                return False
        elif op in rex.REPEATS:
            if not word_only(av[2]):
                return False
        elif op is C.SUBPATTERN:
            if not word_only(av[3]):
                return False
        elif op is C.BRANCH:
            if not all(word_only(a) for a in av[1]):
                return False
        elif op in rex.ZERO_WIDTH:
            continue
        else:
            return False
    return True


class Taint:
    def __init__(self, ctx, mode="template"):
        """mode 'template': what may be used as a replacement template;
        mode 'pattern': what may be spliced into a pattern."""
        self.ctx = ctx
        self.mode = mode
        self._visiting = set()

    def of(self, f, e, at=None, depth=0):
        ctx = self.ctx
        if e is None or depth > 12:
            return TAINT
        if isinstance(e, ast.Constant):
            return CONST
        if isinstance(e, ast.JoinedStr):
            r = CONST
            for v in e.values:
                if isinstance(v, ast.FormattedValue):
                    t = self.of(f, v.value, at or e, depth + 1)
                    if isinstance(v.value, ast.Name) and ctx.r.benv(f).get(v.value.id) == "int":
                        t = CONST
                    r = join(r, t)
            return r
        if isinstance(e, ast.Lambda):
            return CALLABLE
        if isinstance(e, ast.BinOp) and isinstance(e.op, (ast.Add, ast.Mod, ast.Mult)):
            return join(self.of(f, e.left, at, depth + 1), self.of(f, e.right, at, depth + 1))
        if isinstance(e, ast.IfExp):
            return join(self.of(f, e.body, at, depth + 1), self.of(f, e.orelse, at, depth + 1))
        if isinstance(e, (ast.List, ast.Tuple)):
            r = CONST
            for x in e.elts:
                r = join(r, self.of(f, x.value if isinstance(x, ast.Starred) else x, at, depth + 1))
            return r
        if isinstance(e, (ast.ListComp, ast.GeneratorExp, ast.SetComp)):
            # the comprehension variable stands for an element of the iterable
            env = getattr(self, "_compenv", None)
            if env is None:
                env = self._compenv = {}
            saved = dict(env)
            try:
                for gen in e.generators:
                    c_ = self.of(f, gen.iter, at, depth + 1)
                    for x in ast.walk(gen.target):
                        if isinstance(x, ast.Name):
                            env[x.id] = c_
                return self.of(f, e.elt, at, depth + 1)
            finally:
                env.clear()
                env.update(saved)
        if isinstance(e, ast.Call):
            fn = e.func
            d = ctx.m.dotted(f.rel, fn) if isinstance(fn, (ast.Name, ast.Attribute)) else None
            if d == "re.escape":
                return SAN
            # map(re.escape, xs) / list(map(re.escape, xs)) / Starred unpacking of such a list
            if isinstance(fn, ast.Name) and fn.id == "map" and len(e.args) == 2 and isinstance(e.args[0], (ast.Name, ast.Attribute)) and ctx.m.dotted(f.rel, e.args[0]) == "re.escape":
                return SAN
            if isinstance(fn, ast.Name) and fn.id in ("list", "tuple", "sorted", "set") and len(e.args) == 1:
                return self.of(f, e.args[0], at, depth + 1)
            if _is_backslash_escape(e):
                return SAN if self.mode == "template" else self.of(f, fn.value, at, depth + 1)
            if d in ("re.sub", "re.subn") and len(e.args) >= 3:
                t = self.of(f, e.args[1], at, depth + 1)
                s_ = self.of(f, e.args[2], at, depth + 1)
                return s_ if t in (CONST, CALLABLE, SAN) else TAINT
            if isinstance(fn, ast.Attribute) and fn.attr in ("sub", "subn") and len(e.args) >= 2 and ctx.r.expr_builtin(f, fn.value) in ("pattern", None) and not ctx.r.expr_classes(f, fn.value):
                t = self.of(f, e.args[0], at, depth + 1)
                s_ = self.of(f, e.args[1], at, depth + 1)
                return s_ if t in (CONST, CALLABLE, SAN) else TAINT
            if isinstance(fn, ast.Attribute) and fn.attr in ("strip", "lstrip", "rstrip", "lower", "upper", "copy", "casefold", "title"):
                return self.of(f, fn.value, at, depth + 1)
            if isinstance(fn, ast.Attribute) and fn.attr == "join" and e.args:
                return join(self.of(f, fn.value, at, depth + 1), self.of(f, e.args[0], at, depth + 1))
            if isinstance(fn, ast.Attribute) and fn.attr in ("group",) and self.mode == "pattern":
                # text of a capture group: word-only when the group's pattern is
                m = fn.value
                rx_, k = self._match_source(f, m, at or e), (e.args[0].value if e.args and isinstance(e.args[0], ast.Constant) else 0)
                if rx_ is not None and rx_.tree is not None:
                    g = rex.group_node(rx_.tree, k) if isinstance(k, int) and k > 0 else None
                    if g is not None:
                        seq, i = g
                        if word_only(seq[i][1][3]):
                            return WORD
                return TAINT
            if isinstance(fn, ast.Name) and fn.id in ("str", "repr", "format"):
                r = CONST
                for a in e.args:
                    r = join(r, self.of(f, a, at, depth + 1))
                return r
            if isinstance(fn, ast.Name) and fn.id in ("len", "int", "hash", "id"):
                return CONST
            if isinstance(fn, ast.Attribute) and fn.attr in ("get", "pop") and isinstance(fn.value, ast.Name):
                return self._container(f, fn.value.id, at or e, depth + 1)
            k_, tg = ctx.r.resolve_call(f, e)
            if k_ in ("nested", "module", "import", "typed") and tg:
                r = None
                for t in tg:
                    if t in self._visiting:
                        continue
                    g = ctx.m.funcs[t]
                    self._visiting.add(t)
                    try:
                        for rt in (n for n in ctx.m.walk_own(g.node) if isinstance(n, ast.Return) and n.value is not None):
                            r = join(r, self.of(g, rt.value, rt, depth + 1))
                    finally:
                        self._visiting.discard(t)
                return r or CONST
            return TAINT
        if isinstance(e, ast.Name):
            if e.id in getattr(self, "_compenv", {}):
                return self._compenv[e.id]
            if self._is_function(f, e.id):
                return CALLABLE
            key = (f.qual, e.id, id(at))
            if key in self._visiting:
                return None  # loop-carried definition: the other sources decide
            self._visiting.add(key)
            try:
                from .shared import reaching_def_nodes

                rdn = reaching_def_nodes(ctx, f, at, e.id) if at is not None else [st for st, _ in defs_of(ctx, f, e.id)]
                rd = []
                for st in rdn:
                    if st == "param":
                        rd.append("param")
                    elif isinstance(st, ast.Assign) and len(st.targets) == 1 and isinstance(st.targets[0], ast.Name):
                        rd.append(st.value)
                    elif isinstance(st, ast.AnnAssign) and st.value is not None:
                        rd.append(st.value)
                    else:
                        rd.append(("bind", st))
                if not rd:
                    # closure variable of an enclosing function, or parameter
                    if f.parent and e.id not in f.params:
                        g = ctx.m.funcs[f.parent]
                        r = None
                        for st, v in defs_of(ctx, g, e.id):
                            r = join(r, self.of(g, v, st, depth + 1) if v is not None else self._binding(g, st, e.id, depth + 1))
                        if r is None and e.id in g.params:
                            return TAINT
                        return r or TAINT
                    return TAINT
                r = None
                for v in rd:
                    if v == "param":
                        r = join(r, self._param(f, e.id, depth + 1))
                    elif v is None:
                        r = join(r, self._unpacked(f, e.id, at, depth + 1))
                    elif isinstance(v, tuple) and v[0] == "bind":
                        r = join(r, self._unpacked(f, e.id, at, depth + 1, only=v[1]))
                    else:
                        r = join(r, self.of(f, v, v, depth + 1))
                return r
            finally:
                self._visiting.discard(key)
        if isinstance(e, ast.Subscript):
            if isinstance(e.value, ast.Name):
                b = ctx.r.benv(f).get(e.value.id)
                if b == "str" or isinstance(e.slice, ast.Slice):
                    return self.of(f, e.value, at, depth + 1)
                return self._container(f, e.value.id, at or e, depth + 1)
            return self.of(f, e.value, at, depth + 1)
        if isinstance(e, ast.Attribute):
            return TAINT
        return TAINT

    def _param(self, f, name, depth):
        """A parameter is as clean as what every caller in the package passes."""
        ctx = self.ctx
        if depth > 8:
            return TAINT
        callers = [(g, c, k) for g, c, k in ctx.r.callers(f.qual, by_name=False) if not g.rel.endswith("debug.py")]
        if not callers:
            return TAINT
        r = None
        for g, c, k in callers:
            a = ctx.e._actual(c, k, f, name)
            if a is None:
                # default value
                args = f.node.args
                pos = args.posonlyargs + args.args
                dflt = dict(zip([p_.arg for p_ in pos][len(pos) - len(args.defaults):], args.defaults))
                a = dflt.get(name)
                if a is None:
                    return TAINT
                r = join(r, self.of(f, a, None, depth + 1))
                continue
            r = join(r, self.of(g, a, c, depth + 1))
        return r or TAINT

    def _is_function(self, f, name):
        ctx = self.ctx
        return name in ctx.r.nested_visible(f) or bool(ctx.m.resolve_func_name(f.rel, name))

    def _match_source(self, f, m, at):
        """Rx whose match object expression m holds."""
        ctx = self.ctx
        call = m
        if isinstance(m, ast.Name):
            rd = [v for v in reaching_defs(ctx, f, at, m.id) if v is not None and v != "param"]
            call = rd[0] if len(rd) == 1 else None
        if isinstance(call, ast.Call) and isinstance(call.func, ast.Attribute) and call.func.attr in ("match", "search", "fullmatch"):
            nm = ctx.p.fregex_ref(f.rel, call.func.value)
            if nm:
                return ctx.p.named[nm]
        return None

    def _binding(self, f, st, name, depth):
        return self._unpacked(f, name, st, depth)

    def _unpacked(self, f, name, at, depth, only=None):
        """name bound by a for target / tuple unpacking: classify the source."""
        ctx = self.ctx
        r = None
        for n in ([only] if only is not None else ctx.m.walk_own(f.node)):
            tgt = src = None
            if isinstance(n, (ast.For, ast.comprehension)):
                tgt, src = n.target, n.iter
            elif isinstance(n, ast.Assign) and isinstance(n.targets[0], (ast.Tuple, ast.List)):
                tgt, src = n.targets[0], n.value
            if tgt is None or name not in [x.id for x in ast.walk(tgt) if isinstance(x, ast.Name)]:
                continue
            # position inside the target tuple
            pos = None
            if isinstance(tgt, (ast.Tuple, ast.List)):
                for i, x in enumerate(tgt.elts):
                    if isinstance(x, ast.Name) and x.id == name:
                        pos = i
            if isinstance(n, ast.Assign):
                r = join(r, self._tuple_elem(f, src, pos, n, depth + 1))
            else:
                # iteration: dict items / enumerate / plain container
                if isinstance(src, ast.Call) and isinstance(src.func, ast.Attribute) and src.func.attr in ("items", "keys", "values") and isinstance(src.func.value, ast.Name):
                    which = "key" if (src.func.attr == "keys" or (src.func.attr == "items" and pos == 0)) else "value"
                    r = join(r, self._container(f, src.func.value.id, n, depth + 1, which))
                elif isinstance(src, ast.Call) and isinstance(src.func, ast.Name) and src.func.id == "enumerate" and src.args:
                    if pos == 0:
                        r = join(r, CONST)
                    else:
                        r = join(r, self.of(f, src.args[0], n, depth + 1))
                else:
                    r = join(r, self.of(f, src, n, depth + 1))
        return r or TAINT

    def _tuple_elem(self, f, src, pos, at, depth):
        ctx = self.ctx
        if isinstance(src, (ast.Tuple, ast.List)) and pos is not None and pos < len(src.elts):
            return self.of(f, src.elts[pos], at, depth)
        if isinstance(src, ast.Name):
            r = None
            key = (f.qual, src.id, "tuple", pos, id(at))
            if key in self._visiting:
                return None
            self._visiting.add(key)
            try:
                for v in reaching_defs(ctx, f, at, src.id):
                    if v == "param" or v is None:
                        r = join(r, TAINT)
                    else:
                        r = join(r, self._tuple_elem(f, v, pos, v, depth + 1))
            finally:
                self._visiting.discard(key)
            return r or TAINT
        if isinstance(src, ast.Call):
            fn = src.func
            if ctx.r.expr_builtin(f, src) in ("pattern", "str", "int", "match", "bool", "list", "dict", "set"):
                return None  # not a tuple: cannot be what is being unpacked
            if isinstance(fn, ast.Attribute) and fn.attr in ("get", "pop") and isinstance(fn.value, ast.Name):
                # element pos of the tuples stored in a local container
                r = None
                for st in ctx.m.walk_own(f.node):
                    if isinstance(st, ast.Assign) and isinstance(st.targets[0], ast.Subscript) and isinstance(st.targets[0].value, ast.Name) and st.targets[0].value.id == fn.value.id:
                        r = join(r, self._tuple_elem(f, st.value, pos, st, depth + 1))
                return r or TAINT
            k_, tg = ctx.r.resolve_call(f, src)
            if k_ in ("nested", "module", "import", "typed") and tg:
                r = None
                for t in tg:
                    g = ctx.m.funcs[t]
                    for rt in (n for n in ctx.m.walk_own(g.node) if isinstance(n, ast.Return) and n.value is not None):
                        r = join(r, self._tuple_elem(g, rt.value, pos, rt, depth + 1))
                return r or TAINT
        if isinstance(src, ast.Subscript) and isinstance(src.value, ast.Name) and not isinstance(src.slice, ast.Slice):
            # a, b = cache[key]: element pos of the tuples stored in the local container
            r = None
            for st in ctx.m.walk_own(f.node):
                if isinstance(st, ast.Assign) and isinstance(st.targets[0], ast.Subscript) and isinstance(st.targets[0].value, ast.Name) and st.targets[0].value.id == src.value.id:
                    r = join(r, self._tuple_elem(f, st.value, pos, st, depth + 1))
            return r or TAINT
        if isinstance(src, ast.IfExp):
            return join(self._tuple_elem(f, src.body, pos, at, depth + 1), self._tuple_elem(f, src.orelse, pos, at, depth + 1))
        return TAINT

    def _container(self, f, name, at, depth, which="value"):
        """Classification of the keys/values of a local dict/list."""
        ctx = self.ctx
        key = (f.qual, name, "cont", which)
        if key in self._visiting:
            return None
        self._visiting.add(key)
        try:
            r = None
            owner = f
            found = False
            while owner is not None:
                for st in ctx.m.walk_own(owner.node):
                    if isinstance(st, ast.Assign):
                        t = st.targets[0]
                        if isinstance(t, ast.Name) and t.id == name:
                            found = True
                            v = st.value
                            if isinstance(v, ast.Dict):
                                for k_, vv in zip(v.keys, v.values):
                                    r = join(r, self.of(owner, k_ if which == "key" else vv, st, depth + 1))
                                r = join(r, CONST)
                            elif isinstance(v, (ast.List, ast.Set, ast.Tuple)) and not v.elts:
                                r = join(r, CONST)
                            else:
                                r = join(r, TAINT)  # copy of a parameter / option: contents unknown
                        elif isinstance(t, ast.Subscript) and isinstance(t.value, ast.Name) and t.value.id == name:
                            found = True
                            r = join(r, self.of(owner, t.slice if which == "key" else st.value, st, depth + 1))
                    elif isinstance(st, ast.Call) and isinstance(st.func, ast.Attribute) and st.func.attr in ("append", "add") and isinstance(st.func.value, ast.Name) and st.func.value.id == name and st.args:
                        found = True
                        r = join(r, self.of(owner, st.args[0], st, depth + 1))
                if name in owner.params:
                    r = join(r, TAINT)
                    found = True
                if found:
                    break
                owner = ctx.m.funcs.get(owner.parent) if owner.parent else None
            return r or TAINT
        finally:
            self._visiting.discard(key)
