"""C13 — the index is invariant under meaning-preserving re-layout
(DESIGN.md 3/C13): case flags, both-sides case normalisation, one splitter,
blank-tolerant end anchors."""
from __future__ import annotations

import ast

from sa import rex
from sa.model import AnalysisError, access_path, unparse

from .caselat import LOWER, NEUTRAL, RAW, UPPER, Case
from .shared import calls_in, deref, key, loc


# ------------------------------------------------------------------- R1
def r1(ctx, R):
    R.rule("C13.R1", "every pattern that spells out letters and is applied to Fortran source carries IGNORECASE", floor=60, confirmed=75)
    for name, rx_ in sorted(ctx.p.named.items()):
        if rx_.tree is None:
            continue
        if not rex.has_cased_letter(rx_.tree):
            continue
        k = f"pattern {name}"
        if rx_.ignorecase:
            R.ok("C13.R1", "FRegex", k, loc(rx_.rel, rx_.node))
        else:
            R.violation("C13.R1", "FRegex", k, loc(rx_.rel, rx_.node), f"{name} = {rx_.text!r} spells out letters but is compiled without re.I: the construct is only recognised in one letter case")
    from .c18 import _suffix_builder

    sb = _suffix_builder(ctx)
    for rx_ in ctx.p.inline:
        if rx_.rel.endswith("debug.py") or rx_.tree is None:
            continue
        if rx_.func is None:
            if len(rx_.template) == 1 and rx_.holes:
                continue
            if rex.has_cased_letter(rx_.tree):
                k_ = f"module-level pattern {rx_.text[:60]!r}"
                if rx_.ignorecase:
                    R.ok("C13.R1", rx_.rel, k_, loc(rx_.rel, rx_.node))
                else:
                    R.violation("C13.R1", rx_.rel, k_, loc(rx_.rel, rx_.node), f"pattern {rx_.text!r} spells out letters but has no re.I flag")
            continue
        if rx_.func is sb.func:
            continue  # file names: explicit [fF] classes, decided by C18.R1
        if len(rx_.template) == 1 and rx_.holes:
            continue  # a compiled FRegex pattern passed through
        if not rex.has_cased_letter(rx_.tree):
            continue
        f = rx_.func
        st = ctx.m.enclosing_stmt(rx_.node)
        # documentation tags (@param ...) are not Fortran text
        in_docs = any("doc" in q.split(":")[1].lower() for q in [f.qual] + ([f.parent] if f.parent else []))
        if in_docs:
            R.observe("C13.R1", f.short, key(f, st), loc(f, rx_.node), "pattern over documentation-comment tags, not Fortran text")
            continue
        if rx_.ignorecase:
            R.ok("C13.R1", f.short, key(f, st)[:100], loc(f, rx_.node))
        else:
            R.violation("C13.R1", f.short, key(f, st)[:100], loc(f, rx_.node), f"inline pattern {rx_.text!r} spells out letters but has no re.I flag")


# ------------------------------------------------------------------- R2
def entity_name(ctx, f, e):
    """'bare' if e is `X.name` (possibly stripped), 'norm' if it is
    `X.name.lower()/upper()`, else None.  X must not be a module (os.name)."""
    x = e
    norm = False
    while isinstance(x, ast.Call) and isinstance(x.func, ast.Attribute) and x.func.attr in ("lower", "upper", "casefold", "strip", "lstrip", "rstrip") and not x.args:
        if x.func.attr in ("lower", "upper", "casefold"):
            norm = True
        x = x.func.value
    if isinstance(x, ast.Attribute) and x.attr == "name":
        d = ctx.m.dotted(f.rel, x)
        if d and d.split(".")[0] in ("os", "sys"):
            return None
        return "norm" if norm else "bare"
    return None


def explicit_norm(e, ctx=None, f=None, at=None):
    """operand is syntactically <expr>.lower()/.upper() (maybe stripped), or a
    local whose reaching definitions all are"""
    if isinstance(e, ast.Name) and ctx is not None:
        from .shared import reaching_defs

        rd = reaching_defs(ctx, f, at, e.id)
        return bool(rd) and all(v is not None and v != "param" and explicit_norm(v) for v in rd)
    x = e
    while isinstance(x, ast.Call) and isinstance(x.func, ast.Attribute) and not x.args and x.func.attr in ("strip", "lstrip", "rstrip", "lower", "upper", "casefold"):
        if x.func.attr in ("lower", "upper", "casefold"):
            return True
        x = x.func.value
    return False


def comparison_instances(ctx):
    """[(func, node, left operand, right operand, kind)]; kind 'elem' when the
    right operand is a container whose elements/keys are compared, 'key' for
    dict look-ups"""
    out = []
    for f in ctx.m.funcs.values():
        if f.rel.endswith("debug.py"):
            continue
        for n in ctx.m.walk_own(f.node):
            if isinstance(n, ast.Compare) and len(n.ops) == 1:
                op = n.ops[0]
                if isinstance(op, (ast.Eq, ast.NotEq)):
                    out.append((f, n, n.left, n.comparators[0], "eq"))
                elif isinstance(op, (ast.In, ast.NotIn)):
                    out.append((f, n, n.left, n.comparators[0], "elem"))
            elif isinstance(n, ast.Call) and isinstance(n.func, ast.Attribute) and n.func.attr in ("startswith", "endswith", "find", "count", "index", "rfind") and len(n.args) >= 1:
                if ctx.r.expr_classes(f, n.func.value):
                    continue
                out.append((f, n, n.func.value, n.args[0], "eq"))
            elif isinstance(n, ast.Call) and isinstance(n.func, ast.Attribute) and n.func.attr in ("get", "pop") and n.args and not ctx.r.expr_classes(f, n.func.value):
                out.append((f, n, n.args[0], n.func.value, "key"))
            elif isinstance(n, ast.Subscript) and isinstance(n.ctx, ast.Load) and not isinstance(n.slice, (ast.Slice, ast.Constant, ast.UnaryOp)):
                out.append((f, n, n.slice, n.value, "key"))
    return out


def r2(ctx, R):
    R.rule("C13.R2", "identifier comparisons and look-ups are case-normalised the same way on both sides", floor=25, confirmed=45)
    C = Case(ctx)

    def case_of(f, e, at, kind=None):
        if kind == "elem":
            b = ctx.r.expr_builtin(f, e)
            c = C.of(f, e, at) if b == "str" else C.container(f, e, at, "iter")
        elif kind == "key":
            c = C.container(f, e, at, "key")
        else:
            c = C.of(f, e, at)
        return c if c is not None else NEUTRAL

    n_inst = 0
    for f, n, l, r, kind in comparison_instances(ctx):
        consts = [x.value for x in (l, r) if isinstance(x, ast.Constant)]
        if any(not isinstance(c, str) for c in consts):
            continue
        marker = any(c.startswith("#") or c == "" for c in consts)
        el, er = entity_name(ctx, f, l), (entity_name(ctx, f, r) if kind == "eq" else None)
        k = unparse(n)[:100]
        # (a) a bare entity name takes part in a comparison
        if "bare" in (el, er):
            if marker:
                continue  # generated markers (#GEN_INT...) are never typed by the user
            other = r if el == "bare" else l
            n_inst += 1
            if entity_name(ctx, f, other) == "bare" and kind == "eq":
                R.violation("C13.R2", f.short, k, loc(f, n), "two entity names are compared as written: `Foo` and `foo` are the same Fortran identifier but compare unequal")
            else:
                R.violation("C13.R2", f.short, k, loc(f, n), f"the entity name `{unparse(l if el == 'bare' else r)}` is compared as the user spelled it, without case normalisation (Fortran identifiers are case-insensitive)")
            continue
        # (b) one side is explicitly normalised: the other must be normalised alike
        if el == "norm" or er == "norm" or explicit_norm(l, ctx, f, n) or (kind == "eq" and explicit_norm(r, ctx, f, n)):
            if marker:
                continue
            n_inst += 1
            cl = case_of(f, l, n)
            cr = case_of(f, r, n, kind if kind in ("elem", "key") else None)
            what = "the keys of " if kind == "key" else ("the elements of " if kind == "elem" else "")
            if NEUTRAL in (cl, cr) or (cl == cr and cl in (LOWER, UPPER)):
                R.ok("C13.R2", f.short, k, loc(f, n), f"{cl} vs {cr}")
            elif RAW in (cl, cr) or {cl, cr} == {LOWER, UPPER}:
                R.violation("C13.R2", f.short, k, loc(f, n), f"`{unparse(l)[:40]}` is {cl} but {what}`{unparse(r)[:40]}` is {cr}: the outcome depends on the letter case the user typed")
            else:
                R.undecided("C13.R2", f.short, k, loc(f, n), f"{cl} vs {what}{cr}: case of one side could not be derived")
            continue
        # (c) look-ups into tables whose keys are normalised
        if kind in ("key", "elem"):
            if ctx.r.expr_builtin(f, r) == "str":
                continue
            cr = case_of(f, r, n, kind)
            if cr in (LOWER, UPPER):
                cl = case_of(f, l, n)
                if ctx.r.expr_builtin(f, l) in ("int", "bool", "float"):
                    continue
                n_inst += 1
                if cl == cr or cl == NEUTRAL:
                    R.ok("C13.R2", f.short, k, loc(f, n), f"{cl} key into {cr}-keyed table")
                elif cl == RAW or cl in (LOWER, UPPER):
                    R.violation("C13.R2", f.short, k, loc(f, n), f"the table `{unparse(r)[:40]}` is keyed by {cr} names but is consulted with `{unparse(l)[:40]}`, which is {cl}")
                else:
                    R.undecided("C13.R2", f.short, k, loc(f, n), f"key case not derived ({cl}) for a {cr}-keyed table")


# ------------------------------------------------------------------- R3
def r3(ctx, R):
    R.rule("C13.R3", "file loading and change application split lines with one splitter that recognises LF, CRLF and CR", floor=1, confirmed=1)
    from .c02 import edit_routine, file_class, first_match_on, splitter_of

    fc = file_class(ctx)
    ed = edit_routine(ctx)
    ld = ctx.m.funcs[fc.methods["load_from_disk"]]
    kinds = {}
    from .c02 import splitter_calls

    for f in (ld, ed):
        for st, call in splitter_calls(ctx, f):
            k = splitter_of(ctx, f, call)
            kinds[f.short] = (k[0], k[1].text if k[0] == "regex" else unparse(k[1]), st, f, k)
    if len(kinds) < 2:
        raise AnalysisError("splitter use sites not found on both ingestion paths")
    vals = {(v[0], v[1]) for v in kinds.values()}
    f, st = ed, kinds[ed.short][2]
    if len(vals) > 1:
        R.violation("C13.R3", f.short, "one splitter for both ingestion paths", loc(f, st), f"a file read from disk and the same text sent by the editor are split differently: {sorted(vals)}")
        return
    kind, txt = next(iter(vals))
    k = kinds[ed.short][4]
    if kind == "regex" and k[1].tree is not None and rex.language(k[1].tree) == {"\n", "\r\n", "\r"} and first_match_on(k[1].tree, "\r\n") == "\r\n":
        R.ok("C13.R3", f.short, "one splitter for both ingestion paths", loc(f, st), f"{txt!r}: LF, CRLF, CR")
    else:
        R.violation("C13.R3", f.short, "one splitter for both ingestion paths", loc(f, st), f"the common splitter {txt!r} does not treat LF, CRLF and CR alike: the index depends on the file's line endings")


# ------------------------------------------------------------------- R4
def _blank_repeat(op, av):
    if op in rex.REPEATS and av[0] == 0:
        body = rex.items(av[2])
        if len(body) == 1:
            cs = rex.atom_chars(*body[0])
            return cs is not None and " " in cs
    return False


def tolerant_end(sub):
    """Every end anchor of the pattern tolerates trailing blanks: blanks are
    consumed right before it, or it sits in an alternation with a branch that
    consumes blanks."""
    Cn = rex.C

    def check_seq(seq, sibling_blank=False):
        seq = rex.items(seq)
        ok = True
        for i, (op, av) in enumerate(seq):
            if op is Cn.AT and av in (Cn.AT_END, Cn.AT_END_STRING):
                prev = seq[i - 1] if i > 0 else None
                if not (sibling_blank or (prev is not None and _blank_repeat(*prev))):
                    ok = False
            elif op is Cn.SUBPATTERN:
                ok = check_seq(av[3], sibling_blank) and ok
            elif op is Cn.BRANCH:
                alts = av[1]
                blanky = any(rex.items(a) and (_first_is_blank(rex.items(a)[0])) and _rest_ok_at_end(rex.items(a)[1:]) for a in alts)
                for a in alts:
                    ok = check_seq(a, sibling_blank or blanky) and ok
            elif op in rex.REPEATS:
                ok = check_seq(av[2], sibling_blank) and ok
        return ok

    def _rest_ok_at_end(rest):
        """can the items after the blank run match the empty remainder (blanks were the last
        characters of the text)?  `(?!\\W)` holds at the end of the text, `(?=\\w)` does not."""
        for op, av in rest:
            if op is Cn.AT:
                if av in (Cn.AT_END, Cn.AT_END_STRING, Cn.AT_BOUNDARY, Cn.AT_NON_BOUNDARY):
                    continue
                return False
            if op is Cn.ASSERT_NOT:
                # negative look-ahead of something that needs a character: true at the end
                _, nullable = rex.first_chars(av[1], False)
                if av[0] == 1 and not nullable:
                    continue
                return False
            if op is Cn.ASSERT:
                _, nullable = rex.first_chars(av[1], False)
                if av[0] == 1 and nullable:
                    continue
                return False  # a look-ahead that needs a character fails at the end of the text
            if op in rex.REPEATS and av[0] == 0:
                continue
            if op is Cn.SUBPATTERN:
                if _rest_ok_at_end(rex.items(av[3])):
                    continue
                return False
            return False
        return True

    def _first_is_blank(item):
        op, av = item
        if op in rex.REPEATS:
            body = rex.items(av[2])
            if len(body) == 1:
                cs = rex.atom_chars(*body[0])
                return cs is not None and " " in cs
        return False

    return check_seq(sub)


def has_end_anchor(sub):
    return any(op is rex.C.AT and av in (rex.C.AT_END, rex.C.AT_END_STRING) for op, av in rex.walk(sub))


def r4(ctx, R):
    R.rule("C13.R4", "end-anchored statement patterns tolerate trailing blanks (in the pattern, or the text is right-stripped at the use site)", floor=4, confirmed=6)
    from .c03 import indexing_funcs

    reach = indexing_funcs(ctx)
    for f, call, method, name in ctx.p.use_sites():
        if f.qual not in reach and not (f.parent and f.parent in reach):
            continue
        rx_ = ctx.p.named[name]
        if rx_.tree is None or not has_end_anchor(rx_.tree):
            continue
        st = ctx.m.enclosing_stmt(call)
        k = f"{name}.{method} in {key(f, st)[:70]}"
        if tolerant_end(rx_.tree):
            R.ok("C13.R4", f.short, k, loc(f, call), "pattern consumes blanks before its end anchor")
            continue
        arg = call.args[0] if method not in RE_FUNCS_MODULE else (call.args[1] if len(call.args) > 1 else None)
        a = deref(ctx, f, arg) if arg is not None else None
        stripped = isinstance(a, ast.Call) and isinstance(a.func, ast.Attribute) and a.func.attr in ("rstrip", "strip")
        if stripped:
            R.ok("C13.R4", f.short, k, loc(f, call), "argument is right-stripped")
        else:
            R.violation("C13.R4", f.short, k, loc(f, call), f"{name} = {rx_.text!r} requires the statement to end right after the keyword; with trailing blanks the statement is not recognised")


RE_FUNCS_MODULE = ()


def r5(ctx, R):
    R.rule("C13.R5", "statements are split on `;` only outside character literals and comments: the text that is split is the literal-blanked copy, cut at the comment start", floor=2, confirmed=3)
    from .shared import deref, reaching_defs

    p = ctx.m.fn("FortranFile.parse")
    splits = [c for c in calls_in(p.node) if isinstance(c.func, ast.Attribute) and c.func.attr == "split" and c.args and isinstance(c.args[0], ast.Constant) and c.args[0].value == ";" and isinstance(c.func.value, ast.Name)]
    if not splits:
        raise AnalysisError("FortranFile.parse: no split on ';'")
    for c in splits:
        X = c.func.value.id
        # the family of X: the locals X is a plain copy or a prefix slice of (the blanked text may be
        # built under another name, e.g. by an inlined helper, and copied into X)
        family = {X}
        fam_defs = []  # (stmt, target name, value)
        for _ in range(5):
            for st in ctx.m.walk_own(p.node):
                if isinstance(st, ast.Assign) and len(st.targets) == 1 and isinstance(st.targets[0], ast.Name) and st.targets[0].id in family and st.lineno <= c.lineno:
                    v = st.value
                    base = v.value if isinstance(v, ast.Subscript) and isinstance(v.slice, ast.Slice) else v
                    if isinstance(base, ast.Name):
                        family.add(base.id)
        for st in ctx.m.walk_own(p.node):
            if isinstance(st, ast.Assign) and len(st.targets) == 1 and isinstance(st.targets[0], ast.Name) and st.targets[0].id in family and st.lineno <= c.lineno:
                fam_defs.append((st, st.targets[0].id, st.value))
        vals = [v for _, _, v in fam_defs]
        blanked = [v for v in vals if isinstance(v, ast.Call) and any(q.endswith("strip_strings") for q in ctx.r.resolve_call(p, v)[1])]
        okb = bool(blanked) and all(any(kw.arg == "maintain_len" and isinstance(kw.value, ast.Constant) and kw.value.value is True for kw in v.keywords) or (len(v.args) > 1 and isinstance(v.args[1], ast.Constant) and v.args[1].value is True) for v in blanked)
        rest = [v for v in vals if v not in blanked]
        derived = lambda v: (isinstance(v, ast.Name) and v.id in family) or (isinstance(v, ast.Subscript) and isinstance(v.slice, ast.Slice) and isinstance(v.value, ast.Name) and v.value.id in family)
        if okb and all(derived(v) for v in rest):
            R.ok("C13.R5", p.short, f"`{X}` is the literal-blanked line", loc(p, c))
        else:
            R.violation("C13.R5", p.short, f"`{X}` is the literal-blanked line", loc(p, c), f"the text split on `;` is not (only) the copy with character literals blanked at the same length: a `;` inside a string splits the statement")
        # comment cut: C = <family>.find("!"); on the found path <family> = <family>[:C]
        cvar = None
        for st in ctx.m.walk_own(p.node):
            if isinstance(st, ast.Assign) and isinstance(st.targets[0], ast.Name) and isinstance(st.value, ast.Call) and isinstance(st.value.func, ast.Attribute) and st.value.func.attr in ("find", "index") and isinstance(st.value.func.value, ast.Name) and st.value.func.value.id in family and st.value.args and isinstance(st.value.args[0], ast.Constant) and st.value.args[0].value == "!" and st.lineno < c.lineno:
                cvar = st.targets[0].id
        cut = False
        if cvar:
            cfg = ctx.cfg(p)
            cuts = set()
            for st in ctx.m.walk_own(p.node):
                if not isinstance(st, ast.Assign):
                    continue
                pairs = []
                for t in st.targets:
                    if isinstance(t, ast.Tuple) and isinstance(st.value, ast.Tuple) and len(t.elts) == len(st.value.elts):
                        pairs += list(zip(t.elts, st.value.elts))
                    else:
                        pairs.append((t, st.value))
                for t, v in pairs:
                    # the value that reaches the split (X) is assigned a prefix cut at the comment start
                    if unparse(t) == X and isinstance(v, ast.Subscript) and isinstance(v.slice, ast.Slice) and v.slice.lower is None and v.slice.upper is not None and unparse(v.slice.upper) == cvar and isinstance(v.value, ast.Name) and v.value.id in family and cfg.node_of(st) is not None:
                        cuts.add(cfg.node_of(st).id)
            tests = [st for st in ctx.m.walk_own(p.node) if isinstance(st, ast.If) and unparse(st.test) in (f"{cvar} >= 0", f"{cvar} > -1", f"{cvar} != -1", f"{cvar} < 0", f"{cvar} == -1") and st.lineno < c.lineno]
            target = cfg.node_of(c)
            for st in tests:
                found_arm = st.body if unparse(st.test) in (f"{cvar} >= 0", f"{cvar} > -1", f"{cvar} != -1") else st.orelse
                if not found_arm:
                    continue
                start = cfg.node_of(found_arm[0])
                if start is None or target is None:
                    continue
                # can the split be reached from the comment-found arm without passing a cut?
                seen, stack, leak = set(), [start.id], False
                while stack:
                    i = stack.pop()
                    if i in seen:
                        continue
                    seen.add(i)
                    if i in cuts:
                        continue
                    if i == target.id:
                        leak = True
                        break
                    stack.extend(t for t, lab in cfg.nodes[i].succs if lab != "exc")
                cut = not leak
        if cut:
            R.ok("C13.R5", p.short, f"`{X}` is cut at the comment start before the split", loc(p, c))
        else:
            R.violation("C13.R5", p.short, f"`{X}` is cut at the comment start before the split", loc(p, c), "the trailing comment is still part of the text that is split on `;`: adding an ordinary comment such as `! old: x = 0; end` changes the entities found (a spurious statement is parsed, a scope is closed early)")
        # the pieces replace the statement text that the readers see
        st = ctx.m.enclosing_stmt(c)
        par = ctx.m.parent.get(st)
        if isinstance(par, ast.If) and X in unparse(par.test) and "';'" in unparse(par.test).replace('"', "'"):
            R.ok("C13.R5", p.short, "split only when a `;` is present outside literals and comments", loc(p, par))
        else:
            R.undecided("C13.R5", p.short, "split guarded by a `;` test on the same text", loc(p, c), "guard not recognised")


def r6(ctx, R):
    R.rule("C13.R6", "a statement means the same after a `;` as on a line of its own: its label is stripped on every path into the labelled-DO closer", floor=1, confirmed=1)
    from .c14 import label_provenance, parse_label_sites

    sites = parse_label_sites(ctx)
    if sites is None:
        R.undecided("C13.R6", "FortranFile.parse", "label stripping", "fortls:0", "strip_line_label / labelled-DO closer not found in the statement loop")
        return
    pf, st, label_var, closer = sites
    label_provenance(ctx, R, "C13.R6", pf, closer, st, label_var)


def run(ctx, R):
    r1(ctx, R)
    r2(ctx, R)
    r3(ctx, R)
    r4(ctx, R)
    r5(ctx, R)
    r6(ctx, R)
