"""C07 — diagnostics: nothing the checkers find gets lost or multiplies on the
way to the client (DESIGN.md 3/C07).  Silence on valid programs and detection
at every seeding position are behavioural and not decided here."""
from __future__ import annotations

import ast

from sa.model import AnalysisError, access_path, unparse

from .shared import calls_in, defs_of, deref, dispatch_table, key, loc, server_class


def diag_class(ctx):
    c = ctx.m.cname.get("Diagnostic")
    if not c:
        raise AnalysisError("Diagnostic class not found")
    return c


def constructions(ctx):
    """[(func, call)] of Diagnostic(...) constructions"""
    out = []
    for f in ctx.m.funcs.values():
        if f.rel.endswith("debug.py"):
            continue
        for c in calls_in(f.node):
            if ctx.m.enclosing_func(c) is not f:
                continue
            if isinstance(c.func, ast.Name) and c.func.id == "Diagnostic":
                out.append((f, c))
    return out


def aggregator(ctx):
    """The AST-level method that loops over scopes and calls the per-scope checkers."""
    best = None
    for f in ctx.m.funcs.values():
        if not f.cls or ctx.m.classes[f.cls].name != "FortranAST":
            continue
        names = {c.func.attr for c in calls_in(f.node) if isinstance(c.func, ast.Attribute)}
        if len(names & {"check_use", "check_definitions", "get_diagnostics", "check_valid_parent"}) >= 2:
            best = f
    if best is None:
        raise AnalysisError("diagnostic aggregator (FortranAST method calling the per-scope checkers) not found")
    return best


def _flows_to(ctx, f, name_or_none, call, result_names):
    """Does the value of `call` reach one of the returned lists: aug-assign /
    extend / append onto a name in result_names, or a direct return?"""
    st = ctx.m.enclosing_stmt(call)
    if isinstance(st, ast.AugAssign) and isinstance(st.target, ast.Name) and st.target.id in result_names:
        return True
    if isinstance(st, ast.Expr) and isinstance(st.value, ast.Call) and isinstance(st.value.func, ast.Attribute) and st.value.func.attr in ("extend", "append") and isinstance(st.value.func.value, ast.Name) and st.value.func.value.id in result_names:
        return any(x is call for a in st.value.args for x in ast.walk(a))
    if isinstance(st, ast.Return):
        return True
    if isinstance(st, ast.Assign) and isinstance(st.targets[0], ast.Name) and st.targets[0].id in result_names:
        return True
    return False


def returned_names(ctx, f):
    out = set()
    for r in (n for n in ctx.m.walk_own(f.node) if isinstance(n, ast.Return) and n.value is not None):
        vals = r.value.elts if isinstance(r.value, ast.Tuple) else [r.value]
        for v in vals:
            if isinstance(v, ast.Name):
                out.add(v.id)
    return out


def r1(ctx, R):
    R.rule("C07.R1", "the aggregation chain is complete: every checker's findings reach the published list", floor=10, confirmed=16)
    agg = aggregator(ctx)
    res = returned_names(ctx, agg)
    # (1) every function that constructs diagnostics is reachable from the aggregator
    reach = ctx.r.reachable({agg.qual}, by_name=True)
    for f, c in constructions(ctx):
        if "action" in f.name:
            continue  # code actions: not part of publishDiagnostics
        k = f"{f.short} constructs diagnostics"
        if f.qual in reach:
            pass
        else:
            R.violation("C07.R1", f.short, k, loc(f, c), f"{f.short} builds diagnostics but is not reachable from {agg.short}: what it finds is never published")
    producers = sorted({f.qual for f, c in constructions(ctx) if "action" not in f.name})
    for q in producers:
        if q in reach:
            R.ok("C07.R1", ctx.m.funcs[q].short, "reachable from the aggregator", loc(ctx.m.funcs[q], ctx.m.funcs[q].node))
    # (2) per-scope checker results are added to the result list
    loops = [lp for lp in ctx.m.walk_own(agg.node) if isinstance(lp, ast.For)]
    scope_loop = None
    for lp in loops:
        if any(isinstance(c.func, ast.Attribute) and c.func.attr in ("check_use", "check_definitions", "get_diagnostics") for c in calls_in(lp)):
            scope_loop = lp
    if scope_loop is None:
        R.violation("C07.R1", agg.short, "scope loop", loc(agg, agg.node), "no loop over the scopes")
        return
    var = scope_loop.target.id if isinstance(scope_loop.target, ast.Name) else None
    for c in calls_in(scope_loop):
        if isinstance(c.func, ast.Attribute) and isinstance(c.func.value, ast.Name) and c.func.value.id == var:
            k_, tg = ctx.r.resolve_call(agg, c)
            returns_diags = c.func.attr in ("check_use", "check_definitions", "get_diagnostics")
            if not returns_diags:
                continue
            st = ctx.m.enclosing_stmt(c)
            if _flows_to(ctx, agg, None, c, res):
                R.ok("C07.R1", agg.short, key(agg, st), loc(agg, c), "result added to the returned list")
            else:
                R.violation("C07.R1", agg.short, key(agg, st), loc(agg, c), f"the result of {c.func.attr}() is discarded")
    # the loop runs over scope_list (+ none_scope)
    it = deref(ctx, agg, scope_loop.iter)
    srcs = set()
    if isinstance(scope_loop.iter, ast.Name):
        for st, v in defs_of(ctx, agg, scope_loop.iter.id):
            if v is not None:
                srcs |= {x.attr for x in ast.walk(v) if isinstance(x, ast.Attribute)}
            elif isinstance(st, ast.AugAssign):
                srcs |= {x.attr for x in ast.walk(st.value) if isinstance(x, ast.Attribute)}
    else:
        srcs |= {x.attr for x in ast.walk(scope_loop.iter) if isinstance(x, ast.Attribute)}
    if isinstance(scope_loop.iter, ast.Name):
        # elements added in place: xs.append(self.none_scope) / xs.extend(..) / xs.insert(..)
        for c in calls_in(agg.node):
            if isinstance(c.func, ast.Attribute) and c.func.attr in ("append", "extend", "insert") and isinstance(c.func.value, ast.Name) and c.func.value.id == scope_loop.iter.id and c.lineno < scope_loop.lineno:
                srcs |= {x.attr for a_ in c.args for x in ast.walk(a_) if isinstance(x, ast.Attribute)}
    if "scope_list" in srcs and "none_scope" in srcs:
        R.ok("C07.R1", agg.short, "loop covers scope_list and the none-scope", loc(agg, scope_loop))
    else:
        R.violation("C07.R1", agg.short, "loop covers scope_list and the none-scope", loc(agg, scope_loop), f"the checkers run over {sorted(srcs)}: " + ("top-level declarations outside any program unit are not checked" if "none_scope" not in srcs else "scopes are missing"))
    # (3) end_errors -> one diagnostic each
    el = [lp for lp in loops if "end_errors" in unparse(lp.iter)]
    # ... or a comprehension over end_errors whose elements are diagnostics, extended / added to the result
    comp = [c for c in calls_in(agg.node) if isinstance(c.func, ast.Attribute) and c.func.attr in ("extend",) and isinstance(c.func.value, ast.Name) and c.func.value.id in res and c.args and isinstance(c.args[0], (ast.ListComp, ast.GeneratorExp)) and any("end_errors" in unparse(g_.iter) for g_ in c.args[0].generators) and not any(g_.ifs for g_ in c.args[0].generators) and isinstance(c.args[0].elt, ast.Call) and unparse(c.args[0].elt.func) == "Diagnostic"]
    if el and any(isinstance(c.func, ast.Attribute) and c.func.attr == "append" and isinstance(c.func.value, ast.Name) and c.func.value.id in res for c in calls_in(el[0])):
        R.ok("C07.R1", agg.short, "one diagnostic per unexpected END", loc(agg, el[0]))
    elif comp:
        R.ok("C07.R1", agg.short, "one diagnostic per unexpected END", loc(agg, comp[0]), "comprehension over end_errors")
    else:
        R.violation("C07.R1", agg.short, "one diagnostic per unexpected END", loc(agg, agg.node), "end_errors recorded by the parser are not turned into diagnostics")
    # (4) parse errors returned
    rets = [r for r in ctx.m.walk_own(agg.node) if isinstance(r, ast.Return) and r.value is not None]
    if rets and all("parse_errors" in unparse(r.value) for r in rets):
        R.ok("C07.R1", agg.short, key(agg, rets[0]), loc(agg, rets[0]), "parse errors returned alongside")
    else:
        R.violation("C07.R1", agg.short, key(agg, rets[0]) if rets else "return", loc(agg, rets[0] if rets else agg.node), "diagnostics recorded while parsing (parse_errors) are not returned")
    # (5) file level: both parts added, every error built
    fl = None
    for f in ctx.m.funcs.values():
        for c in calls_in(f.node):
            k_, tg = ctx.r.resolve_call(f, c)
            if agg.qual in tg and f is not agg and not f.rel.endswith("debug.py"):
                fl = (f, c)
    if fl is None:
        R.violation("C07.R1", agg.short, "file-level collector", loc(agg, agg.node), "nobody calls the aggregator")
        return
    f, c = fl
    st = ctx.m.enclosing_stmt(c)
    fres = returned_names(ctx, f)
    if isinstance(st, ast.Assign) and isinstance(st.targets[0], ast.Tuple) and len(st.targets[0].elts) == 2:
        e_name, d_name = [x.id for x in st.targets[0].elts]
        d_added = any(isinstance(s2, ast.AugAssign) and isinstance(s2.target, ast.Name) and s2.target.id in fres and isinstance(s2.value, ast.Name) and s2.value.id == d_name for s2 in ctx.m.walk_own(f.node)) or any(isinstance(x, ast.Call) and isinstance(x.func, ast.Attribute) and x.func.attr == "extend" and any(isinstance(a, ast.Name) and a.id == d_name for a in x.args) for x in calls_in(f.node))
        e_built = any(isinstance(lp, ast.For) and isinstance(lp.iter, ast.Name) and lp.iter.id == e_name and any(isinstance(x.func, ast.Attribute) and x.func.attr == "append" and any(isinstance(y, ast.Call) and isinstance(y.func, ast.Attribute) and y.func.attr == "build" for a in x.args for y in ast.walk(a)) for x in calls_in(lp)) for lp in ctx.m.walk_own(f.node))
        if not e_built:
            # comprehension form: result.extend([e.build(..) for e in errors]) / result += [...]
            for comp in (x for x in ctx.m.walk_own(f.node) if isinstance(x, (ast.ListComp, ast.GeneratorExp))):
                if len(comp.generators) == 1 and not comp.generators[0].ifs and isinstance(comp.generators[0].iter, ast.Name) and comp.generators[0].iter.id == e_name and any(isinstance(y, ast.Call) and isinstance(y.func, ast.Attribute) and y.func.attr == "build" for y in ast.walk(comp.elt)):
                    par = ctx.m.parent.get(comp)
                    stc = ctx.m.enclosing_stmt(comp)
                    into = (isinstance(par, ast.Call) and isinstance(par.func, ast.Attribute) and par.func.attr == "extend" and isinstance(par.func.value, ast.Name) and par.func.value.id in fres) or (isinstance(stc, ast.AugAssign) and isinstance(stc.target, ast.Name) and stc.target.id in fres and stc.value is comp) or (isinstance(stc, ast.Return))
                    if into:
                        e_built = True
        if d_added:
            R.ok("C07.R1", f.short, "parse-time diagnostics added", loc(f, st))
        else:
            R.violation("C07.R1", f.short, "parse-time diagnostics added", loc(f, st), f"`{d_name}` (parse errors) is not added to the result")
        if e_built:
            R.ok("C07.R1", f.short, "every checker finding is built and added", loc(f, st))
        else:
            R.violation("C07.R1", f.short, "every checker finding is built and added", loc(f, st), f"`{e_name}` (checker findings) is not converted and added")
    else:
        R.undecided("C07.R1", f.short, key(f, st), loc(f, c), "collector shape not recognised")
    # (6)+(7) publication
    sc = server_class(ctx)
    send = sc.methods.get("send_diagnostics")
    if not send:
        R.undecided("C07.R1", sc.name, "publisher", loc(sc.rel, sc.node), "send_diagnostics not found")
        return
    sf = ctx.m.funcs[send]
    pubs = [c for c in calls_in(sf.node) if isinstance(c.func, ast.Attribute) and c.func.attr == "send_notification" and c.args and isinstance(c.args[0], ast.Constant) and "publishDiagnostics" in str(c.args[0].value)]
    if not pubs:
        R.violation("C07.R1", sf.short, "publishDiagnostics", loc(sf, sf.node), "diagnostics are never published")
    else:
        p = pubs[0]
        payload = p.args[1] if len(p.args) > 1 else None
        uri_param = sf.params[1] if len(sf.params) > 1 else None
        ok_uri = isinstance(payload, ast.Dict) and any(isinstance(k_, ast.Constant) and k_.value == "uri" and isinstance(v, ast.Name) and v.id == uri_param for k_, v in zip(payload.keys, payload.values))
        dval = next((v for k_, v in zip(payload.keys, payload.values) if isinstance(k_, ast.Constant) and k_.value == "diagnostics"), None) if isinstance(payload, ast.Dict) else None
        unchanged = isinstance(dval, ast.Name)
        if ok_uri and unchanged:
            R.ok("C07.R1", sf.short, key(sf, ctx.m.enclosing_stmt(p)), loc(sf, p), "list published unchanged under the document's URI")
        else:
            R.violation("C07.R1", sf.short, key(sf, ctx.m.enclosing_stmt(p)), loc(sf, p), "the published notification does not carry the computed list under the document's own URI")
    for q in dispatch_table(ctx).get("textDocument/didSave", ()):
        g = ctx.m.funcs[q]
        calls = [c for c in calls_in(g.node) if send in ctx.r.resolve_call(g, c)[1]]
        if not calls:
            R.violation("C07.R1", g.short, "diagnostics sent after save/open", loc(g, g.node), "saving or opening a file never publishes diagnostics")
            continue
        c = calls[0]
        # enclosing conditions (early returns for error / deleted-file paths are fine)
        extra = []
        cur = ctx.m.parent.get(ctx.m.enclosing_stmt(c))
        while cur is not None and not isinstance(cur, (ast.FunctionDef, ast.AsyncFunctionDef)):
            if isinstance(cur, (ast.If, ast.While)) and "disable_diagnostics" not in unparse(cur.test):
                extra.append(unparse(cur.test))
            elif isinstance(cur, (ast.For, ast.Try)):
                extra.append(type(cur).__name__.lower() + " block")
            cur = ctx.m.parent.get(cur)
        if extra:
            R.violation("C07.R1", g.short, key(g, ctx.m.enclosing_stmt(c)), loc(g, c), f"diagnostics are only sent under {extra[0]!r}: e.g. an unchanged file re-saved, or a file without cross-file changes, gets no (updated) diagnostics")
        else:
            R.ok("C07.R1", g.short, key(g, ctx.m.enclosing_stmt(c)), loc(g, c), "sent on every non-error path unless disable_diagnostics")


def r2(ctx, R):
    R.rule("C07.R2", "no diagnostic that is constructed is dropped before it reaches the returned list", floor=10, confirmed=16)
    for f, c in constructions(ctx):
        st = ctx.m.enclosing_stmt(c)
        k = key(f, st)[:100]
        par = ctx.m.parent.get(c)
        # directly appended / returned
        if isinstance(par, ast.Call) and isinstance(par.func, ast.Attribute) and par.func.attr in ("append", "extend", "insert"):
            R.ok("C07.R2", f.short, k, loc(f, c), "constructed inside append()")
            continue
        # element of a comprehension / generator / display that is itself appended, extended, added or returned
        up = par
        while isinstance(up, (ast.ListComp, ast.GeneratorExp, ast.List, ast.Tuple, ast.IfExp, ast.Starred)):
            up = ctx.m.parent.get(up)
        if up is not par:
            if isinstance(up, ast.Call) and isinstance(up.func, ast.Attribute) and up.func.attr in ("append", "extend", "insert"):
                R.ok("C07.R2", f.short, k, loc(f, c), "constructed inside extend(<comprehension>)")
                continue
            if isinstance(up, ast.Return) or (isinstance(up, ast.AugAssign) and isinstance(up.op, ast.Add)):
                R.ok("C07.R2", f.short, k, loc(f, c), "constructed inside the returned / added sequence")
                continue
        if isinstance(st, ast.Return):
            R.ok("C07.R2", f.short, k, loc(f, c), "returned directly")
            continue
        if isinstance(st, ast.Assign) and isinstance(st.targets[0], ast.Name):
            v = st.targets[0].id
            cfg = ctx.cfg(f)
            n0 = cfg.node_of(st)

            def uses(n):
                a = n.ast
                if a is None or n.kind not in ("stmt", "test"):
                    return False
                for x in ast.walk(a):
                    if isinstance(x, ast.Call) and isinstance(x.func, ast.Attribute) and x.func.attr in ("append", "extend", "insert") and any(isinstance(y, ast.Name) and y.id == v for a_ in x.args for y in ast.walk(a_)):
                        return True
                    if isinstance(x, ast.Return) and x.value is not None and any(isinstance(y, ast.Name) and y.id == v for y in ast.walk(x.value)):
                        return True
                    # `errors += found` adds the elements of `found`
                    if isinstance(x, ast.AugAssign) and isinstance(x.op, ast.Add) and any(isinstance(y, ast.Name) and y.id == v for y in ast.walk(x.value)):
                        return True
                return False

            sinks = {n.id for n in cfg.nodes if uses(n)}
            redefs = {n.id for n in cfg.nodes if n is not n0 and n.kind == "stmt" and isinstance(n.ast, ast.Assign) and any(isinstance(t, ast.Name) and t.id == v for t in n.ast.targets)}
            seen = cfg.reachable_without([t for t, lab in n0.succs if not (lab and lab[0] == "exc")], sinks, follow_exc=False)
            lost = cfg.exit.id in seen or (seen & redefs)
            # loop back to the same construction also overwrites it
            if n0.id in seen:
                lost = True
            if lost:
                R.violation("C07.R2", f.short, k, loc(f, c), f"the diagnostic bound to `{v}` can reach the end of {f.short} (or be overwritten) without being appended or returned: the finding is silently dropped")
            else:
                R.ok("C07.R2", f.short, k, loc(f, c), f"`{v}` is appended/returned on every path")
            continue
        R.violation("C07.R2", f.short, k, loc(f, c), "a diagnostic is constructed and discarded")
    # a single diagnostic handed back by a callee (possibly inside a tuple) must be
    # added by the caller
    returns_diag = {}
    for f, c in constructions(ctx):
        st = ctx.m.enclosing_stmt(c)
        names = set()
        if isinstance(st, ast.Assign) and isinstance(st.targets[0], ast.Name) and st.value is c:
            # (a construction nested in a comprehension/display binds a *sequence*, not one diagnostic)
            names.add(st.targets[0].id)
        for r in (n for n in ctx.m.walk_own(f.node) if isinstance(n, ast.Return) and n.value is not None):
            vals = r.value.elts if isinstance(r.value, ast.Tuple) else [r.value]
            for i, v in enumerate(vals):
                if (isinstance(v, ast.Name) and v.id in names) or v is c:
                    returns_diag[f.qual] = i if isinstance(r.value, ast.Tuple) else None
    for f in ctx.m.funcs.values():
        if f.rel.endswith("debug.py"):
            continue
        for c in calls_in(f.node):
            if ctx.m.enclosing_func(c) is not f:
                continue
            k_, tg = ctx.r.resolve_call(f, c)
            hit = [t for t in tg if t in returns_diag] if k_ not in ("external", "unknown") else []
            if not hit:
                continue
            idx = returns_diag[hit[0]]
            st = ctx.m.enclosing_stmt(c)
            name = None
            if isinstance(st, ast.Assign):
                t = st.targets[0]
                if idx is None and isinstance(t, ast.Name):
                    name = t.id
                elif idx is not None and isinstance(t, ast.Tuple) and idx < len(t.elts) and isinstance(t.elts[idx], ast.Name):
                    name = t.elts[idx].id
            k = key(f, st)[:100]
            if name is None:
                if isinstance(st, ast.Return) or (isinstance(ctx.m.parent.get(c), ast.Call) and getattr(ctx.m.parent.get(c).func, "attr", "") in ("append", "extend")):
                    R.ok("C07.R2", f.short, k, loc(f, c), "callee's diagnostic passed on directly")
                else:
                    R.violation("C07.R2", f.short, k, loc(f, c), "the diagnostic returned by the callee is not kept")
                continue
            used = False
            for x in ctx.m.walk_own(f.node):
                if isinstance(x, ast.Call) and isinstance(x.func, ast.Attribute) and x.func.attr in ("append", "extend", "insert") and any(isinstance(y, ast.Name) and y.id == name for a_ in x.args for y in ast.walk(a_)):
                    used = True
                if isinstance(x, ast.Return) and x.value is not None and any(isinstance(y, ast.Name) and y.id == name for y in ast.walk(x.value)):
                    used = True
                if isinstance(x, ast.AugAssign) and any(isinstance(y, ast.Name) and y.id == name for y in ast.walk(x.value)):
                    used = True
            if used:
                R.ok("C07.R2", f.short, k, loc(f, c), f"`{name}` (the callee's diagnostic) is added to the result")
            else:
                R.violation("C07.R2", f.short, k, loc(f, c), f"`{name}` receives the diagnostic found by {hit[0].split(':')[1]} but is never added to the result: the finding is silently dropped")
    # parse-time errors go through add_error, which appends
    for f in ctx.m.funcs.values():
        if f.name == "add_error" and f.cls:
            ok = any(isinstance(c.func, ast.Attribute) and c.func.attr == "append" and "parse_errors" in unparse(c.func.value) for c in calls_in(f.node))
            if ok:
                R.ok("C07.R2", f.short, "add_error appends to parse_errors", loc(f, f.node))
            else:
                R.violation("C07.R2", f.short, "add_error appends to parse_errors", loc(f, f.node), "errors found while parsing are not recorded")


def _sev_value(ctx, f, e):
    if isinstance(e, ast.Constant) and isinstance(e.value, int):
        return e.value
    if isinstance(e, ast.Attribute) and isinstance(e.value, ast.Name) and e.value.id == "Severity":
        c = ctx.m.cname.get("Severity")
        if c:
            for st in ctx.m.classes[c].node.body:
                if isinstance(st, ast.Assign) and isinstance(st.targets[0], ast.Name) and st.targets[0].id == e.attr and isinstance(st.value, ast.Constant):
                    return st.value.value
    return None


def r3(ctx, R):
    R.rule("C07.R3", "every severity is a protocol value (1 error, 2 warning, 3 information, 4 hint is not used)", floor=15, confirmed=22)
    for f, c in constructions(ctx):
        sev = None
        for kw in c.keywords:
            if kw.arg == "severity":
                sev = kw.value
        if sev is None and len(c.args) > 2:
            sev = c.args[2]
        k = key(f, ctx.m.enclosing_stmt(c))[:90]
        if sev is None:
            R.ok("C07.R3", f.short, k, loc(f, c), "default severity 1")
            continue
        v = _sev_value(ctx, f, sev)
        if v in (1, 2, 3):
            R.ok("C07.R3", f.short, k, loc(f, c), f"severity {v}")
        elif v is None:
            R.undecided("C07.R3", f.short, k, loc(f, c), f"severity {unparse(sev)} not constant")
        else:
            R.violation("C07.R3", f.short, k, loc(f, c), f"severity {v} is not one of the values the property's diagnostics use (1 error, 2 warning, 3 information)")
    for f in ctx.m.funcs.values():
        if f.rel.endswith("debug.py"):
            continue
        for c in calls_in(f.node):
            if ctx.m.enclosing_func(c) is not f:
                continue
            if isinstance(c.func, ast.Attribute) and c.func.attr == "add_error" and len(c.args) >= 2:
                v = _sev_value(ctx, f, c.args[1])
                k = key(f, ctx.m.enclosing_stmt(c))[:90]
                if v in (1, 2, 3):
                    R.ok("C07.R3", f.short, k, loc(f, c), f"severity {v}")
                elif v is None:
                    R.undecided("C07.R3", f.short, k, loc(f, c), "severity not constant")
                else:
                    R.violation("C07.R3", f.short, k, loc(f, c), f"severity {v} is not a protocol value in use")


def r4(ctx, R):
    R.rule("C07.R4", "computing diagnostics does not change the index (two saves in a row publish the same list)", floor=1, confirmed=1)
    from .c10 import r1 as c10r1

    sc = server_class(ctx)
    gd = sc.methods.get("get_diagnostics")
    if not gd:
        raise AnalysisError("get_diagnostics not found")
    c10r1(ctx, R, rule="C07.R4", entries={gd: ["(diagnostics)"]})


def r5(ctx, R):
    R.rule("C07.R5", "look-ups that decide a diagnostic search the whole host chain: the masking and type checks call the resolver on the parent scope without restricting it to that scope", floor=1, confirmed=2)
    fis = ctx.m.fn("find_in_scope")
    producers = {f.qual for f, _ in [(ff, c) for ff, c, *_ in constructions(ctx)]} if False else None
    n = 0
    for f in ctx.m.funcs.values():
        if f.rel.endswith("debug.py"):
            continue
        builds = any(isinstance(c.func, ast.Name) and c.func.id == "Diagnostic" for c in calls_in(f.node))
        if not builds:
            continue
        for c in calls_in(f.node):
            if ctx.m.enclosing_func(c) is not f or fis.qual not in ctx.r.resolve_call(f, c)[1]:
                continue
            n += 1
            lo = next((kw.value for kw in c.keywords if kw.arg == "local_only"), c.args[4] if len(c.args) > 4 else None)
            st = ctx.m.enclosing_stmt(c)
            k = key(f, st)[:90]
            if lo is not None and not (isinstance(lo, ast.Constant) and lo.value is False):
                R.violation("C07.R5", f.short, k, loc(f, c), "the look-up behind this diagnostic is restricted to one scope (local_only): a variable declared further out than the direct parent (module variable masked in an internal procedure, BLOCK inside DO) is not found and the diagnostic is silently dropped")
            else:
                R.ok("C07.R5", f.short, k, loc(f, c), "full host chain searched")
    if n == 0:
        raise AnalysisError("no resolver call in diagnostic-producing code")


def r6(ctx, R):
    R.rule("C07.R6", "state inherited from host scopes (IMPLICIT typing) is looked up through the whole chain: a getter that falls back to the parent asks the parent's getter, not the parent's field", floor=1, confirmed=1)
    base = ctx.m.cname.get("FortranObj")
    n = 0
    for c in sorted(ctx.m.cone(base)):
        for nm, q in ctx.m.classes[c].methods.items():
            f = ctx.m.funcs[q]
            if not nm.startswith("get_"):
                continue
            own = {n_.attr for r in ctx.m.walk_own(f.node) if isinstance(r, ast.Return) and r.value is not None for n_ in ast.walk(r.value) if isinstance(n_, ast.Attribute) and unparse(n_.value) == "self"}
            parent_reads = [n_ for n_ in ctx.m.walk_own(f.node) if isinstance(n_, ast.Attribute) and unparse(n_.value) == "self.parent"]
            if not parent_reads or not own:
                continue
            # fall-back to the host for the same piece of state
            same_field = [n_ for n_ in parent_reads if n_.attr in own]
            recursive = [n_ for n_ in parent_reads if n_.attr == nm and isinstance(ctx.m.parent.get(n_), ast.Call)]
            if not same_field and not recursive:
                continue
            n += 1
            if same_field and not recursive:
                R.violation("C07.R6", f.short, f"{nm}: host fall-back", loc(f, same_field[0]), f"the fall-back reads `self.parent.{same_field[0].attr}` directly: only the immediate host is consulted, so IMPLICIT NONE of a module does not reach a procedure nested two levels down and its undeclared dummy arguments are not reported")
            else:
                R.ok("C07.R6", f.short, f"{nm}: host fall-back", loc(f, recursive[0]), f"asks self.parent.{nm}()")
    if n == 0:
        raise AnalysisError("no getter with a host fall-back found (get_implicit expected)")


def r8(ctx, R):
    R.rule("C07.R8", "building a diagnostic is total: a related location is only turned into a URI when its path exists - declarations found in intrinsic modules have no file", floor=1, confirmed=1)
    dc = diag_class(ctx)
    cls = ctx.m.classes[dc]
    # where the stored path becomes a URI
    sinks = []
    for q in cls.methods.values():
        f = ctx.m.funcs[q]
        for c in calls_in(f.node):
            if isinstance(c.func, (ast.Name, ast.Attribute)) and (ctx.m.dotted(f.rel, c.func) or "").split(".")[-1] == "path_to_uri" and c.args:
                p = access_path(c.args[0])
                if p and p.startswith(f.params[0] + "."):
                    sinks.append((f, c, p))
    if not sinks:
        R.ok("C07.R8", cls.name, "no stored path is turned into a URI while building", loc(cls.rel, cls.node))
        return
    for f, c, p in sinks:
        F = ctx.facts(f, interproc=False)
        facts = F.at(c) or set()
        field = p.split(".", 1)[1]
        if ("nonnull", p) in facts or any(fa[0] == "cond" and fa[2] is True and fa[1].replace(" ", "") in (f"{p}isnotNone".replace(" ", ""),) for fa in facts):
            R.ok("C07.R8", f.short, key(f, ctx.m.enclosing_stmt(c))[:90], loc(f, c), f"`{p}` is tested for None before it becomes a URI")
            continue
        # unguarded sink: then every value stored into the field must have a file
        setters = {q for q in cls.methods.values() if any(isinstance(st, ast.Assign) and any(access_path(t) == f"{ctx.m.funcs[q].params[0]}.{field}" for t in st.targets) and isinstance(st.value, ast.Name) and st.value.id in ctx.m.funcs[q].params for st in ctx.m.walk_own(ctx.m.funcs[q].node))}
        bad = []
        for g in ctx.m.funcs.values():
            if g.rel.endswith("debug.py"):
                continue
            for cc in calls_in(g.node):
                if ctx.m.enclosing_func(cc) is not g:
                    continue
                tg = ctx.r.resolve_call(g, cc)[1]
                for sq in tg & setters:
                    sf = ctx.m.funcs[sq]
                    pname = next(st.value.id for st in ctx.m.walk_own(sf.node) if isinstance(st, ast.Assign) and any(access_path(t) == f"{sf.params[0]}.{field}" for t in st.targets) and isinstance(st.value, ast.Name))
                    arg = next((kw.value for kw in cc.keywords if kw.arg == pname), None)
                    if arg is None:
                        idx = sf.params.index(pname) - 1
                        arg = cc.args[idx] if 0 <= idx < len(cc.args) else None
                    if arg is None:
                        continue
                    ap = access_path(arg) or unparse(arg)
                    own = ap.startswith(g.params[0] + ".") if g.params else False
                    gf = (ctx.facts(g, interproc=False).at(cc) or set())
                    guarded = ("nonnull", ap) in gf
                    if not own and not guarded:
                        bad.append((g, cc, ap))
        if bad:
            for g, cc, ap in bad[:4]:
                R.violation("C07.R8", g.short, key(g, ctx.m.enclosing_stmt(cc))[:90], loc(g, cc), f"`{ap}` belongs to an object found by a look-up (it can live in an intrinsic module, whose tree has no path) and reaches path_to_uri in {f.short} untested: a local variable that masks a name of iso_fortran_env makes publishDiagnostics fail, no diagnostics are published for the file")
        else:
            R.ok("C07.R8", f.short, key(f, ctx.m.enclosing_stmt(c))[:90], loc(f, c), "every stored path comes from the reporting object's own file")


def r9(ctx, R):
    R.rule("C07.R9", "each scope is checked on its own: no object created before the scope loop is handed to a per-scope checker that both writes and reads it (a cache shared across scopes makes one scope's answer decide another's)", floor=2, confirmed=3)
    agg = aggregator(ctx)
    summ = ctx.e.summaries()
    loops = [lp for lp in ctx.m.walk_own(agg.node) if isinstance(lp, ast.For)]
    scope_loop = None
    for lp in loops:
        if any(isinstance(c.func, ast.Attribute) and c.func.attr in ("check_use", "check_definitions", "get_diagnostics") for c in calls_in(lp)):
            scope_loop = lp
    if scope_loop is None:
        R.undecided("C07.R9", agg.short, "scope loop", loc(agg, agg.node), "no loop over the scopes")
        return
    var = scope_loop.target.id if isinstance(scope_loop.target, ast.Name) else None
    inside = {id(x) for b in scope_loop.body for x in ast.walk(b)}
    for c in calls_in(scope_loop):
        if not (isinstance(c.func, ast.Attribute) and isinstance(c.func.value, ast.Name) and c.func.value.id == var):
            continue
        k_, tg = ctx.r.resolve_call(agg, c)
        if not tg:
            continue
        st = ctx.m.enclosing_stmt(c)
        bad = None
        for t in sorted(tg):
            g = ctx.m.funcs[t]
            ps = g.params[1:] if g.cls else g.params
            for i, a in enumerate(list(c.args) + [kw.value for kw in c.keywords]):
                pname = ps[i] if i < len(c.args) and i < len(ps) else (c.keywords[i - len(c.args)].arg if i >= len(c.args) else None)
                if pname is None or not isinstance(a, ast.Name):
                    continue
                # the argument object is created outside the loop (shared by all iterations)
                dfs = defs_of(ctx, agg, a.id)
                if not dfs or all(id(d) in inside for d, _ in dfs):
                    continue
                if a.id in agg.params:
                    continue  # the index handed in by the caller: not private state of this pass
                writes = [w for (root, path, kind), w in summ.get(t, {}).items() if root == f"param:{pname}"]
                if not writes:
                    continue
                # written and read back (membership / subscript / get) somewhere below the checker
                def reads_back(q, p, depth=0, seen=None):
                    seen = seen or set()
                    if (q, p) in seen or depth > 3:
                        return False
                    seen.add((q, p))
                    h = ctx.m.funcs[q]
                    for n in ast.walk(h.node):
                        if isinstance(n, ast.Compare) and isinstance(n.ops[0], (ast.In, ast.NotIn)) and isinstance(n.comparators[0], ast.Name) and n.comparators[0].id == p:
                            return True
                        if isinstance(n, ast.Subscript) and isinstance(n.ctx, ast.Load) and isinstance(n.value, ast.Name) and n.value.id == p:
                            return True
                        if isinstance(n, ast.Call) and isinstance(n.func, ast.Attribute) and n.func.attr in ("get", "count", "index") and isinstance(n.func.value, ast.Name) and n.func.value.id == p:
                            return True
                        if isinstance(n, ast.Call):
                            passed = [(j, None) for j, x in enumerate(n.args) if isinstance(x, ast.Name) and x.id == p] + [(None, kw.arg) for kw in n.keywords if isinstance(kw.value, ast.Name) and kw.value.id == p and kw.arg]
                            for j, kwn in passed:
                                for t2 in ctx.r.resolve_call(h, n)[1]:
                                    h2 = ctx.m.funcs[t2]
                                    ps2 = h2.params[1:] if h2.cls else h2.params
                                    p2 = kwn if kwn is not None else (ps2[j] if j < len(ps2) else None)
                                    if p2 in ps2 and reads_back(t2, p2, depth + 1, seen):
                                        return True
                    return False
                def scope_relative_writes(q, p, depth=0, seen=None):
                    """is some value stored into the shared object computed relative to the scope being
                    checked (a call that takes the receiver / its parent)?  A memo of scope-independent
                    look-ups (by name in the global table) shared across scopes changes nothing."""
                    seen = seen or set()
                    if (q, p) in seen or depth > 3:
                        return False
                    seen.add((q, p))
                    h = ctx.m.funcs[q]
                    me = h.params[0] if h.cls and h.params else None
                    for n in ctx.m.walk_own(h.node):
                        vals = []
                        if isinstance(n, ast.Assign) and isinstance(n.targets[0], ast.Subscript) and isinstance(n.targets[0].value, ast.Name) and n.targets[0].value.id == p:
                            vals = [n.value]
                        elif isinstance(n, ast.Call) and isinstance(n.func, ast.Attribute) and n.func.attr in ("setdefault", "add", "append", "update") and isinstance(n.func.value, ast.Name) and n.func.value.id == p:
                            vals = list(n.args)
                        for v in vals:
                            attrs_calls = [x for x in ast.walk(v)]
                            names = {x.id for x in attrs_calls if isinstance(x, ast.Name)}
                            # follow locals one level
                            exprs = [v] + [dv for nm in names for _, dv in defs_of(ctx, h, nm) if dv is not None]
                            def rel(a_, d_=0):
                                """the receiver, something hanging off it, or a local bound to such a value"""
                                if isinstance(a_, ast.Name) and a_.id == me:
                                    return True
                                if isinstance(a_, ast.Attribute):
                                    return rel(a_.value, d_)
                                if isinstance(a_, ast.Name) and d_ < 3:
                                    return any(dv is not None and rel(dv, d_ + 1) for _, dv in defs_of(ctx, h, a_.id))
                                return False

                            for e_ in exprs:
                                for c_ in ast.walk(e_):
                                    if isinstance(c_, ast.Call) and any(rel(a_) for a_ in c_.args):
                                        return True
                                    if isinstance(c_, ast.Call) and isinstance(c_.func, ast.Attribute) and isinstance(c_.func.value, ast.Name) and c_.func.value.id == me and not c_.func.attr.startswith("get_"):
                                        return True
                        if isinstance(n, ast.Call):
                            passed = [(j, None) for j, x in enumerate(n.args) if isinstance(x, ast.Name) and x.id == p] + [(None, kw.arg) for kw in n.keywords if isinstance(kw.value, ast.Name) and kw.value.id == p and kw.arg]
                            for j, kwn in passed:
                                for t2 in ctx.r.resolve_call(h, n)[1]:
                                    h2 = ctx.m.funcs[t2]
                                    ps2 = h2.params[1:] if h2.cls else h2.params
                                    p2 = kwn if kwn is not None else (ps2[j] if j < len(ps2) else None)
                                    if p2 in ps2 and scope_relative_writes(t2, p2, depth + 1, seen):
                                        return True
                    return False

                if reads_back(t, pname):
                    if scope_relative_writes(t, pname):
                        bad = (a.id, g, pname)
                    else:
                        R.undecided("C07.R9", agg.short, key(agg, st) + f" :: {a.id}", loc(agg, c), f"`{a.id}` is shared by all scopes and both written and read below {g.short}, but no stored value is computed relative to the scope being checked (a memo of scope-independent look-ups would be harmless); not decided")
        k = key(agg, st)
        if bad:
            R.violation("C07.R9", agg.short, k, loc(agg, c), f"`{bad[0]}` is created once for the whole file and {bad[1].short} (parameter `{bad[2]}`) both fills and consults it: what one scope resolved is reused in the next - a type accessible in the first scope hides the `not found` error of a later scope that cannot see it")
        else:
            R.ok("C07.R9", agg.short, k, loc(agg, c), "no state shared between iterations")


# ------------------------------------------------------------------ R10
class _Undecidable(Exception):
    pass


def _type_ids(ctx):
    """{NAME: int} of the *_TYPE_ID constants of the package"""
    out = {}
    for rel, cs in ctx.m.consts.items():
        for k, v in cs.items():
            if k.endswith("_TYPE_ID"):
                if isinstance(v, ast.Constant) and type(v.value) is int:
                    out[k] = v.value
                elif isinstance(v, ast.UnaryOp) and isinstance(v.op, ast.USub) and isinstance(v.operand, ast.Constant):
                    out[k] = -v.operand.value
    return out


def _class_type_id(ctx, c, ids):
    """the constant returned by the class's get_type(), or None"""
    q = ctx.m.method(c, "get_type")
    if not q:
        return None
    f = ctx.m.funcs[q]
    rets = [r for r in ctx.m.walk_own(f.node) if isinstance(r, ast.Return)]
    if len(rets) == 1 and isinstance(rets[0].value, ast.Name) and rets[0].value.id in ids:
        return ids[rets[0].value.id]
    if len(rets) == 1 and isinstance(rets[0].value, ast.Constant) and type(rets[0].value.value) is int:
        return rets[0].value.value
    return None


def _eval_valid_parent(fnode, parent_type, ids):
    """Concrete evaluation of a check_valid_parent body for a parent that exists and whose
    get_type() is `parent_type`.  Only the shapes such predicates are written in: if / return /
    assignment of `self.parent.get_type()` / comparisons with integer constants / and-or-not /
    membership in a display of constants.  Anything else: _Undecidable."""
    env = {}
    import operator as op_

    CMP = {ast.Eq: op_.eq, ast.NotEq: op_.ne, ast.Lt: op_.lt, ast.LtE: op_.le, ast.Gt: op_.gt, ast.GtE: op_.ge}

    def ev(e):
        if isinstance(e, ast.Constant):
            return e.value
        if isinstance(e, ast.Name):
            if e.id in env:
                return env[e.id]
            if e.id in ids:
                return ids[e.id]
            raise _Undecidable(f"name {e.id}")
        if isinstance(e, ast.Call) and unparse(e) == "self.parent.get_type()":
            return parent_type
        if isinstance(e, ast.Attribute) and unparse(e) == "self.parent":
            return "<parent>"
        if isinstance(e, ast.UnaryOp) and isinstance(e.op, ast.Not):
            return not ev(e.operand)
        if isinstance(e, ast.UnaryOp) and isinstance(e.op, ast.USub):
            return -ev(e.operand)
        if isinstance(e, ast.BoolOp):
            r = None
            for v in e.values:
                r = ev(v)
                if isinstance(e.op, ast.And) and not r:
                    return r
                if isinstance(e.op, ast.Or) and r:
                    return r
            return r
        if isinstance(e, ast.IfExp):
            return ev(e.body) if ev(e.test) else ev(e.orelse)
        if isinstance(e, (ast.Tuple, ast.List, ast.Set)):
            return [ev(x) for x in e.elts]
        if isinstance(e, ast.Call) and isinstance(e.func, ast.Name) and e.func.id == "range" and not e.keywords:
            return list(range(*[ev(a) for a in e.args]))
        if isinstance(e, ast.BinOp) and isinstance(e.op, (ast.Add, ast.Sub)):
            a, b = ev(e.left), ev(e.right)
            if type(a) is int and type(b) is int:
                return a + b if isinstance(e.op, ast.Add) else a - b
            raise _Undecidable("arithmetic")
        if isinstance(e, ast.Compare):
            left = ev(e.left)
            for o, c in zip(e.ops, e.comparators):
                right = ev(c)
                if isinstance(o, (ast.Is, ast.IsNot)):
                    if right is None or left is None:
                        res = (left is None and right is None) if isinstance(o, ast.Is) else not (left is None and right is None)
                    else:
                        raise _Undecidable("identity test")
                elif isinstance(o, (ast.In, ast.NotIn)):
                    if not isinstance(right, list):
                        raise _Undecidable("membership")
                    res = (left in right) if isinstance(o, ast.In) else (left not in right)
                elif type(o) in CMP:
                    if type(left) is not int or type(right) is not int:
                        raise _Undecidable("comparison of non-integers")
                    res = CMP[type(o)](left, right)
                else:
                    raise _Undecidable("operator")
                if not res:
                    return False
                left = right
            return True
        raise _Undecidable(type(e).__name__)

    def run(stmts):
        for st in stmts:
            if isinstance(st, ast.Expr) and isinstance(st.value, ast.Constant):
                continue
            if isinstance(st, ast.Return):
                return ("ret", ev(st.value) if st.value is not None else None)
            if isinstance(st, ast.If):
                r = run(st.body if ev(st.test) else st.orelse)
                if r is not None:
                    return r
                continue
            if isinstance(st, ast.Assign) and len(st.targets) == 1 and isinstance(st.targets[0], ast.Name):
                env[st.targets[0].id] = ev(st.value)
                continue
            if isinstance(st, ast.AnnAssign) and isinstance(st.target, ast.Name) and st.value is not None:
                env[st.target.id] = ev(st.value)
                continue
            if isinstance(st, ast.Pass):
                continue
            raise _Undecidable(type(st).__name__)
        return None

    r = run(fnode.body)
    return bool(r[1]) if r is not None else None  # falling off the end returns None (falsy)


def r10(ctx, R):
    R.rule("C07.R10", "procedure nested in a type or block: the valid-parent predicate of procedures is false for a parent of class Type and of every block-construct class (finite evaluation over the type-id table)", floor=6, confirmed=8)
    ids = _type_ids(ctx)
    if len(ids) < 10:
        raise AnalysisError(f"type-id table: only {len(ids)} *_TYPE_ID constants found")
    block = ctx.m.cname.get("Block")
    typ = ctx.m.cname.get("Type")
    if not block or not typ:
        raise AnalysisError("Block / Type classes not found")
    bad_parents = []  # (class name, id)
    for c in sorted(ctx.m.cone(block.qual if hasattr(block, "qual") else block) | {typ.qual if hasattr(typ, "qual") else typ}):
        tid = _class_type_id(ctx, c, ids)
        bad_parents.append((ctx.m.classes[c].name, tid))
    subjects = [k for k in (ctx.m.cname.get("Subroutine"), ctx.m.cname.get("Function")) if k]
    seen = set()
    for k in subjects:
        kq = k.qual if hasattr(k, "qual") else k
        q = ctx.m.method(kq, "check_valid_parent")
        if not q:
            R.violation("C07.R10", ctx.m.classes[kq].name, "valid-parent predicate", (ctx.m.classes[kq].rel, ctx.m.classes[kq].node.lineno), "no check_valid_parent: a definition of this kind is accepted anywhere")
            continue
        if q in seen:
            continue
        seen.add(q)
        f = ctx.m.funcs[q]
        for cname, tid in bad_parents:
            kk = f"parent {cname} (id {tid})"
            if tid is None:
                R.undecided("C07.R10", f.short, kk, loc(f, f.node), "the class's get_type() constant was not derived")
                continue
            try:
                v = _eval_valid_parent(f.node, tid, ids)
            except _Undecidable as e:
                R.undecided("C07.R10", f.short, kk, loc(f, f.node), f"predicate not evaluable ({e})")
                continue
            if v:
                R.violation("C07.R10", f.short, kk, loc(f, f.node), f"the predicate accepts a parent of class {cname}: a {ctx.m.classes[f.cls].name.lower()} definition nested in {'a derived type' if cname == 'Type' else 'this block construct'} is no longer reported ('Invalid parent for ... declaration')")
            else:
                R.ok("C07.R10", f.short, kk, loc(f, f.node), "rejected")


# ------------------------------------------------------------------ R11
def r11(ctx, R):
    """Every element is examined: a loop that collects findings (Diagnostic objects,
    or entries of a field that a diagnostics builder later turns into Diagnostic
    objects one by one) is not left early.  `break`/`return` inside such a loop
    silently drops the findings of the elements not yet visited."""
    R.rule("C07.R11", "loops that collect findings visit every element: no break/return leaves a loop that appends to a list of diagnostics or to a field a diagnostics builder reports element by element", floor=3, confirmed=5)
    # fields reported element by element: `for x in self.F: ... Diagnostic(...)`
    fields = {}
    for f, c in constructions(ctx):
        p_ = ctx.m.parent.get(c)
        while p_ is not None and p_ is not f.node:
            if isinstance(p_, (ast.For, ast.comprehension)) and isinstance(p_.iter, ast.Attribute) and isinstance(p_.iter.value, ast.Name) and f.params and p_.iter.value.id == f.params[0]:
                fields.setdefault(p_.iter.attr, f)
            p_ = ctx.m.parent.get(p_)
    # comprehensions do not have parent links to `comprehension` nodes through elt: look them up directly
    for f, c in constructions(ctx):
        for comp in (n for n in ctx.m.walk_own(f.node) if isinstance(n, (ast.ListComp, ast.GeneratorExp)) and any(x is c for x in ast.walk(n.elt))):
            for g_ in comp.generators:
                if isinstance(g_.iter, ast.Attribute) and isinstance(g_.iter.value, ast.Name) and f.params and g_.iter.value.id == f.params[0]:
                    fields.setdefault(g_.iter.attr, f)
    n = 0
    for f in sorted(ctx.m.funcs.values(), key=lambda g: g.qual):
        if f.rel.endswith("debug.py"):
            continue
        for lp in (x for x in ctx.m.walk_own(f.node) if isinstance(x, (ast.For, ast.While))):
            acc = None
            for c in (x for s_ in lp.body for x in ast.walk(s_) if isinstance(x, ast.Call)):
                if not (isinstance(c.func, ast.Attribute) and c.func.attr in ("append", "extend", "insert")):
                    continue
                recv = c.func.value
                if isinstance(recv, ast.Attribute) and isinstance(recv.value, ast.Name) and f.params and recv.value.id == f.params[0] and recv.attr in fields:
                    acc = (f"self.{recv.attr}", f"reported one by one in {fields[recv.attr].short}")
                elif isinstance(recv, ast.Name) and any(isinstance(x, ast.Call) and isinstance(x.func, ast.Name) and x.func.id == "Diagnostic" for a_ in c.args for x in ast.walk(a_)):
                    acc = (recv.id, "list of diagnostics")
            if acc is None:
                continue
            n += 1
            # exits that belong to this loop (not to a nested loop / nested function)
            exits = []

            def scan(stmts, depth):
                for s_ in stmts:
                    if isinstance(s_, (ast.FunctionDef, ast.AsyncFunctionDef, ast.ClassDef)):
                        continue
                    if isinstance(s_, ast.Break) and depth == 0:
                        exits.append(s_)
                    elif isinstance(s_, ast.Return):
                        exits.append(s_)
                    for fld_, val in ast.iter_fields(s_):
                        if isinstance(val, list) and val and isinstance(val[0], ast.stmt):
                            scan(val, depth + (1 if isinstance(s_, (ast.For, ast.While)) and fld_ == "body" else 0))
                        elif isinstance(val, list) and val and isinstance(val[0], ast.ExceptHandler):
                            for h in val:
                                scan(h.body, depth)

            scan(lp.body, 0)
            k = key(f, lp)[:90]
            if exits:
                R.violation("C07.R11", f.short, k, loc(f, exits[0]), f"the loop that fills `{acc[0]}` ({acc[1]}) can be left at line {exits[0].lineno} before every element was examined: defects in the remaining elements are never reported")
            else:
                R.ok("C07.R11", f.short, k, loc(f, lp), f"fills `{acc[0]}` and runs to the end")
    if n == 0:
        raise AnalysisError("C07.R11: no finding-collecting loop found")


# ------------------------------------------------------------------ R13
def r13(ctx, R):
    """Every scope of the file is checked: the loop of the aggregator reaches each
    per-scope checker for every element (no `continue`/`break`/filter in front of
    a checker call, no checker call under a condition on the scope)."""
    R.rule("C07.R13", "the aggregator hands every scope to every per-scope checker: no scope is filtered out before a checker call", floor=3, confirmed=4)
    agg = aggregator(ctx)
    CHECKERS = {"check_use", "check_definitions", "get_diagnostics", "check_valid_parent"}
    loops = [lp for lp in ctx.m.walk_own(agg.node) if isinstance(lp, ast.For) and any(isinstance(c.func, ast.Attribute) and c.func.attr in CHECKERS for s_ in lp.body for c in calls_in(s_))]
    if not loops:
        raise AnalysisError("C07.R13: the aggregator's loop over scopes was not found")
    for lp in loops:
        tv = lp.target.id if isinstance(lp.target, ast.Name) else None
        if isinstance(lp.iter, (ast.GeneratorExp, ast.ListComp)) and any(g_.ifs for g_ in lp.iter.generators):
            R.violation("C07.R13", agg.short, key(agg, lp)[:80], loc(agg, lp), "the scopes are filtered before they are checked")
        for i, st in enumerate(lp.body):
            cs = [c for c in calls_in(st) if isinstance(c.func, ast.Attribute) and c.func.attr in CHECKERS and isinstance(c.func.value, ast.Name) and c.func.value.id == tv]
            for c in cs:
                k = f"{c.func.attr} reached for every scope"
                early = [s_ for s_ in lp.body[:i] if any(isinstance(y, (ast.Continue, ast.Break, ast.Return)) for y in ast.walk(s_))]
                # the checker call itself may be the test of an `if` (check_valid_parent); it must not sit inside a branch
                nested = False
                p_ = ctx.m.parent.get(c)
                while p_ is not None and p_ is not lp:
                    if isinstance(p_, (ast.If, ast.Try, ast.While, ast.For)) and not (isinstance(p_, ast.If) and any(x is c for x in ast.walk(p_.test))):
                        nested = True
                    p_ = ctx.m.parent.get(p_)
                if early:
                    R.violation("C07.R13", agg.short, k, loc(agg, early[0]), f"`{unparse(early[0]).split(chr(10))[0][:70]} ...` can skip a scope before {c.func.attr}() runs on it: defects inside the skipped scopes (declarations, USE statements, argument lists of that construct) are never reported")
                elif nested:
                    R.violation("C07.R13", agg.short, k, loc(agg, c), f"{c.func.attr}() is only called under a condition on the scope: defects in the other scopes are never reported")
                else:
                    R.ok("C07.R13", agg.short, k, loc(agg, c))


def run(ctx, R):
    r1(ctx, R)
    r2(ctx, R)
    r3(ctx, R)
    r4(ctx, R)
    r5(ctx, R)
    r6(ctx, R)
    r8(ctx, R)
    r9(ctx, R)
    r10(ctx, R)
    r11(ctx, R)
    # R12 (shared with C05.R6): the "type not imported" diagnostic depends on looking the type name up in the right name space
    from .c05 import r6 as _type_name_lookup

    _type_name_lookup(ctx, R, rule="C07.R12")
    r13(ctx, R)
