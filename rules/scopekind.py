"""Scope-kind typing (C05.R6): a flow-sensitive, syntax-directed abstract
interpretation of one function body over the three-point lattice

    C  the scope expression is a derived-type definition (`get_type() == CLASS_TYPE_ID`)
    N  it is not
    M  unknown (may be either)

Sources of information: tests `X.get_type() == CLASS_TYPE_ID` (any comparison
spelling, negation, conjunction, disjunction, named through the branch that is
taken) and `isinstance(X, Type)`; `P.parent` is N when P is C (derived-type
definitions do not nest).  Locals bound to an access path are aliases of it.
Nothing is executed; the walk visits every statement of the function once per
enclosing branch and records, for every call it is asked about, the kind of
each argument at that point."""
from __future__ import annotations

import ast

from sa.model import access_path, unparse


def _join(a, b):
    return a if a == b else "M"


class Env:
    __slots__ = ("kind", "alias")

    def __init__(self, kind=None, alias=None):
        self.kind = dict(kind or {})
        self.alias = dict(alias or {})

    def copy(self):
        return Env(self.kind, self.alias)

    def canon(self, path):
        """Replace a leading local by the access path it is bound to."""
        if not path:
            return path
        for _ in range(4):
            head, _, rest = path.partition(".")
            if head in self.alias:
                path = self.alias[head] + ("." + rest if rest else "")
            else:
                break
        return path

    def get(self, path):
        p = self.canon(path)
        if p in self.kind:
            return self.kind[p]
        if p.endswith(".parent"):
            if self.get(p[: -len(".parent")]) == "C":
                return "N"
        return "M"

    def set(self, path, k):
        self.kind[self.canon(path)] = k

    def kill(self, path):
        """`path` is re-bound: forget it, everything below it, and aliases of it."""
        for p in [q for q in self.kind if q == path or q.startswith(path + ".")]:
            del self.kind[p]
        for a in [a for a, t in self.alias.items() if a == path or t == path or t.startswith(path + ".")]:
            del self.alias[a]

    @staticmethod
    def join(a, b):
        if a is None:
            return b
        if b is None:
            return a
        out = Env()
        for p in set(a.kind) | set(b.kind):
            k = _join(a.get(p), b.get(p))
            if k != "M":
                out.kind[p] = k
        for n in set(a.alias) | set(b.alias):
            if a.alias.get(n) == b.alias.get(n):
                out.alias[n] = a.alias[n]
                continue
            # bound to different paths on the two sides (or on one side only): the
            # name stops being an alias and keeps the joined kind as a plain entry
            k = _join(a.get(n), b.get(n))
            out.kind.pop(n, None)
            if k != "M":
                out.kind[n] = k
        return out


class ScopeKinds:
    def __init__(self, fnode, class_const="CLASS_TYPE_ID", type_class="Type", want=lambda call: True):
        self.class_const = class_const
        self.type_class = type_class
        self.want = want
        self.calls = []  # (call node, [kind of each positional arg], env snapshot)
        self.fnode = fnode
        env = Env()
        self._block(fnode.body, env)

    # ------------------------------------------------------------ expressions
    def kind_of(self, e, env):
        if isinstance(e, ast.IfExp):
            return _join(self.kind_of(e.body, self._refine(e.test, env.copy(), True)), self.kind_of(e.orelse, self._refine(e.test, env.copy(), False)))
        p = access_path(e)
        if p:
            return env.get(p)
        return "M"

    def _is_class_test(self, t):
        """(path, positive?) when t is `X.get_type(..) ==/!=/is/is not CLASS_TYPE_ID`
        or `isinstance(X, Type)`; None otherwise."""
        if isinstance(t, ast.Compare) and len(t.ops) == 1:
            l, r = t.left, t.comparators[0]
            for a, b in ((l, r), (r, l)):
                if isinstance(a, ast.Call) and isinstance(a.func, ast.Attribute) and a.func.attr == "get_type" and unparse(b).split(".")[-1] == self.class_const:
                    p = access_path(a.func.value)
                    if p:
                        if isinstance(t.ops[0], (ast.Eq, ast.Is)):
                            return p, True
                        if isinstance(t.ops[0], (ast.NotEq, ast.IsNot)):
                            return p, False
        if isinstance(t, ast.Call) and isinstance(t.func, ast.Name) and t.func.id == "isinstance" and len(t.args) == 2 and unparse(t.args[1]) == self.type_class:
            p = access_path(t.args[0])
            if p:
                return p, True
        return None

    def _refine(self, t, env, pol):
        """env (modified in place and returned) under the assumption bool(t) == pol."""
        if isinstance(t, ast.UnaryOp) and isinstance(t.op, ast.Not):
            return self._refine(t.operand, env, not pol)
        if isinstance(t, ast.BoolOp):
            conj = isinstance(t.op, ast.And)
            if conj == pol:  # every operand has that truth value
                for v in t.values:
                    self._refine(v, env, pol)
            return env
        ct = self._is_class_test(t)
        if ct:
            p, positive = ct
            env.set(p, "C" if positive == pol else "N")
        return env

    def _visit_expr(self, e, env):
        """Record wanted calls inside e with the environment that holds where they
        are evaluated (short-circuit operands and conditional expressions refine)."""
        if e is None:
            return
        if isinstance(e, ast.IfExp):
            self._visit_expr(e.test, env)
            self._visit_expr(e.body, self._refine(e.test, env.copy(), True))
            self._visit_expr(e.orelse, self._refine(e.test, env.copy(), False))
            return
        if isinstance(e, ast.BoolOp):
            cur = env.copy()
            for v in e.values:
                self._visit_expr(v, cur)
                cur = self._refine(v, cur.copy(), isinstance(e.op, ast.And))
            return
        if isinstance(e, (ast.Lambda, ast.ListComp, ast.SetComp, ast.DictComp, ast.GeneratorExp)):
            for c in ast.walk(e):
                if isinstance(c, ast.Call) and self.want(c):
                    self.calls.append((c, ["M" for _ in c.args], env.copy()))
            return
        if isinstance(e, ast.Call) and self.want(e):
            self.calls.append((e, [self.kind_of(a, env) for a in e.args], env.copy()))
        for ch in ast.iter_child_nodes(e):
            if isinstance(ch, ast.expr):
                self._visit_expr(ch, env)
            elif isinstance(ch, ast.keyword):
                self._visit_expr(ch.value, env)

    # ------------------------------------------------------------- statements
    def _assign(self, target, value, env):
        if isinstance(target, (ast.Tuple, ast.List)):
            for i, t in enumerate(target.elts):
                v = value.elts[i] if isinstance(value, (ast.Tuple, ast.List)) and len(value.elts) == len(target.elts) else None
                self._assign(t, v, env)
            return
        p = access_path(target)
        if not p:
            return
        k = self.kind_of(value, env) if value is not None else "M"
        vp = env.canon(access_path(value)) if value is not None and access_path(value) else None
        env.kill(p)
        if isinstance(target, ast.Name) and vp and vp.split(".")[0] != p:
            env.alias[p] = vp
            # the alias inherits what is known about the path
        elif k != "M":
            env.kind[p] = k

    def _assigned_names(self, stmts):
        out = set()
        for s in stmts:
            for n in ast.walk(s):
                if isinstance(n, (ast.Assign, ast.AugAssign, ast.AnnAssign, ast.For, ast.NamedExpr, ast.With)):
                    tg = n.targets if isinstance(n, ast.Assign) else [getattr(n, "target", None)] if not isinstance(n, ast.With) else [i.optional_vars for i in n.items]
                    for t in tg:
                        if t is None:
                            continue
                        for x in ast.walk(t):
                            p = access_path(x)
                            if p:
                                out.add(p)
        return out

    def _havoc(self, env, stmts):
        e = env.copy()
        for p in self._assigned_names(stmts):
            e.kill(p)
        return e

    def _block(self, stmts, env):
        """Returns the environment after the block, or None when every path leaves it."""
        for s in stmts:
            if env is None:
                return None
            env = self._stmt(s, env)
        return env

    def _stmt(self, s, env):
        if isinstance(s, (ast.FunctionDef, ast.AsyncFunctionDef, ast.ClassDef)):
            return env
        if isinstance(s, ast.Assign):
            self._visit_expr(s.value, env)
            for t in s.targets:
                self._assign(t, s.value, env)
            return env
        if isinstance(s, ast.AnnAssign):
            self._visit_expr(s.value, env)
            if s.value is not None:
                self._assign(s.target, s.value, env)
            return env
        if isinstance(s, ast.AugAssign):
            self._visit_expr(s.value, env)
            p = access_path(s.target)
            if p:
                env.kill(p)
            return env
        if isinstance(s, ast.If):
            self._visit_expr(s.test, env)
            et = self._block(s.body, self._refine(s.test, env.copy(), True))
            ef = self._block(s.orelse, self._refine(s.test, env.copy(), False))
            if et is None and ef is None:
                return None
            return Env.join(et, ef)
        if isinstance(s, (ast.For, ast.AsyncFor)):
            self._visit_expr(s.iter, env)
            inner = self._havoc(env, [s])
            out = self._block(s.body, inner.copy())
            after = Env.join(inner, out)
            if s.orelse:
                after = self._block(s.orelse, after)
            return Env.join(self._havoc(env, [s]), after)
        if isinstance(s, ast.While):
            inner = self._havoc(env, [s])
            self._visit_expr(s.test, inner)
            self._block(s.body, self._refine(s.test, inner.copy(), True))
            after = self._refine(s.test, inner.copy(), False)
            if s.orelse:
                after = self._block(s.orelse, after)
            return after if after is not None else inner
        if isinstance(s, (ast.With, ast.AsyncWith)):
            for i in s.items:
                self._visit_expr(i.context_expr, env)
                if i.optional_vars is not None:
                    self._assign(i.optional_vars, None, env)
            return self._block(s.body, env)
        if isinstance(s, ast.Try) or s.__class__.__name__ == "TryStar":
            start = env.copy()
            out = self._block(s.body, env)
            if s.orelse and out is not None:
                out = self._block(s.orelse, out)
            hv = self._havoc(start, s.body)
            for h in s.handlers:
                out = Env.join(out, self._block(h.body, hv.copy()))
            if s.finalbody:
                out = self._block(s.finalbody, out if out is not None else hv.copy())
            return out
        if isinstance(s, ast.Return):
            self._visit_expr(s.value, env)
            return None
        if isinstance(s, ast.Raise):
            self._visit_expr(s.exc, env)
            return None
        if isinstance(s, (ast.Continue, ast.Break)):
            return None
        if isinstance(s, ast.Expr):
            self._visit_expr(s.value, env)
            return env
        if isinstance(s, ast.Match):
            self._visit_expr(s.subject, env)
            out = None
            hv = env.copy()
            for c in s.cases:
                out = Env.join(out, self._block(c.body, hv.copy()))
            return Env.join(out, hv)
        for ch in ast.iter_child_nodes(s):
            if isinstance(ch, ast.expr):
                self._visit_expr(ch, env)
        return env
