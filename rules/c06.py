"""C06 — references and rename cover exactly the occurrences (DESIGN.md 3/C06):
the occurrence matcher, the ranges it yields, the filters in front of a hit."""
from __future__ import annotations

import ast
import copy

from sa import rex
from sa.model import AnalysisError, unparse

from .shared import calls_in, defs_of, deref, dispatch_table, key, loc, reaching_defs


def searcher(ctx):
    """the function both the references and the rename handler get their hits from"""
    t = dispatch_table(ctx)
    hs = {m: t.get(m, set()) for m in ("textDocument/references", "textDocument/rename", "textDocument/documentHighlight")}
    if not all(hs.values()):
        raise AnalysisError("references / rename / documentHighlight handlers not found in the dispatch table")
    cands = None
    for m, qs in hs.items():
        reach = set()
        for q in qs:
            for _, kd, tg in ctx.r.callees(ctx.m.funcs[q]):
                if kd not in ("external", "unknown"):
                    reach |= set(tg)
        # a handler that is a thin wrapper around another handler (highlight -> references): one more level
        for q in list(reach):
            if q in ctx.m.funcs and ctx.m.funcs[q].cls and any(q in v for v in t.values()):
                for _, kd, tg in ctx.r.callees(ctx.m.funcs[q]):
                    if kd not in ("external", "unknown"):
                        reach |= set(tg)
        withf = {q for q in reach if q in ctx.m.funcs and any(isinstance(c.func, ast.Attribute) and c.func.attr == "finditer" for c in calls_in(ctx.m.funcs[q].node))}
        cands = withf if cands is None else cands & withf
    if len(cands or ()) != 1:
        raise AnalysisError(f"expected one occurrence searcher shared by references, highlight and rename, found {sorted(cands or ())}")
    return ctx.m.funcs[next(iter(cands))], hs


def matcher(ctx, g):
    """(finditer call, Rx, loop) of the searcher"""
    for n in ctx.m.walk_own(g.node):
        if isinstance(n, ast.For) and isinstance(n.iter, ast.Call) and isinstance(n.iter.func, ast.Attribute) and n.iter.func.attr == "finditer":
            recv = n.iter.func.value
            v = deref(ctx, g, recv)
            rx = next((r for r in ctx.p.inline if r.node is v), None)
            if rx is None and isinstance(v, ast.Call):
                # pattern built by a helper
                for q in ctx.r.resolve_call(g, v)[1]:
                    rx = next((r for r in ctx.p.inline if r.func is not None and r.func.qual == q and r.fn == "compile"), rx)
            if rx is None:
                raise AnalysisError(f"{g.short}: pattern of the occurrence matcher not resolved")
            return n.iter, rx, n
    raise AnalysisError(f"{g.short}: finditer loop not found")


def group_uses(ctx, g, loop):
    """[(call, 'start'|'end', k)] on the match variable inside the loop"""
    mv = loop.target.id if isinstance(loop.target, ast.Name) else None
    out = []
    for c in calls_in(loop):
        if isinstance(c.func, ast.Attribute) and c.func.attr in ("start", "end", "span", "group") and isinstance(c.func.value, ast.Name) and c.func.value.id == mv:
            k = 0
            if c.args:
                k = c.args[0].value if isinstance(c.args[0], ast.Constant) else None
            out.append((c, c.func.attr, k))
    return mv, out


def hole_group(rx):
    """index of the innermost capture group that contains the name hole; 0 if none"""
    best = 0

    def rec(seq, cur):
        nonlocal best
        for op, av in rex.items(seq):
            if op is rex.C.LITERAL and chr(av) == rex.HOLE:
                best = cur
            elif op is rex.C.SUBPATTERN:
                rec(av[3], av[0] if av[0] else cur)
            elif op is rex.C.BRANCH:
                for alt in av[1]:
                    rec(alt, cur)
            elif op in rex.REPEATS:
                rec(av[2], cur)
            elif op is rex.C.ATOMIC_GROUP:
                rec(av, cur)
    rec(rx.tree, 0)
    return best


def whole_is_group(rx, k):
    """every atom of the pattern outside capture group k is zero-width"""
    if k == 0:
        return True, None
    r = rex.group_node(rx.tree, k)
    if r is None:
        return False, "group not found"
    seq, idx = r
    if seq is not rex.items(rx.tree) and list(seq) != list(rex.items(rx.tree)):
        return False, "the group is nested inside another consuming construct"
    for i, (op, av) in enumerate(seq):
        if i != idx and rex.consumes(op, av):
            side = "before" if i < idx else "after"
            return False, f"the atom {side} the name group consumes a character"
    return True, None


def r1(ctx, R, g, call, rx, loop):
    R.rule("C06.R1", "the occurrence matcher consumes nothing but the name (neighbouring occurrences one separator apart are all found)", floor=1, confirmed=1)
    if rx.tree is None:
        R.violation("C06.R1", g.short, "occurrence pattern", loc(g, rx.node), f"the pattern does not compile: {rx.error}")
        return None
    k = hole_group(rx)
    ok, why = whole_is_group(rx, k)
    txt = rx.text.replace(rex.HOLE, "{name}")
    if ok:
        R.ok("C06.R1", g.short, f"pattern {txt!r}", loc(g, rx.node), f"group {k} holds the name; everything else is zero-width")
    else:
        R.violation("C06.R1", g.short, f"pattern {txt!r}", loc(g, rx.node), f"{why}: finditer resumes after the whole match, so in `i = i+i` every second occurrence is skipped and a rename corrupts the statement")
    return k


def r2(ctx, R, g, rx):
    R.rule("C06.R2", "the entity name is inserted literally (re.escape) and matched case-insensitively", floor=2, confirmed=2)
    holes = rx.holes
    if len(holes) != 1:
        R.undecided("C06.R2", g.short, "name hole", loc(g, rx.node), f"{len(holes)} holes in the pattern")
        return
    e = deref(ctx, rx.func or g, holes[0].expr)
    if isinstance(e, ast.Call) and isinstance(e.func, (ast.Name, ast.Attribute)) and ctx.m.dotted((rx.func or g).rel, e.func) == "re.escape":
        R.ok("C06.R2", g.short, "name escaped", loc(g, rx.node))
    else:
        R.violation("C06.R2", g.short, "name escaped", loc(g, rx.node), f"the name is spliced into the pattern as `{unparse(holes[0].expr)}`: a name containing `$` compiles to a pattern that cannot match (or raises)")
    if rx.ignorecase:
        R.ok("C06.R2", g.short, "case-insensitive match", loc(g, rx.node))
    else:
        R.violation("C06.R2", g.short, "case-insensitive match", loc(g, rx.node), "the occurrence pattern is case-sensitive: `N` is not found as an occurrence of `n`")


def _record(ctx, g, e):
    """the three components of a hit record: a 3-element display, or a call of a 3-field
    NamedTuple class of the package"""
    if isinstance(e, (ast.List, ast.Tuple)) and len(e.elts) == 3 and not any(isinstance(x, ast.Starred) for x in e.elts):
        return list(e.elts)
    if isinstance(e, ast.Call) and isinstance(e.func, ast.Name) and len(e.args) == 3 and not e.keywords and not any(isinstance(a, ast.Starred) for a in e.args):
        cq = ctx.m.resolve_class_name(g.rel, e.func.id)
        if cq and any("NamedTuple" in b or b.endswith("tuple") for b in ctx.m.classes[cq].ext_bases):
            return list(e.args)
    return None


def _record_fields(ctx):
    """{field name: index} of 3-field NamedTuple classes (consumers may read hit.line / hit.start / hit.end)"""
    out = {}
    for c in ctx.m.classes.values():
        if any("NamedTuple" in b for b in c.ext_bases):
            names = [st.target.id for st in c.node.body if isinstance(st, ast.AnnAssign) and isinstance(st.target, ast.Name)]
            if len(names) == 3:
                for i, n in enumerate(names):
                    out.setdefault(n, i)
    return out


def r3(ctx, R, g, rx, loop, k):
    R.rule("C06.R3", "a hit's range is (loop line index, start, end) of the name group; the hit is re-resolved at a column inside the identifier", floor=2, confirmed=2)
    mv, uses = group_uses(ctx, g, loop)
    whole, _ = whole_is_group(rx, k) if rx.tree is not None else (False, None)
    good = {k} | ({0} if whole else set())
    # enumerate index
    it = loop
    outer = ctx.m.parent.get(loop)
    line_var = None
    while outer is not None and not isinstance(outer, ast.FunctionDef):
        if isinstance(outer, ast.For) and isinstance(outer.iter, ast.Call) and isinstance(outer.iter.func, ast.Name) and outer.iter.func.id == "enumerate" and "contents_split" in unparse(outer.iter.args[0]):
            zero = len(outer.iter.args) == 1 and not outer.iter.keywords
            if isinstance(outer.target, ast.Tuple) and isinstance(outer.target.elts[0], ast.Name):
                line_var = (outer.target.elts[0].id, zero, outer)
            break
        outer = ctx.m.parent.get(outer)
    if line_var is None:
        raise AnalysisError(f"{g.short}: line loop `for i, line in enumerate(<file>.contents_split)` not found")
    record = lambda e: _record(ctx, g, e)

    appends = [c for c in calls_in(loop) if isinstance(c.func, ast.Attribute) and c.func.attr == "append" and c.args and record(c.args[0]) is not None]
    if not appends:
        R.undecided("C06.R3", g.short, "hit record", loc(g, loop), "no [line, start, end] record appended in the match loop (shape not recognised)")
        return line_var
    for c in appends:
        ln, st, en = record(c.args[0])
        kk = key(g, ctx.m.enclosing_stmt(c))[:80]
        prob = []
        if not (isinstance(ln, ast.Name) and ln.id == line_var[0]):
            prob.append(f"line component `{unparse(ln)}` is not the index of the line loop")
        elif not line_var[1]:
            prob.append("the line loop does not count from 0")
        for comp, want in ((st, "start"), (en, "end")):
            if isinstance(comp, ast.Name):
                comp = deref(ctx, g, comp)  # a local bound once to match.start(k) / match.end(k)
            u = next(((cc, a, kx) for cc, a, kx in uses if cc is comp), None)
            if u is None:
                prob.append(f"{want} component `{unparse(comp)}` is not {mv}.{want}(k)")
            elif u[1] != want:
                prob.append(f"{want} component uses {mv}.{u[1]}()")
            elif u[2] not in good:
                prob.append(f"{want} component uses group {u[2]}, the name is group {k}" + ("" if whole else " and the whole match is wider than the name"))
        if prob:
            R.violation("C06.R3", g.short, kk, loc(g, c), "; ".join(prob) + ": the returned range is not exactly the identifier, a rename rewrites neighbouring text")
        else:
            R.ok("C06.R3", g.short, kk, loc(g, c), f"[{line_var[0]}, start({k}), end({k})]")
    # the column handed to the resolver
    res = [c for c in calls_in(loop) if ctx.m.enclosing_func(c) is g and any(q.endswith(".get_definition") for q in ctx.r.resolve_call(g, c)[1])]
    if not res:
        R.violation("C06.R3", g.short, "hit re-resolved", loc(g, loop), "hits are not re-resolved through get_definition: every textual match of the name counts as a reference")
    for c in res:
        if len(c.args) < 3:
            R.undecided("C06.R3", g.short, unparse(c)[:70], loc(g, c), "arguments not positional")
            continue
        a_line, a_col = c.args[1], c.args[2]
        prob = []
        if not (isinstance(a_line, ast.Name) and a_line.id == line_var[0]):
            prob.append(f"line argument `{unparse(a_line)}` is not the line index")
        off = 0
        base = a_col
        if isinstance(a_col, ast.BinOp) and isinstance(a_col.op, ast.Add) and isinstance(a_col.right, ast.Constant):
            off, base = a_col.right.value, a_col.left
        if isinstance(base, ast.Name):
            base = deref(ctx, g, base)
        u = next(((cc, a, kx) for cc, a, kx in uses if cc is base), None)
        if u is None or u[1] != "start" or u[2] not in good or off not in (0, 1):
            prob.append(f"column argument `{unparse(a_col)}` is not start of the name group (+0/+1)")
        if prob:
            R.violation("C06.R3", g.short, unparse(c)[:70], loc(g, c), "; ".join(prob) + ": the hit is resolved at a position outside the identifier")
        else:
            R.ok("C06.R3", g.short, unparse(c)[:70], loc(g, c))
    # file the hits are filed under = the file searched
    return line_var


def r4(ctx, R, g, call, loop, line_var):
    R.rule("C06.R4", "comments, preprocessor lines and character literals are excluded; a hit counts only when it resolves to the same entity", floor=4, confirmed=7)
    F = ctx.facts(g, interproc=False)
    facts = F.at(call) or set()
    # (a) searched text = strip_comment(line)
    txt = call.args[0] if call.args else None
    srcs = reaching_defs(ctx, g, call, txt.id) if isinstance(txt, ast.Name) else [txt]
    stripper = None
    ok = bool(srcs)
    for v in srcs:
        if isinstance(v, ast.Call):
            qs = [q for q in ctx.r.resolve_call(g, v)[1] if q.endswith(".strip_comment")]
            if qs:
                stripper = ctx.m.funcs[qs[0]]
                continue
        ok = False
    if ok and stripper is not None:
        R.ok("C06.R4", g.short, "searched text is comment-stripped", loc(g, call))
    else:
        R.violation("C06.R4", g.short, "searched text is comment-stripped", loc(g, call), "occurrences are searched in the raw line: names inside comments are returned as references and rewritten by rename")
    # (b) the stripper cuts at `!` on a literal-blanked copy
    if stripper is not None:
        cuts = [c for c in calls_in(stripper.node) if isinstance(c.func, ast.Attribute) and c.func.attr in ("split", "find", "index", "partition") and c.args and isinstance(c.args[0], ast.Constant) and c.args[0].value == "!"]
        if not cuts:
            R.undecided("C06.R4", stripper.short, "comment cut", loc(stripper, stripper.node), "no cut at '!' recognised")
        for c in cuts:
            recv = deref(ctx, stripper, c.func.value)
            aware = isinstance(recv, ast.Call) and any(q.endswith("strip_strings") for q in ctx.r.resolve_call(stripper, recv)[1])
            if aware:
                ml = next((kw.value for kw in recv.keywords if kw.arg == "maintain_len"), recv.args[1] if len(recv.args) > 1 else None)
                aware = isinstance(ml, ast.Constant) and ml.value is True
            if aware:
                R.ok("C06.R4", stripper.short, key(stripper, ctx.m.enclosing_stmt(c))[:80], loc(stripper, c), "comment start located on a copy with character literals blanked (same length)")
            else:
                R.violation("C06.R4", stripper.short, key(stripper, ctx.m.enclosing_stmt(c))[:80], loc(stripper, c), "the comment is cut at the first `!` of the raw line: in `print *, \"Done!\", n` the occurrence of n after the literal is never searched")
    # (c) preprocessor lines skipped
    if any(fa[0] == "cond" and fa[2] is False and fa[1].replace('"', "'") in (f"{txt.id}[0] == '#'", f"{txt.id}.startswith('#')") for fa in facts if isinstance(txt, ast.Name)):
        R.ok("C06.R4", g.short, "preprocessor lines skipped", loc(g, call))
    else:
        R.violation("C06.R4", g.short, "preprocessor lines skipped", loc(g, call), "lines starting with # are searched: macro names in directives are returned as references to Fortran entities")
    # (c') no line is skipped on a case-sensitive test against the name
    from .c13 import explicit_norm

    name_vars = set()
    for rx_ in ctx.p.inline:
        if rx_.func is g and rx_.holes:
            for n_ in ast.walk(rx_.holes[0].expr):
                if isinstance(n_, ast.Name) and n_.id != "re":
                    name_vars.add(n_.id)
    outer = line_var[2]
    for st_ in ast.walk(outer):
        if not (isinstance(st_, ast.If) and any(isinstance(b, ast.Continue) for b in st_.body)) or st_.lineno >= loop.lineno:
            continue
        for cmp_ in (n_ for n_ in ast.walk(st_.test) if isinstance(n_, ast.Compare) and len(n_.ops) == 1):
            sides = [cmp_.left, cmp_.comparators[0]]
            mine = [x for x in sides if isinstance(x, ast.Name) and x.id in name_vars]
            if not mine:
                continue
            other = sides[1] if sides[0] is mine[0] else sides[0]
            kk = f"line filter {unparse(cmp_)[:60]}"
            if explicit_norm(mine[0], ctx, g, cmp_) and not explicit_norm(other, ctx, g, cmp_):
                R.violation("C06.R4", g.short, kk, loc(g, cmp_), f"lines are skipped when `{unparse(cmp_)}` - the name is lower-cased, `{unparse(other)}` is the text as written: occurrences spelled with upper-case letters (`Total`, `TOTAL`) are never searched, so references miss them and rename leaves them behind")
            else:
                R.ok("C06.R4", g.short, kk, loc(g, cmp_), "pre-filter compares like with like")
    # (d) every record is appended under a non-None resolution and the match flag
    appends = [c for c in calls_in(loop) if isinstance(c.func, ast.Attribute) and c.func.attr == "append" and c.args and _record(ctx, g, c.args[0]) is not None]
    flag = None
    for c in appends:
        fa_ = F.at(c) or set()
        res = [b for b in fa_ if b[0] == "bind" and ".get_definition(" in b[2]]
        nn = {b[1] for b in fa_ if b[0] == "nonnull"}
        tr = [b[1] for b in fa_ if b[0] == "truthy"]
        kk = key(g, ctx.m.enclosing_stmt(c))[:80]
        if res and res[0][1] in nn and tr:
            flag = tr[0]
            R.ok("C06.R4", g.short, kk, loc(g, c), f"under `{res[0][1]} is not None` and `{flag}`")
        else:
            R.violation("C06.R4", g.short, kk, loc(g, c), "a hit is recorded without a resolved definition and a positive identity test: occurrences bound to other entities of the same spelling are returned")
    # (e) the flag is raised only under an identity comparison with the entity searched for
    if flag is not None:
        for st in ast.walk(loop):
            if isinstance(st, ast.Assign) and isinstance(st.targets[0], ast.Name) and st.targets[0].id == flag and isinstance(st.value, ast.Constant) and st.value.value is True:
                fa_ = F.at(st) or set()
                conds = [b[1] for b in fa_ if b[0] == "cond" and b[2] is True]
                ident = [c_ for c_ in conds if ("FQSN" in c_ and ("==" in c_ or " in " in c_)) or " is def_obj" in c_]
                kk = key(g, st) + " @" + (ident[0][:50] if ident else "?")
                if ident:
                    R.ok("C06.R4", g.short, kk[:100], loc(g, st))
                else:
                    R.violation("C06.R4", g.short, kk[:100], loc(g, st), "an occurrence is accepted without comparing its resolved entity (qualified name) with the entity searched for")
    # (f) character literals: the word expander tries the literal patterns before the word pattern
    ex = ctx.m.fn("expand_name")
    order = []
    for n in ctx.m.walk_own(ex.node):
        if isinstance(n, ast.List) and n.elts and all(ctx.p.fregex_ref(ex.rel, e) for e in n.elts):
            order = [ctx.p.fregex_ref(ex.rel, e) for e in n.elts]
    if not order:
        R.undecided("C06.R4", ex.short, "literal patterns before the word pattern", loc(ex, ex.node), "pattern list not recognised")
    else:
        word = next((i for i, nm in enumerate(order) if nm == "WORD"), None)
        strs = [i for i, nm in enumerate(order) if nm in ("SQ_STRING", "DQ_STRING")]
        if word is not None and len(strs) == 2 and max(strs) < word:
            R.ok("C06.R4", ex.short, "literal patterns before the word pattern", loc(ex, ex.node), " < ".join(order))
        else:
            R.violation("C06.R4", ex.short, "literal patterns before the word pattern", loc(ex, ex.node), f"order {order}: a position inside a character literal expands to the word under it, so text inside literals is resolved, returned as a reference and renamed")
        # the expander accepts a match whose span touches the column (start <= col <= end, both
        # inclusive) and takes the first pattern that has one: a pattern tried before WORD whose
        # matches can begin with an operator sign or a digit wins at the column right after a
        # one-letter identifier (`i+1`, `n-1`: the probe column start+1 is also the start of `+1`)
        if word is not None:
            for i, nm in enumerate(order[:word]):
                rx_ = ctx.p.named.get(nm)
                if rx_ is None or rx_.tree is None:
                    continue
                fs, _ = rex.first_chars(rx_.tree, rx_.ignorecase)
                adj = sorted(ch for ch in fs if ch in "+-*/=<>,()0123456789")
                if adj:
                    R.violation("C06.R4", ex.short, f"{nm} tried before the word pattern", loc(ex, ex.node), f"order {order}: {nm} can match text starting with {adj[:6]} that directly follows an identifier; at the column after a one-letter name (`i=i+1`, `k-1`) the expander returns `+1` instead of the name, the occurrence is not resolved and references/rename miss it")
                else:
                    R.ok("C06.R4", ex.short, f"{nm} tried before the word pattern", loc(ex, ex.node), f"{nm} cannot start where an identifier ends in an expression (first characters {sorted(fs)[:6]})")


def r5(ctx, R, g, hs):
    R.rule("C06.R5", "rename edits are exactly the references: same search, same restriction, ranges and new name passed through unchanged", floor=4, confirmed=5)
    ref = ctx.m.funcs[next(iter(hs["textDocument/references"]))]
    hil = ctx.m.funcs[next(iter(hs["textDocument/documentHighlight"]))]
    ren = ctx.m.funcs[next(iter(hs["textDocument/rename"]))]
    if hil is ref:
        R.ok("C06.R5", ref.short, "documentHighlight is served by the references handler", loc(ref, ref.node))
    # call arguments to the searcher agree after alpha-renaming
    def search_call(f):
        for c in calls_in(f.node):
            if g.qual in ctx.r.resolve_call(f, c)[1]:
                return c
        return None
    cr, cn = search_call(ref), search_call(ren)
    if cr is None or cn is None:
        R.violation("C06.R5", ren.short, "shared search", loc(ren, ren.node), "rename or references does not obtain its occurrences from the shared searcher")
        return
    if hil is not ref:
        ch = search_call(hil)
        via_ref = any(ref.qual in ctx.r.resolve_call(hil, c)[1] for c in calls_in(hil.node))
        if ch is None and via_ref:
            R.ok("C06.R5", hil.short, "documentHighlight obtains its occurrences from the references handler", loc(hil, hil.node))
        elif ch is None:
            R.violation("C06.R5", hil.short, "shared search", loc(hil, hil.node), "documentHighlight has its own search")
    def argsig(c):
        return [unparse(a) for a in c.args] + sorted(f"{kw.arg}={unparse(kw.value)}" for kw in c.keywords)
    if argsig(cr) == argsig(cn):
        R.ok("C06.R5", ren.short, "same search arguments as references", loc(ren, cn), ", ".join(argsig(cn)))
    else:
        R.violation("C06.R5", ren.short, "same search arguments as references", loc(ren, cn), f"references searches with ({', '.join(argsig(cr))}), rename with ({', '.join(argsig(cn))})")
    # the restriction block (which files, type member?) is the same code
    def restrict_block(f, c):
        names = {n.id for a in list(c.args) + [kw.value for kw in c.keywords] for n in ast.walk(a) if isinstance(n, ast.Name)}
        out = []
        for st in f.node.body:
            if st is ctx.m.enclosing_stmt(c) or (hasattr(st, "lineno") and st.lineno >= c.lineno):
                break
            tg = {n.id for n in ast.walk(st) if isinstance(n, ast.Name) and isinstance(n.ctx, ast.Store)}
            if tg & names and not isinstance(st, (ast.AnnAssign,)) or (isinstance(st, ast.If) and tg & names):
                out.append(st)
        return out
    def restrict_slice(f, c):
        """top-level statements before the search call that its arguments depend on, minus
        what the resolved entity itself depends on (backward slice over names)"""
        def back(names):
            out = []
            names = set(names)
            top = next(i for i, st in enumerate(f.node.body) if any(x is c for x in ast.walk(st)))
            for st in reversed(f.node.body[:top]):
                tg = {n.id for n in ast.walk(st) if isinstance(n, ast.Name) and isinstance(n.ctx, ast.Store)}
                if tg & names:
                    out.append(st)
                    names |= {n.id for n in ast.walk(st) if isinstance(n, ast.Name) and isinstance(n.ctx, ast.Load)}
            return list(reversed(out))
        argn = {n.id for a in list(c.args) + [kw.value for kw in c.keywords] for n in ast.walk(a) if isinstance(n, ast.Name)}
        ent = c.args[0].id if c.args and isinstance(c.args[0], ast.Name) else None
        base = {id(s) for s in back({ent})} if ent else set()
        return [s for s in back(argn) if id(s) not in base]
    import re as _re
    class _Canon(ast.NodeTransformer):
        """one spelling per comparison: constant on the right; for integer-valued left sides
        (x.count(..), len(..)) `>= k` is `> k-1` and `< k` is `<= k-1`"""
        FLIP = {ast.Lt: ast.Gt, ast.Gt: ast.Lt, ast.LtE: ast.GtE, ast.GtE: ast.LtE, ast.Eq: ast.Eq, ast.NotEq: ast.NotEq}

        def visit_Compare(self, n):
            self.generic_visit(n)
            if len(n.ops) != 1:
                return n
            l, op, r = n.left, n.ops[0], n.comparators[0]
            if isinstance(l, ast.Constant) and not isinstance(r, ast.Constant) and type(op) in self.FLIP:
                l, r, op = r, l, self.FLIP[type(op)]()
            integral = isinstance(l, ast.Call) and (isinstance(l.func, ast.Attribute) and l.func.attr == "count" or isinstance(l.func, ast.Name) and l.func.id == "len")
            if integral and isinstance(r, ast.Constant) and type(r.value) is int:
                if isinstance(op, ast.GtE):
                    op, r = ast.Gt(), ast.Constant(value=r.value - 1)
                elif isinstance(op, ast.Lt):
                    op, r = ast.LtE(), ast.Constant(value=r.value - 1)
            return ast.Compare(left=l, ops=[op], comparators=[r])

    norm = lambda sts: [_re.sub(r"__i\d+", "", ast.dump(_Canon().visit(copy.deepcopy(s)))) for s in sts]
    fr, fn_ = restrict_slice(ref, cr), restrict_slice(ren, cn)
    if fr and norm(fr) == norm(fn_):
        R.ok("C06.R5", ren.short, "same scope restriction as references", loc(ren, fn_[0]), f"{len(fn_)} statements identical")
    else:
        R.violation("C06.R5", ren.short, "same scope restriction as references", loc(ren, (fn_ or [ren.node])[0]), "rename and references decide differently which files are searched / whether the entity is a type member: rename edits a different set of occurrences than references shows")
    # edits: change_json(new_name, ref[0], ref[1], ref[0], ref[2]) with new_name = params["newName"]
    for f, maker in ((ren, "change_json"), (ref, "uri_json")):
        mk = [c for c in calls_in(f.node) if isinstance(c.func, ast.Name) and c.func.id == maker]
        if not mk:
            R.violation("C06.R5", f.short, f"{maker} built from the hits", loc(f, f.node), f"no {maker}(...) call")
            continue
        for c in mk:
            rng = c.args[1:5]
            txts = [unparse(a) for a in rng]
            # the binding that hands out one hit: the innermost `for` statement or comprehension
            # generator around the call; `for ref in hits` or `for line, start, end in hits`
            tgt = None
            p_ = ctx.m.parent.get(c)
            while p_ is not None and tgt is None:
                if isinstance(p_, (ast.ListComp, ast.SetComp, ast.GeneratorExp, ast.DictComp)):
                    tgt = p_.generators[-1].target
                elif isinstance(p_, ast.For) and any(x is c for b in p_.body for x in ast.walk(b)):
                    tgt = p_.target
                p_ = ctx.m.parent.get(p_)
            want = None
            if isinstance(tgt, ast.Name):
                rv = tgt.id
                want = [f"{rv}[0]", f"{rv}[1]", f"{rv}[0]", f"{rv}[2]"]
                # fields of a NamedTuple record read by name
                fmap = _record_fields(ctx)
                txts = [f"{rv}[{fmap[a.attr]}]" if isinstance(a, ast.Attribute) and isinstance(a.value, ast.Name) and a.value.id == rv and a.attr in fmap else t for a, t in zip(rng, txts)]
            elif isinstance(tgt, (ast.Tuple, ast.List)) and len(tgt.elts) == 3 and all(isinstance(x, ast.Name) for x in tgt.elts):
                a_, b_, c_ = (x.id for x in tgt.elts)
                want = [a_, b_, a_, c_]
            prob = []
            if want is None:
                R.undecided("C06.R5", f.short, unparse(c)[:80], loc(f, c), "the binding that hands out one hit was not recognised")
                continue
            if txts != want:
                prob.append(f"range arguments ({', '.join(txts)}) are not the hit's (line, start, line, end)")
            if maker == "change_json":
                nt = deref(ctx, f, c.args[0])
                if not (isinstance(nt, ast.Subscript) and unparse(nt).replace('"', "'").endswith("['newName']")):
                    prob.append(f"new text `{unparse(c.args[0])}` is not the request's newName unchanged")
            if prob:
                R.violation("C06.R5", f.short, unparse(c)[:80], loc(f, c), "; ".join(prob))
            else:
                R.ok("C06.R5", f.short, unparse(c)[:80], loc(f, c))


def r6(ctx, R, g, hs):
    """The one-file restriction is sound only for entities nested inside a program unit
    (locals of a procedure): anything declared at module level can be referenced from
    other files (USE, submodules).  Every non-None value handed to the searcher as the
    file restriction is therefore assigned under the nested-entity test."""
    from .c09 import depth_idiom
    R.rule("C06.R6", "the search is restricted to one file only for entities nested inside a program unit (FQSN depth > 2); module-level entities are searched in every file", floor=2, confirmed=2)
    seen = set()
    for meth in ("textDocument/references", "textDocument/rename", "textDocument/documentHighlight"):
        f = ctx.m.funcs[next(iter(hs[meth]))]
        if f.qual in seen:
            continue
        seen.add(f.qual)
        call = None
        for c in calls_in(f.node):
            if g.qual in ctx.r.resolve_call(f, c)[1]:
                call = c
        if call is None:
            continue
        gp = g.params[1:] if g.cls else g.params
        restr = None
        for kw in call.keywords:
            if kw.arg == "file_obj":
                restr = kw.value
        if restr is None and "file_obj" in gp and len(call.args) > gp.index("file_obj"):
            restr = call.args[gp.index("file_obj")]
        ent = call.args[0] if call.args else None
        if restr is None or (isinstance(restr, ast.Constant) and restr.value is None):
            R.ok("C06.R6", f.short, "no file restriction", loc(f, call), "every file is searched")
            continue
        if not (isinstance(restr, ast.Name) and isinstance(ent, ast.Name)):
            R.undecided("C06.R6", f.short, key(f, ctx.m.enclosing_stmt(call)), loc(f, call), "restriction or entity is not a local variable")
            continue
        F = ctx.facts(f, interproc=False)
        n = 0
        for st in ctx.m.walk_own(f.node):
            if not (isinstance(st, ast.Assign) and any(isinstance(t, ast.Name) and t.id == restr.id for t in st.targets)):
                continue
            if isinstance(st.value, ast.Constant) and st.value.value is None:
                continue
            n += 1
            facts = F.at(st)
            if facts is None:
                continue
            facts = set(facts)
            v = st.value
            if isinstance(v, ast.IfExp):
                none = lambda e: isinstance(e, ast.Constant) and e.value is None
                if none(v.orelse) and not none(v.body):
                    facts.add(("cond", unparse(v.test), True))
                elif none(v.body) and not none(v.orelse):
                    facts.add(("cond", unparse(v.test), False))
            if any(depth_idiom(fa, ent.id) for fa in facts):
                R.ok("C06.R6", f.short, key(f, st), loc(f, st), "restriction chosen under the nested-entity test")
            else:
                conds = sorted(fa[1] if fa[2] else f"not ({fa[1]})" for fa in facts if fa[0] == "cond" and ent.id in fa[1])
                R.violation("C06.R6", f.short, key(f, st), loc(f, st), f"the search is restricted to one file for an entity that need not be nested inside a program unit (conditions here: {'; '.join(conds)[:200] or 'none'}): occurrences in other files (USE association, submodules of the module) are neither listed nor renamed")
        if n == 0:
            R.undecided("C06.R6", f.short, key(f, ctx.m.enclosing_stmt(call)), loc(f, call), f"no assignment to `{restr.id}` found")


def run(ctx, R):
    g, hs = searcher(ctx)
    call, rx, loop = matcher(ctx, g)
    k = r1(ctx, R, g, call, rx, loop)
    r2(ctx, R, g, rx)
    if k is None:
        return
    lv = r3(ctx, R, g, rx, loop, k)
    r4(ctx, R, g, call, loop, lv)
    r5(ctx, R, g, hs)
    r6(ctx, R, g, hs)
