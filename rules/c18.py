"""C18 — exactly the configured source files are indexed at start-up
(DESIGN.md 3/C18): the filters and their order, not the resulting file set."""
from __future__ import annotations

import ast
import re

from sa import rex
from sa.model import AnalysisError, access_path, unparse

from .shared import calls_in, deref, dispatch_table, key, loc, server_class, slice_attrs

TAILS = {"", "77", "90", "95", "03", "05", "08", "18", "or", "pp"}


def _suffix_builder(ctx):
    """The function folding the default suffix pattern + user suffixes."""
    # the template with a hole for the user's suffixes whose constant part spells the `.f..` suffix family
    fam = re.compile(r"\\?\.(\[fF\]|f|F)[(\[]")
    hits = [rx for rx in ctx.p.inline if rx.func is not None and any(isinstance(p, rex.Hole) for p in rx.template) and fam.search(rx.text)]
    if not hits:
        raise AnalysisError("suffix pattern builder not found")
    return hits[0]


def r1(ctx, R):
    R.rule("C18.R1", "the suffix pattern is end-anchored per alternative, its default part is the literal suffix list, user suffixes are escaped, it is applied to bare file names", floor=6, confirmed=8)
    rx = _suffix_builder(ctx)
    f = rx.func
    if rx.tree is None:
        R.violation("C18.R1", f.short, "suffix template", loc(f, rx.node), f"template does not parse: {rx.error}")
        return
    alts = rex.top_alternatives(rx.tree)
    bad = [i for i, a in enumerate(alts) if not rex.ends_with_end_anchor(a)]
    if bad:
        R.violation("C18.R1", f.short, "suffix template anchoring", loc(f, rx.node), f"alternative(s) {bad} of {rx.text.replace(rex.HOLE, '{user}')!r} are not end-anchored: look-alike names such as x.f90.bak are indexed")
    else:
        R.ok("C18.R1", f.short, "suffix template anchoring", loc(f, rx.node), f"{len(alts)} alternatives, all end in $")
    # configured suffixes are matched as configured (documented: `.FYP` matches file.FYP, not file.fyp)
    if rx.ignorecase:
        R.violation("C18.R1", f.short, "configured suffixes are case-sensitive", loc(f, rx.node), "the template with the user's suffixes is compiled with IGNORECASE: a configured `.inc` also indexes X.INC and x.Inc - files outside the configured set contribute symbols")
    else:
        R.ok("C18.R1", f.short, "configured suffixes are case-sensitive", loc(f, rx.node))
    # default alternative language
    default_alt = None
    for a in alts:
        if not any(op is rex.C.LITERAL and chr(av) == rex.HOLE for op, av in rex.walk(a)):
            default_alt = a
            break
    if default_alt is None:
        R.undecided("C18.R1", f.short, "default suffixes", loc(f, rx.node), "no hole-free alternative")
    else:
        lang = rex.language(default_alt, ignorecase=rx.ignorecase)
        if lang is None:
            R.violation("C18.R1", f.short, "default suffixes", loc(f, rx.node), "the default alternative is not a finite list of suffixes (unbounded repetition or wildcard)")
        else:
            low = {w.lower() for w in lang}
            want = {".f" + t for t in TAILS}
            extra = sorted(low - want)
            missing = sorted(want - low)
            # help text of --incl_suffixes names the defaults the user is promised
            promised = set()
            for fn in ctx.m.funcs.values():
                if fn.rel.endswith("interface.py"):
                    for c in calls_in(fn.node):
                        if isinstance(c.func, ast.Attribute) and c.func.attr == "add_argument" and c.args and isinstance(c.args[0], ast.Constant) and c.args[0].value == "--incl_suffixes":
                            for kw in c.keywords:
                                if kw.arg == "help":
                                    from sa.model import const_str

                                    txt = const_str(kw.value) or ""
                                    promised = {m.lower() for m in re.findall(r"\.[A-Za-z0-9]+", txt)}
            missing_promised = sorted(promised - low)
            if extra or missing_promised:
                R.violation("C18.R1", f.short, "default suffixes", loc(f, rx.node), (f"matches non-Fortran suffix(es) {extra}; " if extra else "") + (f"documented default suffix(es) {missing_promised} are not matched" if missing_promised else ""))
            else:
                R.ok("C18.R1", f.short, "default suffixes", loc(f, rx.node), f"language (case-folded) = {sorted(low)}" + (f"; not matched (undocumented): {missing}" if missing else ""))
            uppers = {w for w in lang if w.upper() == w and w.lower() != w}
            lowers = {w for w in lang if w.lower() == w}
            if {w.lower() for w in uppers} != lowers:
                R.violation("C18.R1", f.short, "suffix letter case", loc(f, rx.node), "upper- and lower-case renderings of the default suffixes are not both matched")
            else:
                R.ok("C18.R1", f.short, "suffix letter case", loc(f, rx.node))
    # escaping variant used by the server
    sc = server_class(ctx)
    builders = set()
    for q in sc.methods.values():
        g = ctx.m.funcs[q]
        for st in ctx.m.walk_own(g.node):
            if isinstance(st, (ast.Assign, ast.AnnAssign)):
                t = st.targets[0] if isinstance(st, ast.Assign) else st.target
                if isinstance(t, ast.Attribute) and "SRC_EXT" in t.attr.upper() and isinstance(st.value, ast.Call):
                    k, tg = ctx.r.resolve_call(g, st.value)
                    for tq in tg:
                        builders.add((g, st, tq))
    if not builders:
        R.undecided("C18.R1", sc.name, "pattern construction", loc(sc.rel, sc.node), "no assignment of the suffix pattern found")
    for g, st, tq in sorted(builders, key=lambda x: x[1].lineno):
        h = ctx.m.funcs[tq]
        # does h escape its input before handing it to the template builder?
        escaped = False
        if h.qual == f.qual:
            escaped = False
        else:
            for c in calls_in(h.node):
                k, tg = ctx.r.resolve_call(h, c)
                if f.qual in tg and c.args:
                    a = c.args[0]
                    if isinstance(a, ast.Name):
                        from .shared import reaching_defs

                        rd = [v for v in reaching_defs(ctx, h, c, a.id) if v is not None and v != "param"]
                        if len(rd) == 1:
                            a = rd[0]
                    if isinstance(a, ast.ListComp) and isinstance(a.elt, ast.Call) and ctx.m.dotted(h.rel, a.elt.func) == "re.escape":
                        escaped = True
                    if isinstance(a, ast.Call) and isinstance(a.func, ast.Name) and a.func.id in ("map", "list"):
                        escaped = any(ctx.m.dotted(h.rel, x) == "re.escape" for x in ast.walk(a) if isinstance(x, (ast.Attribute, ast.Name)))
        if escaped:
            R.ok("C18.R1", g.short, key(g, st), loc(g, st), f"built through {h.short}: user suffixes pass re.escape")
        else:
            R.violation("C18.R1", g.short, key(g, st), loc(g, st), f"configured suffixes reach the pattern template unescaped (via {h.short}): '.inc' also matches 'xinc', a '+' or '(' breaks the pattern")
    # use sites: search on the bare name
    n = 0
    for q in sc.methods.values():
        g = ctx.m.funcs[q]
        for c in calls_in(g.node):
            if isinstance(c.func, ast.Attribute) and c.func.attr in ("search", "match", "fullmatch") and isinstance(c.func.value, ast.Attribute) and "SRC_EXT" in c.func.value.attr.upper():
                n += 1
                a = c.args[0] if c.args else None
                src = None
                if isinstance(a, ast.Name):
                    for st in ctx.m.walk_own(g.node):
                        if isinstance(st, ast.For) and isinstance(st.target, ast.Name) and st.target.id == a.id:
                            src = st.iter
                if c.func.attr == "match":
                    R.violation("C18.R1", g.short, key(g, ctx.m.enclosing_stmt(c)), loc(g, c), "the end-anchored suffix pattern is applied with match(): it can only match names that consist of the suffix")
                elif src is not None and isinstance(src, ast.Call) and ctx.m.dotted(g.rel, src.func) == "os.listdir":
                    R.ok("C18.R1", g.short, key(g, ctx.m.enclosing_stmt(c)), loc(g, c), "search() on a bare directory entry")
                else:
                    R.undecided("C18.R1", g.short, key(g, ctx.m.enclosing_stmt(c)), loc(g, c), "argument is not a loop variable over os.listdir")


def _collector(ctx):
    """The method producing the list of files handed to the worker pool."""
    sc = server_class(ctx)
    for q in sc.methods.values():
        g = ctx.m.funcs[q]
        loops = [(n, n.iter) for n in ctx.m.walk_own(g.node) if isinstance(n, ast.For)]
        # the submissions may also sit in a comprehension: {path: pool.apply_async(...) for path in files}
        loops += [(n, n.generators[0].iter) for n in ctx.m.walk_own(g.node) if isinstance(n, (ast.DictComp, ast.ListComp, ast.SetComp, ast.GeneratorExp)) and n.generators]
        for loop, iter_ in loops:
            if not any(isinstance(c.func, ast.Attribute) and c.func.attr in ("apply_async", "submit", "apply") for c in calls_in(loop)):
                continue
            it = deref(ctx, g, iter_)
            if isinstance(it, ast.Call):
                k, tg = ctx.r.resolve_call(g, it)
                if k in ("typed", "module", "import") and len(tg) == 1:
                    return ctx.m.funcs[next(iter(tg))]
    raise AnalysisError("source file collector (producer of the list handed to the pool) not found")


def r2(ctx, R):
    R.rule("C18.R2", "every file added to the start-up list has passed all four filters (regular file, suffix, not excluded path, not excluded suffix); candidates are direct directory entries", floor=5, confirmed=5)
    g = _collector(ctx)
    F = ctx.facts(g, interproc=False)

    def conjuncts(e, pol=True):
        """[(expr, polarity)] that all hold when `e` has truth value `pol`"""
        if isinstance(e, ast.UnaryOp) and isinstance(e.op, ast.Not):
            return conjuncts(e.operand, not pol)
        if isinstance(e, ast.BoolOp) and ((isinstance(e.op, ast.And) and pol) or (isinstance(e.op, ast.Or) and not pol)):
            out = []
            for v in e.values:
                out += conjuncts(v, pol)
            return out
        return [(e, pol)]

    def cond_exprs(fn, facts):
        out = []
        for fa in facts:
            if fa[0] == "cond":
                try:
                    out += conjuncts(ast.parse(fa[1], mode="eval").body, fa[2])
                except SyntaxError:
                    pass
        return out

    def checks_for(fn):
        return {
            "regular file": lambda e, pol: pol and isinstance(e, ast.Call) and ctx.m.dotted(fn.rel, e.func) in ("os.path.isfile",) or (pol and isinstance(e, ast.Call) and isinstance(e.func, ast.Attribute) and e.func.attr == "is_file"),
            "included suffix": lambda e, pol: pol and isinstance(e, ast.Call) and isinstance(e.func, ast.Attribute) and e.func.attr in ("search", "fullmatch") and "SRC_EXT" in unparse(e.func.value).upper(),
            "not in excluded paths": lambda e, pol: (not pol) and isinstance(e, ast.Compare) and isinstance(e.ops[0], ast.In) and "excl_paths" in unparse(e.comparators[0]) or (pol and isinstance(e, ast.Compare) and isinstance(e.ops[0], ast.NotIn) and "excl_paths" in unparse(e.comparators[0])),
            "not an excluded suffix": lambda e, pol: (not pol) and "excl_suffixes" in unparse(e) and "endswith" in unparse(e),
        }

    def verdicts(fn, conds, where_node, label):
        for name, pred in checks_for(fn).items():
            if any(pred(e, pol) for e, pol in conds):
                R.ok("C18.R2", fn.short, f"{label} :: {name}", loc(fn, where_node), "filter dominates the acceptance")
            else:
                R.violation("C18.R2", fn.short, f"{label} :: {name}", loc(fn, where_node), f"a path accepts a file without the '{name}' filter: files outside the configured set are indexed")

    rets = [n for n in ctx.m.walk_own(g.node) if isinstance(n, ast.Return) and n.value is not None]
    ret_names = [n.value.id for n in rets if isinstance(n.value, ast.Name)]
    appends = [c for c in calls_in(g.node) if isinstance(c.func, ast.Attribute) and c.func.attr in ("append", "extend", "insert") and isinstance(c.func.value, ast.Name) and c.func.value.id in ret_names]
    comps = [deref(ctx, g, n.value) for n in rets]
    comps = [c for c in comps if isinstance(c, (ast.ListComp, ast.GeneratorExp, ast.SetComp))]
    if appends:
        for c in appends:
            st = ctx.m.enclosing_stmt(c)
            verdicts(g, cond_exprs(g, F.at(c) or set()), c, key(g, st))
    elif comps:
        # [path for d in dirs for name in os.listdir(d) if <filters>], the filters inline or in a predicate method
        for comp in comps:
            base = []
            preds = []
            for gen in comp.generators:
                for i in gen.ifs:
                    for e, pol in conjuncts(i):
                        if pol and isinstance(e, ast.Call):
                            k_, tg = ctx.r.resolve_call(g, e)
                            tg = [t for t in tg if t in ctx.m.funcs] if k_ in ("typed", "nested", "module", "import", "super") else []
                            if len(tg) == 1:
                                preds.append(ctx.m.funcs[tg[0]])
                                continue
                        base.append((e, pol))
            if not preds:
                verdicts(g, base, comp, "comprehension filter")
            for P in preds:
                FP = ctx.facts(P, interproc=False)
                n_acc = 0
                for r in (n for n in ctx.m.walk_own(P.node) if isinstance(n, ast.Return)):
                    v = r.value
                    if v is None or (isinstance(v, ast.Constant) and not v.value):
                        continue
                    n_acc += 1
                    conds = cond_exprs(P, FP.at(r) or set())
                    if not (isinstance(v, ast.Constant) and v.value is True):
                        conds = conds + conjuncts(v)
                    verdicts(P, conds + base, r, key(P, r))
                if n_acc == 0:
                    R.undecided("C18.R2", P.short, "accepting return", loc(P, P.node), "the predicate has no accepting return")
    else:
        R.undecided("C18.R2", g.short, "collector shape", loc(g, g.node), "neither appends to the returned list nor a filtered comprehension")
        return
    # candidates: direct entries only
    walk = [c for c in calls_in(g.node) if isinstance(c.func, (ast.Attribute, ast.Name)) and (ctx.m.dotted(g.rel, c.func) in ("os.walk", "glob.glob", "glob.iglob") or (isinstance(c.func, ast.Attribute) and c.func.attr in ("rglob", "walk")))]
    if walk:
        R.violation("C18.R2", g.short, key(g, ctx.m.enclosing_stmt(walk[0])), loc(g, walk[0]), "source directories are searched recursively: files that do not lie directly in a source directory are indexed")
    else:
        R.ok("C18.R2", g.short, "candidates are os.listdir entries", loc(g, g.node))


def r3(ctx, R):
    R.rule("C18.R3", "directory discovery: recursive default only without configured directories; globs resolved against the root; exclusions subtracted after expansion", floor=5, confirmed=8)
    sc = server_class(ctx)
    adder = resolver = None
    for q in sc.methods.values():
        g = ctx.m.funcs[q]
        names = {ctx.m.dotted(g.rel, c.func) for c in calls_in(g.node) if isinstance(c.func, (ast.Attribute, ast.Name))}
        if "os.walk" in names:
            adder = g
        if any(isinstance(c.func, ast.Name) and c.func.id == "resolve_globs" for c in calls_in(g.node)):
            resolver = g
    if adder is None or resolver is None:
        raise AnalysisError("directory discovery functions not found")
    # the recursive walk visits the whole tree: its directory list is not pruned
    for lp in (n for n in ctx.m.walk_own(adder.node) if isinstance(n, ast.For) and isinstance(n.iter, ast.Call) and ctx.m.dotted(adder.rel, n.iter.func) == "os.walk"):
        dv = lp.target.elts[1].id if isinstance(lp.target, ast.Tuple) and len(lp.target.elts) == 3 and isinstance(lp.target.elts[1], ast.Name) else None
        topdown_false = any(kw.arg == "topdown" and isinstance(kw.value, ast.Constant) and kw.value.value is False for kw in lp.iter.keywords)
        prune = None
        for n in ast.walk(lp):
            if dv is None:
                break
            if isinstance(n, ast.Assign) and any(isinstance(t, ast.Subscript) and isinstance(t.value, ast.Name) and t.value.id == dv for t in n.targets):
                prune = n
            elif isinstance(n, ast.Call) and isinstance(n.func, ast.Attribute) and isinstance(n.func.value, ast.Name) and n.func.value.id == dv and n.func.attr in ("remove", "clear", "pop"):
                prune = n
            elif isinstance(n, ast.Delete) and any(isinstance(t, ast.Subscript) and isinstance(t.value, ast.Name) and t.value.id == dv for t in n.targets):
                prune = n
        if prune is not None and not topdown_false:
            R.violation("C18.R3", adder.short, "recursive walk visits every directory", loc(adder, prune), f"the walk's directory list `{dv}` is pruned: sub-directories of a pruned directory are never visited, so source directories that no exclusion path matches are silently left out")
        else:
            R.ok("C18.R3", adder.short, "recursive walk visits every directory", loc(adder, lp))
    # adder: early returns + guarded add
    F = ctx.facts(adder, interproc=False)
    adds = [c for c in calls_in(adder.node) if isinstance(c.func, ast.Attribute) and c.func.attr == "add" and "source_dirs" in unparse(c.func.value)]
    walkc = [c for c in calls_in(adder.node) if ctx.m.dotted(adder.rel, c.func) == "os.walk"][0]
    # early returns that dominate the walk (the option is re-bound in between,
    # so this is a dominance question, not a fact at the walk)
    early = []
    for st in adder.node.body:
        if st.lineno >= walkc.lineno:
            break
        if isinstance(st, ast.If) and st.body and isinstance(st.body[-1], ast.Return) and not st.orelse:
            early.append(unparse(st.test))
    only_default = any("len(" in t and "source_dirs" in t for t in early) and any("root_path" in t and "source_dirs" in t for t in early)
    if not only_default and not early:
        # the guard may live with the callers: every call site is dominated by both conditions
        sites = []
        for g in ctx.m.funcs.values():
            for c in calls_in(g.node):
                if ctx.m.enclosing_func(c) is g and adder.qual in ctx.r.resolve_call(g, c)[1]:
                    sites.append((g, c))
        def guarded(g, c):
            conds = [fa[1] for fa in (ctx.facts(g, interproc=False).at(c) or ()) if fa[0] == "cond" and fa[2] is True]
            one = any(t.replace(" ", "") in ("len(self.source_dirs)==1", "1==len(self.source_dirs)") for t in conds)
            root = any("root_path" in t and " in " in t and t.endswith("source_dirs") and " not in " not in t for t in conds)
            return one and root
        if sites and all(guarded(g, c) for g, c in sites):
            only_default = True
    if only_default:
        R.ok("C18.R3", adder.short, "recursive walk only for the default configuration", loc(adder, walkc), "dominated by the two early returns")
    else:
        R.violation("C18.R3", adder.short, "recursive walk only for the default configuration", loc(adder, walkc), "the recursive discovery also runs when source directories were configured")
    for c in adds:
        facts = F.at(c) or set()
        cs = [(fa[1], fa[2]) for fa in facts if fa[0] == "cond"]
        def mentions_suffix(t):
            if "SRC_EXT" in t.upper():
                return True
            try:
                ex = ast.parse(t, mode="eval").body
            except SyntaxError:
                return False
            # the matcher may be bound to a local first (`is_src = self.FORTRAN_SRC_EXT_REGEX.search`)
            return any("SRC_EXT" in a.upper() for a in slice_attrs(ctx, adder, ex, ctx.m.enclosing_stmt(c)))

        has_suffix = any(mentions_suffix(t) for t, p in cs)
        not_excl = any(("excl_paths" in t and ((" not in " in t and p) or (" in " in t and " not in " not in t and not p))) for t, p in cs) or ("notin" in {fa[0] for fa in facts if len(fa) > 2 and "excl_paths" in str(fa[2])})
        st = ctx.m.enclosing_stmt(c)
        if has_suffix and not_excl:
            R.ok("C18.R3", adder.short, key(adder, st), loc(adder, c), "directory added only if it holds a source file and is not excluded")
        else:
            R.violation("C18.R3", adder.short, key(adder, st), loc(adder, c), "a directory is added " + ("without containing a matching file" if not has_suffix else "although it is in excl_paths"))
    # resolver: every resolve_globs gets the root; only_dirs for directory options; subtraction last
    rcalls = [c for c in calls_in(resolver.node) if isinstance(c.func, ast.Name) and c.func.id == "resolve_globs"]
    for c in rcalls:
        st = ctx.m.enclosing_stmt(c)
        root_ok = (len(c.args) >= 2 and "root_path" in unparse(c.args[1])) or any(kw.arg == "root_path" and "root_path" in unparse(kw.value) for kw in c.keywords)
        if root_ok:
            R.ok("C18.R3", resolver.short, key(resolver, st), loc(resolver, c), "glob resolved against the workspace root")
        else:
            R.violation("C18.R3", resolver.short, key(resolver, st), loc(resolver, c), "glob is resolved without the workspace root: relative paths are taken from the process directory")
        # which option does this loop expand?
        loop = ctx.m.parent.get(st)
        while loop is not None and not isinstance(loop, ast.For):
            loop = ctx.m.parent.get(loop)
        from .shared import deref as _deref

        opt = unparse(_deref(ctx, resolver, loop.iter)) if loop is not None else ""
        if "excl_paths" in opt:
            # exclusions name files as well as directories (the file enumeration tests every file path against them)
            par = ctx.m.parent.get(c)
            dirs_only = isinstance(par, ast.Call) and isinstance(par.func, (ast.Name, ast.Attribute)) and (par.func.id if isinstance(par.func, ast.Name) else par.func.attr) in ("only_dirs", "isdir", "is_dir")
            file_tests = [x for g_ in ctx.m.funcs.values() for x in ast.walk(g_.node) if isinstance(x, ast.Compare) and len(x.ops) == 1 and isinstance(x.ops[0], (ast.In, ast.NotIn)) and unparse(x.comparators[0]).endswith("excl_paths") and g_.qual not in (adder.qual, resolver.qual)]
            if dirs_only and file_tests:
                R.violation("C18.R3", resolver.short, key(resolver, st) + " :: files and directories", loc(resolver, c), "the expanded exclusions are reduced to directories: an excluded *file* (a literal path or a glob such as **/*_old.f90) is dropped from excl_paths and therefore still indexed")
            elif dirs_only:
                R.undecided("C18.R3", resolver.short, key(resolver, st) + " :: files and directories", loc(resolver, c), "exclusions reduced to directories and no per-file exclusion test found")
            else:
                R.ok("C18.R3", resolver.short, key(resolver, st) + " :: files and directories", loc(resolver, c), "exclusions keep files and directories")
        if "source_dirs" in opt or "include_dirs" in opt:
            par = ctx.m.parent.get(c)
            wrapped = isinstance(par, ast.Call) and isinstance(par.func, ast.Name) and par.func.id == "only_dirs"
            if wrapped:
                R.ok("C18.R3", resolver.short, key(resolver, st) + " :: directories only", loc(resolver, c))
            else:
                R.violation("C18.R3", resolver.short, key(resolver, st) + " :: directories only", loc(resolver, c), f"{opt} is expanded without keeping directories only")
    # subtraction after both expansions
    sub = None
    for st in ctx.m.walk_own(resolver.node):
        if isinstance(st, ast.Assign) and isinstance(st.targets[0], ast.Attribute) and st.targets[0].attr == "source_dirs" and "excl_paths" in unparse(st.value):
            sub = st
    if sub is None:
        R.violation("C18.R3", resolver.short, "exclusions subtracted from source_dirs", loc(resolver, resolver.node), "excluded paths are never removed from the source directories")
    else:
        later = [c for c in rcalls if c.lineno > sub.lineno and any(x in unparse(ctx.m.enclosing_stmt(c)) for x in ("excl_paths", "source_dirs"))]
        loops_after = [st for st in ctx.m.walk_own(resolver.node) if isinstance(st, ast.For) and st.lineno > sub.lineno and ("excl_paths" in unparse(st.iter) or "source_dirs" in unparse(st.iter))]
        if loops_after:
            R.violation("C18.R3", resolver.short, key(resolver, sub), loc(resolver, sub), "exclusions are subtracted before excl_paths / source_dirs have been glob-expanded")
        else:
            R.ok("C18.R3", resolver.short, key(resolver, sub), loc(resolver, sub), "subtracted after both options are expanded")
    return adder, resolver


def r4(ctx, R, adder, resolver):
    R.rule("C18.R4", "initialize: load configuration, then resolve globs, then discover directories, then index", floor=1, confirmed=1)
    from .c19 import config_loader

    cfgf, _ = config_loader(ctx)
    for q in dispatch_table(ctx).get("initialize", ()):
        g = ctx.m.funcs[q]
        pos = {}
        for c in calls_in(g.node):
            k, tg = ctx.r.resolve_call(g, c)
            for t in tg:
                if t == cfgf.qual:
                    pos["load"] = c.lineno
                elif t == resolver.qual:
                    pos["globs"] = c.lineno
                elif t == adder.qual:
                    pos["dirs"] = c.lineno
                else:
                    h = ctx.m.funcs.get(t)
                    if h is not None and h.cls == g.cls and any(isinstance(x.func, ast.Attribute) and x.func.attr in ("apply_async", "map", "imap") for x in calls_in(h.node)):
                        pos["index"] = c.lineno
        order = ["load", "globs", "dirs", "index"]
        if all(k in pos for k in order) and [pos[k] for k in order] == sorted(pos[k] for k in order):
            R.ok("C18.R4", g.short, "call order " + " < ".join(order), loc(g, g.node), str(pos))
        else:
            R.violation("C18.R4", g.short, "call order " + " < ".join(order), loc(g, g.node), f"filters do not see the final settings: positions {pos}")


def r5(ctx, R):
    """The expansion primitive decides which names a `*` can match.  pathlib's Path.glob /
    rglob and fnmatch let `*` match names that begin with a dot; glob.glob / glob.iglob skip
    them unless include_hidden=True: an exclusion `gen/*` would then keep gen/.scratch.f90 in
    the index and `**` would leave out sources in dot-directories."""
    R.rule("C18.R5", "glob patterns are expanded by a primitive whose `*` also matches names beginning with a dot (every directory or file matched by a pattern is in / out, hidden or not)", floor=1, confirmed=2)
    g = ctx.m.fn_opt("resolve_globs")
    if g is None:
        R.undecided("C18.R5", "resolve_globs", "expansion primitive", ("fortls/helper_functions.py", 1), "resolve_globs not found")
        return
    n = 0
    for c in calls_in(g.node):
        d = ctx.m.dotted(g.rel, c.func) if isinstance(c.func, (ast.Name, ast.Attribute)) else None
        st = ctx.m.enclosing_stmt(c)
        if d in ("glob.glob", "glob.iglob", "glob.glob0", "glob.glob1"):
            n += 1
            hidden = any(kw.arg == "include_hidden" and isinstance(kw.value, ast.Constant) and kw.value.value is True for kw in c.keywords)
            if hidden:
                R.ok("C18.R5", g.short, key(g, st), loc(g, c), f"{d}(..., include_hidden=True)")
            else:
                R.violation("C18.R5", g.short, key(g, st), loc(g, c), f"{d}() does not let `*` / `**` match names that begin with a dot: source directories such as `.hidden/` are no longer found by `**`, and files such as `gen/.scratch.f90` are no longer removed by the exclusion `gen/*`")
        elif isinstance(c.func, ast.Attribute) and c.func.attr in ("glob", "rglob") and d not in ("glob.glob",):
            n += 1
            R.ok("C18.R5", g.short, key(g, st), loc(g, c), f"pathlib .{c.func.attr}(): `*` matches hidden names too")
        elif d and d.startswith("fnmatch."):
            n += 1
            R.ok("C18.R5", g.short, key(g, st), loc(g, c), f"{d}: `*` matches hidden names too")
    if n == 0:
        R.undecided("C18.R5", g.short, "expansion primitive", loc(g, g.node), "no glob primitive recognised in resolve_globs")


def run(ctx, R):
    r1(ctx, R)
    r2(ctx, R)
    adder, resolver = r3(ctx, R)
    r4(ctx, R, adder, resolver)
    r5(ctx, R)
