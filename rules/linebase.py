"""Line-number base analysis (DESIGN.md C04.R4): a three-valued dimension
(1-based, 0-based, unknown) over integer expressions, checked at the sinks
that require one base or the other.  Shared by C04, C05, C07, C09."""
from __future__ import annotations

import ast

from sa.model import unparse

from .shared import calls_in, defs_of, reaching_def_nodes

# fields whose stored values are 1-based editor line numbers (derived below and
# checked against this expectation)
ONE_FIELDS = {"sline", "eline", "line_number", "contains_start", "implicit_line", "_line_no"}
# sinks: callee name -> {param position or keyword: required base}
ZERO_SINKS = {
    "range_json": {0: 0, 2: 0, "sln": 0, "eln": 0},
    "diagnostic_json": {0: 0, 2: 0, "sln": 0, "eln": 0},
    "uri_json": {1: 0, 3: 0, "sln": 0, "eln": 0},
    "location_json": {1: 0, 3: 0, "sln": 0, "eln": 0},
    "symbol_json": {3: 0, 5: 0, "sln": 0, "eln": 0},
    "change_json": {1: 0, 3: 0, "sln": 0, "eln": 0},
    "Diagnostic": {0: 0, "sline": 0},
    "get_line": {0: 0, "line_no": 0},
    "get_code_line": {0: 0, "line_no": 0},
    "find_word_in_code_line": {0: 0, "line_no": 0},
    "add_related": {1: 0, "line": 0},
}
ONE_SINKS = {
    "get_inner_scope": {0: 1, "line_number": 1},
    "get_scopes": {0: 1, "line_number": 1},
    "find_in_scope": {"var_line_number": 1, 5: 1},
    "add_error": {2: 1, "ln": 1},
    "start_ppif": {0: 1},
    "end_ppif": {0: 1},
}


class LineBase:
    def __init__(self, ctx):
        self.ctx = ctx
        self._busy = set()

    def base(self, f, e, at=None, depth=0):
        """0, 1 or None (unknown) for an integer expression"""
        ctx = self.ctx
        if e is None or depth > 8:
            return None
        if isinstance(e, ast.Attribute):
            if e.attr in ONE_FIELDS:
                # Diagnostic.sline is 0-based (its constructor is always given x - 1)
                ks = ctx.r.expr_classes(f, e.value)
                if ks and all(ctx.m.classes[k].name == "Diagnostic" for k in ks):
                    return 0
                if isinstance(e.value, ast.Name) and e.value.id == "self" and f.cls and ctx.m.classes[f.cls].name == "Diagnostic":
                    return 0
                return 1
            return None
        if isinstance(e, ast.Subscript):
            # request positions: params["position"]["line"], [...]["start"]["line"]
            if isinstance(e.slice, ast.Constant) and e.slice.value == "line":
                return 0
            return None
        if isinstance(e, ast.BinOp) and isinstance(e.op, (ast.Add, ast.Sub)) and isinstance(e.right, ast.Constant) and isinstance(e.right.value, int):
            b = self.base(f, e.left, at, depth + 1)
            if b is None:
                return None
            d = e.right.value if isinstance(e.op, ast.Add) else -e.right.value
            nb = b + d
            return nb if nb in (0, 1) else -9  # -9: shifted out of both bases
        if isinstance(e, ast.Name):
            key = (f.qual, e.id, id(at))
            if key in self._busy:
                return None
            self._busy.add(key)
            try:
                rdn = reaching_def_nodes(ctx, f, at, e.id) if at is not None else [st for st, _ in defs_of(ctx, f, e.id)]
                vals = set()
                for st in rdn:
                    if st == "param":
                        vals.add(self.param(f, e.id, depth + 1))
                    elif isinstance(st, (ast.Assign, ast.AnnAssign)) and getattr(st, "value", None) is not None and isinstance((st.targets[0] if isinstance(st, ast.Assign) else st.target), ast.Name):
                        vals.add(self.base(f, st.value, st.value, depth + 1))
                    elif isinstance(st, ast.AugAssign) and isinstance(st.value, ast.Constant):
                        return None  # running counters: not a fixed base
                    elif isinstance(st, (ast.For,)):
                        it = st.iter
                        # for i, line in enumerate(buffer): i is a 0-based line index
                        if isinstance(it, ast.Call) and isinstance(it.func, ast.Name) and it.func.id == "enumerate" and isinstance(st.target, ast.Tuple) and isinstance(st.target.elts[0], ast.Name) and st.target.elts[0].id == e.id and it.args and "contents" in unparse(it.args[0]) and len(it.args) == 1:
                            vals.add(0)
                        else:
                            vals.add(None)
                    else:
                        vals.add(None)
                if len(vals) == 1:
                    return vals.pop()
                return None
            finally:
                self._busy.discard(key)
        if isinstance(e, ast.IfExp):
            a, b = self.base(f, e.body, at, depth + 1), self.base(f, e.orelse, at, depth + 1)
            return a if a == b else None
        return None

    def param(self, f, name, depth):
        """base of a parameter: what every caller in the package passes"""
        ctx = self.ctx
        if depth > 6:
            return None
        # declared sinks give the base of their own parameters
        for table, req in ((ZERO_SINKS, 0), (ONE_SINKS, 1)):
            if f.name in table and name in table[f.name]:
                return table[f.name][name]
        callers = [(g, c, k) for g, c, k in ctx.r.callers(f.qual, by_name=True) if not g.rel.endswith("debug.py")]
        vals = set()
        for g, c, k in callers:
            a = ctx.e._actual(c, k, f, name)
            if a is None:
                continue
            vals.add(self.base(g, a, c, depth + 1))
        if len(vals) == 1:
            return vals.pop()
        return None


def sink_instances(ctx, funcs=None):
    """[(func, call, arg expr, required base, sink name)]"""
    out = []
    for f in ctx.m.funcs.values():
        if f.rel.endswith("debug.py"):
            continue
        if funcs is not None and f.qual not in funcs:
            continue
        for c in calls_in(f.node):
            if ctx.m.enclosing_func(c) is not f:
                continue
            nm = c.func.id if isinstance(c.func, ast.Name) else (c.func.attr if isinstance(c.func, ast.Attribute) else None)
            for table in (ZERO_SINKS, ONE_SINKS):
                spec = table.get(nm)
                if not spec:
                    continue
                for i, a in enumerate(c.args):
                    if i in spec:
                        out.append((f, c, a, spec[i], nm))
                for kw in c.keywords:
                    if kw.arg in spec:
                        out.append((f, c, kw.value, spec[kw.arg], nm))
        # literal positions {"line": X}
        for n in ctx.m.walk_own(f.node):
            if isinstance(n, ast.Dict):
                for k_, v in zip(n.keys, n.values):
                    if isinstance(k_, ast.Constant) and k_.value == "line":
                        out.append((f, n, v, 0, '{"line": ...}'))
    return out


def default_scope(ctx):
    """Functions in which `+ 1` / `- 1` on a line value is a base conversion:
    the request handlers, the JSON builders, the diagnostic checkers.  The
    parser's own navigation between neighbouring buffer lines (get_code_line,
    parse, get_docstring ...) does index arithmetic and is left out."""
    out = set()
    for q, f in ctx.m.funcs.items():
        if f.rel.endswith("debug.py"):
            continue
        if f.rel.endswith(("langserver.py", "json_templates.py", "diagnostics.py")):
            out.add(q)
        elif f.rel.startswith("fortls/parsers/internal/") and not f.rel.endswith("parser.py"):
            out.add(q)
        elif f.rel.endswith("parser.py") and f.name in ("check_file",):
            out.add(q)
    return out


def check(ctx, R, rule, funcs=None, doc=None, floor=5):
    """Run the base check over the sinks inside `funcs` (all when None)."""
    if doc:
        R.rule(rule, doc, floor=floor, confirmed=floor)
    from .shared import key, loc

    LB = LineBase(ctx)
    n = 0
    for f, c, a, req, nm in sink_instances(ctx, funcs):
        if isinstance(a, ast.Constant):
            continue
        b = LB.base(f, a, c)
        st = ctx.m.enclosing_stmt(c) if not isinstance(c, ast.Dict) else ctx.m.enclosing_stmt(c)
        k = f"{unparse(a)[:40]} -> {nm} in {key(f, st)[:60]}"
        if b is None:
            R.observe(rule, f.short, k, loc(f, c), "base of the argument not derivable")
            continue
        n += 1
        if b == req:
            R.ok(rule, f.short, k, loc(f, c), f"{b}-based as required")
        else:
            what = "an editor line number (1-based)" if b == 1 else ("an LSP/buffer index (0-based)" if b == 0 else "shifted out of range")
            need = "a 0-based line" if req == 0 else "a 1-based line number"
            R.violation(rule, f.short, k, loc(f, c), f"`{unparse(a)}` is {what} but {nm} expects {need}: every position is off by one line")
    return n
