"""C20 — cyclic program structure never causes unbounded recursion
(DESIGN.md 3/C20): every recursive descent over a user-controlled edge is
guarded."""
from __future__ import annotations

import ast
import sys

from sa.model import AnalysisError, access_path, unparse

from .shared import calls_in, defs_of, deref, dispatch_table, key, loc, single_def

TREE_FIELDS = {"parent", "children"}  # written by add_child/set_parent for objects the parser just built
LOOKUPS = {"find_in_scope", "climb_type_tree", "find_in_workspace", "get_use_tree"}


def sccs(nodes, succ):
    sys.setrecursionlimit(max(10000, sys.getrecursionlimit()))
    idx, low, st, on, out, c = {}, {}, [], set(), [], [0]

    def sc(v):
        idx[v] = low[v] = c[0]
        c[0] += 1
        st.append(v)
        on.add(v)
        for w in succ(v):
            if w not in idx:
                sc(w)
                low[v] = min(low[v], low[w])
            elif w in on:
                low[v] = min(low[v], idx[w])
        if low[v] == idx[v]:
            comp = []
            while True:
                w = st.pop()
                on.discard(w)
                comp.append(w)
                if w == v:
                    break
            out.append(comp)

    for v in nodes:
        if v not in idx:
            sc(v)
    return out


class LinkFields:
    """Field classes derived from all assignments in the package."""

    def __init__(self, ctx):
        self.ctx = ctx
        self.link = {}  # field -> reason
        self._fc = {}
        self._derive()

    def _is_lookup(self, f, e, depth=0):
        """Does expression e (following single-assignment locals) come from a
        name lookup / the workspace table / another object's link field?"""
        if depth > 4 or e is None:
            return None
        if isinstance(e, ast.Call):
            fn = e.func
            nm = fn.id if isinstance(fn, ast.Name) else (fn.attr if isinstance(fn, ast.Attribute) else None)
            if nm in LOOKUPS:
                return f"result of {nm}()"
            if isinstance(fn, ast.Attribute) and fn.attr in ("get", "pop") :
                p = access_path(fn.value)
                if p and p.split(".")[-1] in ("obj_tree", "workspace", "global_dict"):
                    return f"lookup in {p.split('.')[-1]}"
            if nm in ("next", "copy", "list", "sorted"):
                for a in e.args:
                    r = self._is_lookup(f, a, depth + 1)
                    if r:
                        return r
            return None
        if isinstance(e, ast.Subscript):
            p = access_path(e.value) if not isinstance(e.value, ast.Subscript) else access_path(e.value.value)
            if p and p.split(".")[-1] in ("obj_tree", "workspace", "global_dict"):
                return f"lookup in {p.split('.')[-1]}"
            return self._is_lookup(f, e.value, depth + 1)
        if isinstance(e, ast.Name):
            ds = defs_of(self.ctx, f, e.id)
            for st, v in ds:
                if v is not None:
                    r = self._is_lookup(f, v, depth + 1)
                    if r:
                        return r
                elif isinstance(st, (ast.For, ast.comprehension)):
                    r = self._is_lookup(f, st.iter, depth + 1)
                    if r:
                        return r
            return None
        if isinstance(e, ast.Attribute):
            if e.attr in self.link:
                return f"copy of link field {e.attr}"
            return None
        if isinstance(e, (ast.List, ast.Tuple)):
            for x in e.elts:
                r = self._is_lookup(f, x, depth + 1)
                if r:
                    return r
        if isinstance(e, ast.IfExp):
            return self._is_lookup(f, e.body, depth + 1) or self._is_lookup(f, e.orelse, depth + 1)
        return None

    def _derive(self):
        ctx = self.ctx
        for _ in range(3):  # copies of link fields need a second pass
            for f in ctx.m.funcs.values():
                if f.rel.endswith("debug.py"):
                    continue
                for n in ctx.m.walk_own(f.node):
                    if isinstance(n, ast.Assign):
                        for t in n.targets:
                            if isinstance(t, ast.Attribute) and t.attr not in TREE_FIELDS:
                                r = self._is_lookup(f, n.value)
                                if r:
                                    self.link.setdefault(t.attr, f"{r} in {f.short}")
                            elif isinstance(t, ast.Subscript) and isinstance(t.value, ast.Attribute) and t.value.attr not in TREE_FIELDS:
                                r = self._is_lookup(f, n.value)
                                if r:
                                    self.link.setdefault(t.value.attr, f"{r} in {f.short}")
                    elif isinstance(n, ast.Call) and isinstance(n.func, ast.Attribute) and n.func.attr in ("append", "extend", "insert", "add") and isinstance(n.func.value, ast.Attribute):
                        fld = n.func.value.attr
                        if fld in TREE_FIELDS:
                            continue
                        for a in n.args:
                            r = self._is_lookup(f, a)
                            if r:
                                self.link.setdefault(fld, f"{r} in {f.short}")


def _field_class(self, field):
    """Class of the objects stored in a non-link field, from all its stores."""
    if field in self._fc:
        return self._fc[field]
    self._fc[field] = None  # in progress: recursive references add nothing
    ctx = self.ctx
    best = None
    for f in ctx.m.funcs.values():
        if f.rel.endswith("debug.py"):
            continue
        for n in ctx.m.walk_own(f.node):
            vals = []
            if isinstance(n, ast.Assign):
                for t in n.targets:
                    if isinstance(t, ast.Attribute) and t.attr == field:
                        vals.append(n.value)
                    elif isinstance(t, ast.Subscript) and isinstance(t.value, ast.Attribute) and t.value.attr == field:
                        vals.append(n.value)
            elif isinstance(n, ast.Call) and isinstance(n.func, ast.Attribute) and n.func.attr in ("append", "extend", "insert", "add") and isinstance(n.func.value, ast.Attribute) and n.func.value.attr == field:
                vals += list(n.args)
            for v in vals:
                if isinstance(v, ast.Constant):
                    continue
                best = worst(best, classify_expr(ctx, self, f, v, 3))
    self._fc[field] = best
    return best


LinkFields.field_class = _field_class


def _root_valued(self, field):
    """All non-None stores into the field take a value straight out of the
    workspace table of top-level units (obj_tree[...][0])."""
    ctx = self.ctx
    n = 0
    for f in ctx.m.funcs.values():
        if f.rel.endswith("debug.py"):
            continue
        for st in ctx.m.walk_own(f.node):
            if isinstance(st, ast.Assign):
                for t in st.targets:
                    if isinstance(t, ast.Attribute) and t.attr == field:
                        if isinstance(st.value, ast.Constant) and st.value.value is None:
                            continue
                        n += 1
                        v = st.value
                        vals = [v]
                        if isinstance(v, ast.Name):
                            vals = [x for _, x in defs_of(ctx, f, v.id)]
                        for x in vals:
                            ok = False
                            if isinstance(x, ast.Subscript) and isinstance(x.value, ast.Subscript):
                                p = access_path(x.value.value)
                                ok = bool(p) and p.split(".")[-1] == "obj_tree" and isinstance(x.slice, ast.Constant) and x.slice.value == 0
                            if not ok:
                                return False
    return n > 0


LinkFields.root_valued = _root_valued


class Edge:
    def __init__(self, f, call, kind, target, cls, via):
        self.f, self.call, self.kind, self.target, self.cls, self.via = f, call, kind, target, cls, via
        self.guard = None


def classify_expr(ctx, LF, f, e, depth=0, seen=None, narrow=None):
    """(class, via) of the object an expression denotes relative to the
    function's own object: SAME | TREE | LINK | TEXT | UNKNOWN."""
    seen = seen or set()
    if depth > 9 or e is None:
        return "UNKNOWN", unparse(e) if e is not None else "?"
    if isinstance(e, ast.Constant):
        return "TEXT", "constant"
    if isinstance(e, ast.Name):
        b = ctx.r.benv(f).get(e.id)
        if b in ("str", "int", "bool", "float", "match", "pattern") and e.id not in ctx.r.env(f):
            return "TEXT", e.id
        if _external_param(ctx, f, e.id):
            return "TEXT", e.id + " (external type)"
        if e.id in f.params and not defs_of(ctx, f, e.id):
            if b in ("list", "dict", "set", "tuple") and e.id not in ctx.r.env(f):
                return "TEXT", e.id
            return "SAME", e.id
        if e.id in seen:
            return "SAME", e.id
        seen = seen | {e.id}
        best = None
        cur = f
        ds = defs_of(ctx, f, e.id)
        owner = f
        while not ds and owner.parent:
            owner = ctx.m.funcs[owner.parent]
            ds = defs_of(ctx, owner, e.id)
            if e.id in owner.params and not ds:
                return "SAME", e.id
        for n in ctx.m.walk_own(owner.node):
            # containers grown in place: x.extend(v) / x.append(v) / x += v
            if isinstance(n, ast.Call) and isinstance(n.func, ast.Attribute) and n.func.attr in ("extend", "append", "insert", "add", "update") and isinstance(n.func.value, ast.Name) and n.func.value.id == e.id:
                for a in n.args:
                    best = worst(best, classify_expr(ctx, LF, owner, a, depth + 1, seen, narrow))
            elif isinstance(n, ast.AugAssign) and isinstance(n.target, ast.Name) and n.target.id == e.id:
                best = worst(best, classify_expr(ctx, LF, owner, n.value, depth + 1, seen, narrow))
        descs = set()
        for st, v in ds:
            if isinstance(st, ast.AugAssign):
                continue
            if v is None and isinstance(st, (ast.For, ast.comprehension)):
                c = classify_expr(ctx, LF, owner, st.iter, depth + 1, seen, narrow)
            elif v is None:
                c = ("UNKNOWN", e.id)
            else:
                c = classify_expr(ctx, LF, owner, v, depth + 1, seen, narrow)
            if c and c[0] in ("LINK",):
                descs.add(c)
            best = worst(best, c)
        if len(descs) > 1:
            # the variable is re-bound from different name-resolved sources (a link field here, a
            # workspace look-up there): no guard on a single field covers the edge
            return "LINK", "one of " + " | ".join(sorted(d_[1] for d_ in descs))
        if best is None:
            b = ctx.r.benv(f).get(e.id)
            return ("TEXT", e.id) if b else ("UNKNOWN", e.id)
        return best
    if isinstance(e, ast.Attribute):
        if e.attr in LF.link:
            return "LINK", e.attr
        if e.attr in TREE_FIELDS:
            return "TREE", e.attr
        base = classify_expr(ctx, LF, f, e.value, depth + 1, seen, narrow)
        ks = ctx.r.expr_classes(f, e)
        b = ctx.r.expr_builtin(f, e)
        if b in ("str", "int", "bool", "float") and not ks:
            return "TEXT", e.attr
        fc = LF.field_class(e.attr)
        if fc is not None and fc[0] in ("TREE", "LINK", "UNKNOWN"):
            return worst(base, (fc[0], e.attr))
        if base[0] == "SAME":
            # plain data of the same object
            return "SAME", unparse(e)
        return base
    if isinstance(e, ast.Subscript):
        p = access_path(e.value) if not isinstance(e.value, ast.Subscript) else access_path(e.value.value)
        if p and p.split(".")[-1] in ("obj_tree", "workspace", "global_dict"):
            return "LINK", p.split(".")[-1] + "[...]"
        if isinstance(e.slice, ast.Slice):
            b = classify_expr(ctx, LF, f, e.value, depth + 1, seen, narrow)
            return ("TEXT", "slice") if b[0] in ("TEXT", "SAME") and ctx.r.expr_builtin(f, e.value) == "str" else b
        return classify_expr(ctx, LF, f, e.value, depth + 1, seen, narrow)
    if isinstance(e, ast.Call):
        fn = e.func
        nm = fn.id if isinstance(fn, ast.Name) else (fn.attr if isinstance(fn, ast.Attribute) else None)
        if nm in LOOKUPS:
            return "LINK", f"{nm}()"
        if nm == "getattr" and len(e.args) >= 2 and isinstance(e.args[1], ast.Constant):
            fld = e.args[1].value
            if fld in LF.link:
                return "LINK", fld
            if fld in TREE_FIELDS:
                return "TREE", fld
        b = ctx.r.expr_builtin(f, e)
        if b in ("str", "int", "bool", "match", "float"):
            return "TEXT", nm or "call"
        d0 = ctx.m.dotted(f.rel, fn) if isinstance(fn, (ast.Name, ast.Attribute)) else None
        if d0 in ("copy.copy", "copy.deepcopy") and e.args:
            return classify_expr(ctx, LF, f, e.args[0], depth + 1, seen, narrow)
        k, tg = ctx.r.resolve_call(f, e)
        if narrow and isinstance(fn, ast.Attribute) and isinstance(fn.value, ast.Name) and fn.value.id in narrow:
            tg2 = set()
            for c in narrow[fn.value.id]:
                mq = ctx.m.method(c, fn.attr)
                if mq:
                    tg2.add(mq)
            if tg2:
                k, tg = "typed", tg2
        if k in ("external", "unknown") or not tg:
            if isinstance(fn, ast.Attribute):
                if fn.attr in ("items", "values", "keys", "copy", "get", "pop"):
                    return classify_expr(ctx, LF, f, fn.value, depth + 1, seen, narrow)
            if isinstance(fn, ast.Name) and fn.id in ("iter", "list", "reversed", "sorted", "enumerate", "zip", "set", "tuple", "next") and e.args:
                best = None
                for a in e.args:
                    best = worst(best, classify_expr(ctx, LF, f, a, depth + 1, seen, narrow))
                return best
            d = ctx.m.dotted(f.rel, fn) if isinstance(fn, (ast.Name, ast.Attribute)) else None
            if d in ("copy.copy", "copy.deepcopy") and e.args:
                return classify_expr(ctx, LF, f, e.args[0], depth + 1, seen, narrow)
            return "TEXT", nm or "external call"
        if k == "ctor":
            cq = ctx.m.resolve_class_name(f.rel, fn.id) if isinstance(fn, ast.Name) else None
            if cq and _loads_files(ctx, cq):
                return "LINK", "file named by " + (unparse(e.args[0]) if e.args else "?")
            return "TEXT", "new object"
        # repo getter: classify what it returns (relative to its own object), then
        # compose with the receiver
        best = None
        for t in sorted(tg)[:12]:
            if t in _VISITING:
                continue  # the value returned by a recursive activation adds nothing new
            g = ctx.m.funcs[t]
            _VISITING.add(t)
            try:
                for r in (n for n in ctx.m.walk_own(g.node) if isinstance(n, ast.Return) and n.value is not None):
                    vals = r.value.elts if isinstance(r.value, ast.Tuple) else [r.value]
                    for v in vals:
                        best = worst(best, classify_expr(ctx, LF, g, v, depth + 1, set()))
            finally:
                _VISITING.discard(t)
        if best is None:
            best = ("TEXT", "no object returned")
        if isinstance(fn, ast.Attribute) and k in ("typed", "by_name"):
            # what a getter hands out is reached through its receiver
            recv = classify_expr(ctx, LF, f, fn.value, depth + 1, seen, narrow)
            if best[0] == "SAME":
                return recv
            if best[0] in ("TREE", "LINK", "UNKNOWN") and recv[0] in ("LINK", "UNKNOWN"):
                return recv if ORDER[recv[0]] >= ORDER[best[0]] else best
        return best
    if isinstance(e, ast.BinOp):
        a = classify_expr(ctx, LF, f, e.left, depth + 1, seen, narrow)
        b = classify_expr(ctx, LF, f, e.right, depth + 1, seen, narrow)

        def scalar_text(x, c):
            return c[0] == "TEXT" and not isinstance(x, (ast.List, ast.Tuple, ast.Set, ast.Dict, ast.ListComp, ast.SetComp, ast.DictComp, ast.GeneratorExp)) and ctx.r.expr_builtin(f, x) not in ("list", "tuple", "set", "dict")

        if isinstance(e.op, (ast.Add, ast.Mod)) and (scalar_text(e.left, a) or scalar_text(e.right, b)):
            # str + x / int + x: the other operand has the same scalar type, no object is reached
            return "TEXT", "scalar arithmetic / concatenation"
        if a[0] in ("TREE", "LINK", "UNKNOWN") and b[0] in ("TREE", "LINK", "UNKNOWN") and a != b:
            return "LINK", f"one of {a[1]} | {b[1]}"
        return worst(a, b)
    if isinstance(e, (ast.List, ast.Tuple, ast.Set)):
        best = ("TEXT", "display") if not e.elts else None
        for x in e.elts:
            best = worst(best, classify_expr(ctx, LF, f, x.value if isinstance(x, ast.Starred) else x, depth + 1, seen, narrow))
        return best
    if isinstance(e, (ast.IfExp, ast.BoolOp)):
        alts = [e.body, e.orelse] if isinstance(e, ast.IfExp) else list(e.values)
        cs = [classify_expr(ctx, LF, f, a, depth + 1, seen, narrow) for a in alts]
        desc = {c for c in cs if c[0] in ("TREE", "LINK", "UNKNOWN")}
        if len(desc) > 1:
            # either of several different edges: no single-field argument applies
            return "LINK", "one of " + " | ".join(sorted(c[1] for c in desc))
        best = None
        for c in cs:
            best = worst(best, c)
        return best
    if isinstance(e, (ast.JoinedStr, ast.Compare, ast.UnaryOp, ast.Dict, ast.ListComp, ast.DictComp, ast.SetComp, ast.GeneratorExp, ast.Lambda)):
        if isinstance(e, (ast.ListComp, ast.SetComp, ast.GeneratorExp)):
            best = None
            for g in e.generators:
                best = worst(best, classify_expr(ctx, LF, f, g.iter, depth + 1, seen, narrow))
            return best if best and best[0] in ("LINK", "UNKNOWN", "TREE") else ("TEXT", "comprehension")
        return "TEXT", type(e).__name__
    return "UNKNOWN", unparse(e)


def _loads_files(ctx, cq):
    """Does the class read files (a method calls open())?"""
    for k in ctx.m.mro(cq):
        for mq in ctx.m.classes[k].methods.values():
            g = ctx.m.funcs[mq]
            for c in calls_in(g.node):
                if isinstance(c.func, ast.Name) and c.func.id == "open":
                    return True
    return False


def _external_param(ctx, f, name):
    """Parameter only ever tested with isinstance against non-repo classes."""
    if name not in f.params:
        return False
    seen_any = False
    for n in ctx.m.walk_own(f.node):
        if isinstance(n, ast.Call) and isinstance(n.func, ast.Name) and n.func.id == "isinstance" and len(n.args) == 2 and isinstance(n.args[0], ast.Name) and n.args[0].id == name:
            ts = n.args[1].elts if isinstance(n.args[1], ast.Tuple) else [n.args[1]]
            for t in ts:
                if ctx.m.resolve_class_name(f.rel, unparse(t)) and "." not in unparse(t):
                    return False
                if "." not in unparse(t) and unparse(t) not in ("str", "int", "float", "bool", "tuple", "list", "dict"):
                    return False
            seen_any = True
    return seen_any


def predicate_classes(ctx, pred):
    """Classes of the FortranObj cone for which x.<pred>() can return something
    other than the constant False."""
    fobj = ctx.m.cname.get("FortranObj")
    out = set()
    for c in ctx.m.cone(fobj):
        mq = ctx.m.method(c, pred)
        if not mq:
            continue
        g = ctx.m.funcs[mq]
        rets = [n for n in ctx.m.walk_own(g.node) if isinstance(n, ast.Return)]
        if all(isinstance(r.value, ast.Constant) and r.value.value is False for r in rets) and rets:
            continue
        out.add(c)
    return out


def prefix_classes(ctx, prefix):
    """Classes the parser constructs with a name starting with `prefix`."""
    out = set()
    for f in ctx.m.funcs.values():
        names = set()
        for n in ctx.m.walk_own(f.node):
            if isinstance(n, ast.Assign) and isinstance(n.targets[0], ast.Name):
                v = n.value
                txt = None
                if isinstance(v, ast.JoinedStr) and v.values and isinstance(v.values[0], ast.Constant):
                    txt = v.values[0].value
                elif isinstance(v, ast.Constant) and isinstance(v.value, str):
                    txt = v.value
                if txt and txt.startswith(prefix):
                    names.add(n.targets[0].id)
        if not names:
            continue
        for c in calls_in(f.node):
            k, tg = ctx.r.resolve_call(f, c)
            if k == "ctor" and any(isinstance(a, ast.Name) and a.id in names for a in c.args):
                cq = ctx.m.resolve_class_name(f.rel, c.func.id) if isinstance(c.func, ast.Name) else None
                if cq:
                    out |= ctx.m.cone(cq)
    return out


def narrowing_at(ctx, f, call, argname):
    """Class set the object named `argname` is confined to at this call, from
    dominating predicate / name-prefix / isinstance facts; None = no narrowing."""
    F = ctx.facts(f, interproc=False)
    facts = F.at(call) or set()
    res = None
    for fact in facts:
        cls = None
        if fact[0] in ("truthy", "cond") and (fact[0] == "truthy" or fact[2] is True):
            try:
                ce = ast.parse(fact[1], mode="eval").body
            except SyntaxError:
                continue
            if isinstance(ce, ast.Name):
                # a named condition: `go = x.is_a()` in one arm, `go = x.is_b()` in the other, then `if go:`
                from .shared import reaching_def_nodes

                ds = reaching_def_nodes(ctx, f, ctx.m.enclosing_stmt(call), ce.id)
                union = set()
                for d in ds:
                    v = d.value if isinstance(d, ast.Assign) and len(d.targets) == 1 else None
                    if isinstance(v, ast.Call) and isinstance(v.func, ast.Attribute) and isinstance(v.func.value, ast.Name) and v.func.value.id == argname and not v.args:
                        union |= predicate_classes(ctx, v.func.attr)
                    else:
                        union = None
                        break
                if ds and union:
                    cls = union
            elif isinstance(ce, ast.Call) and isinstance(ce.func, ast.Attribute):
                recv = ce.func.value
                if isinstance(recv, ast.Name) and recv.id == argname and not ce.args:
                    cls = predicate_classes(ctx, ce.func.attr)
                elif ce.func.attr == "startswith" and isinstance(recv, ast.Attribute) and recv.attr == "name" and isinstance(recv.value, ast.Name) and recv.value.id == argname and ce.args and isinstance(ce.args[0], ast.Constant):
                    cls = prefix_classes(ctx, ce.args[0].value)
        elif fact[0] == "inst" and fact[1] == argname:
            cls = set()
            for nm in fact[2]:
                q = ctx.m.cname.get(nm)
                if q:
                    cls |= ctx.m.cone(q)
        if cls:
            res = cls if res is None else (res & cls)
    return res


_VISITING = set()
ORDER = {"TEXT": 0, "SAME": 1, "TREE": 2, "UNKNOWN": 3, "LINK": 4}


def worst(a, b):
    if a is None:
        return b
    if b is None:
        return a
    return a if ORDER[a[0]] >= ORDER[b[0]] else b


def edge_class(ctx, LF, f, call, kind, tq, narrow=None):
    """Class of the recursive call: through which object does the callee work?"""
    g = ctx.m.funcs[tq]
    parts = []
    if isinstance(call.func, ast.Attribute) and kind in ("typed", "by_name", "super"):
        if kind == "super":
            parts.append(("SAME", "super()"))
        else:
            parts.append(classify_expr(ctx, LF, f, call.func.value, narrow=narrow))
    elif kind in ("nested", "module", "import", "registry"):
        args = list(call.args) + [kw.value for kw in call.keywords]
        any_obj = False
        for a in args:
            c = classify_expr(ctx, LF, f, a, narrow=narrow)
            parts.append(c)
        if not args:
            parts.append(("SAME", "no argument"))
    else:
        parts.append(("UNKNOWN", kind))
    best = None
    for p in parts:
        best = worst(best, p)
    return best


def call_guard(ctx, f, call, LF):
    """Guard form protecting this recursive call, or None."""
    F = ctx.facts(f, interproc=False)
    facts = F.at(call) or set()
    # G1: membership test of a visited/path collection that is extended before descending
    for fact in facts:
        if fact[0] == "notin":
            coll = fact[2]
            try:
                ce = ast.parse(coll, mode="eval").body
            except SyntaxError:
                continue
            cname = access_path(ce)
            if not cname:
                continue
            root = cname.split(".")[0]
            # the collection (or one derived from it) is extended with the tested key
            extended = False
            for n in ctx.m.walk_own(f.node):
                if isinstance(n, ast.Call) and isinstance(n.func, ast.Attribute) and n.func.attr in ("add", "append") and access_path(n.func.value) == cname:
                    extended = True
                if isinstance(n, ast.Assign) and isinstance(n.value, ast.BinOp) and isinstance(n.value.op, (ast.Add, ast.BitOr)) and cname in {access_path(x) for x in ast.walk(n.value) if isinstance(x, (ast.Name, ast.Attribute))}:
                    extended = True
                # a new collection spelled as a display: (*path, key) / [*path, key] / {*seen, key}
                if isinstance(n, ast.Assign) and isinstance(n.value, (ast.Tuple, ast.List, ast.Set)) and len(n.value.elts) >= 2 and any(isinstance(e_, ast.Starred) and access_path(e_.value) == cname for e_ in n.value.elts):
                    extended = True
            passed = any(root in {x.id for x in ast.walk(a) if isinstance(x, ast.Name)} for a in list(call.args) + [kw.value for kw in call.keywords])
            derived = set()
            for n in ctx.m.walk_own(f.node):
                if isinstance(n, ast.Assign) and isinstance(n.targets[0], ast.Name) and root in {x.id for x in ast.walk(n.value) if isinstance(x, ast.Name)}:
                    derived.add(n.targets[0].id)
            passed = passed or any(derived & {x.id for x in ast.walk(a) if isinstance(x, ast.Name)} for a in list(call.args) + [kw.value for kw in call.keywords])
            if extended and (passed or cname.startswith(f.params[0] + ".") if f.params else passed):
                return f"G1 visited collection `{cname}` tested before and extended on the way down"
            if extended and not f.params:
                return f"G1 visited collection `{cname}`"
    # G2: generation stamp compared on entry and written before descending
    selfn = f.params[0] if f.cls and f.params else None
    if selfn:
        cfg = ctx.cfg(f)
        node = cfg.node_of(call)
        dom = cfg.dominators().get(node.id, set()) if node else set()
        stamp_tests = {}
        stamp_writes = {}
        for nid in dom:
            n = cfg.nodes[nid]
            if n.kind == "test" and isinstance(n.ast, ast.Compare) and len(n.ast.ops) == 1 and isinstance(n.ast.ops[0], (ast.Eq, ast.NotEq)):
                l, r = n.ast.left, n.ast.comparators[0]
                for a, b in ((l, r), (r, l)):
                    if isinstance(a, ast.Attribute) and isinstance(a.value, ast.Name) and a.value.id == selfn and isinstance(b, ast.Name) and b.id in f.params:
                        stamp_tests[(a.attr, b.id)] = n
            if n.kind == "stmt" and isinstance(n.ast, ast.Assign) and isinstance(n.ast.targets[0], ast.Attribute) and isinstance(n.ast.targets[0].value, ast.Name) and n.ast.targets[0].value.id == selfn and isinstance(n.ast.value, ast.Name) and n.ast.value.id in f.params:
                stamp_writes[(n.ast.targets[0].attr, n.ast.value.id)] = n
        for k in stamp_tests:
            if k in stamp_writes:
                # the equal case must leave the function (no path from the test's equal branch to the call)
                return f"G2 generation stamp self.{k[0]} compared with `{k[1]}` on entry and written before descending"
    # G3: depth counter compared with a constant
    for fact in facts:
        if fact[0] == "cond":
            try:
                ce = ast.parse(fact[1], mode="eval").body
            except SyntaxError:
                continue
            if isinstance(ce, ast.Compare) and len(ce.ops) == 1 and isinstance(ce.ops[0], (ast.Lt, ast.LtE, ast.Gt, ast.GtE)):
                l, r = ce.left, ce.comparators[0]
                for a, b in ((l, r), (r, l)):
                    if isinstance(a, ast.Name) and a.id in f.params and isinstance(b, ast.Constant) and isinstance(b.value, int):
                        for arg in list(call.args) + [kw.value for kw in call.keywords]:
                            if isinstance(arg, ast.BinOp) and isinstance(arg.op, (ast.Add, ast.Sub)) and isinstance(arg.left, ast.Name) and arg.left.id == a.id:
                                return f"G3 depth counter `{a.id}` bounded by a constant"
    # G4: enclosed in a try absorbing RecursionError
    from .shared import absorbs

    if absorbs(ctx, call, "RecursionError"):
        return "G4 enclosed in a try that absorbs RecursionError"
    return None


def acyclic_by_construction(ctx, LF, field):
    """G5: every non-None store into `.field` of an object whose class has
    recursive getters over that field is dominated by the negative result of a
    chain walker over the field (a bounded walk that reports a repeated object).
    Returns (ok, list of unguarded (func, stmt))."""
    walkers = chain_walkers(ctx, field)
    if not walkers:
        return False, []
    gcls = getter_classes(ctx, field)
    unguarded = []
    nstores = 0
    for f in ctx.m.funcs.values():
        if f.rel.endswith("debug.py"):
            continue
        for n in ctx.m.walk_own(f.node):
            if not isinstance(n, ast.Assign):
                continue
            for t in n.targets:
                if not (isinstance(t, ast.Attribute) and t.attr == field):
                    continue
                if isinstance(n.value, ast.Constant) and n.value.value is None:
                    continue
                ks = ctx.r.expr_classes(f, t.value)
                if ks:
                    # a static class stands for its whole cone (the elements of `linkable_objs` are FortranObj)
                    ks = {d for k_ in ks for d in ctx.m.cone(k_)}
                else:
                    ks = _classes_by_type_id(ctx, f, t.value)
                if ks and gcls and not (ks & gcls):
                    continue  # an object no recursive getter follows this field from
                nstores += 1
                if not _guarded_store(ctx, f, n, t, walkers, field):
                    unguarded.append((f, n))
    return (nstores > 0 and not unguarded), unguarded


def _classes_by_type_id(ctx, f, e):
    """Classes of a loop variable whose elements were selected by their type id:
    `for x in xs` with `xs = [y for ... if y.get_type() in (A_TYPE_ID, ..) ...]`
    (or `== A_TYPE_ID`), or with `xs = producer(..)` where the producer appends
    elements to the list it returns under such tests.  The classes are those of
    the FortranObj cone whose get_type() returns one of the constants, plus every
    class whose get_type() is not a single constant (it may answer anything).
    None when the selection is not of that form."""
    from .c07 import _class_type_id, _type_ids
    from .shared import single_def

    if not isinstance(e, ast.Name):
        return None
    loops = [n for n in ctx.m.walk_own(f.node) if isinstance(n, ast.For) and isinstance(n.target, ast.Name) and n.target.id == e.id]
    if len(loops) != 1:
        return None
    it = loops[0].iter
    if isinstance(it, ast.Name):
        it = single_def(ctx, f, it.id)
    conds = []  # conjuncts every selected element satisfied
    el = None
    if isinstance(it, (ast.ListComp, ast.GeneratorExp)) and isinstance(it.elt, ast.Name):
        el = it.elt.id
        for g in it.generators:
            for cond in g.ifs:
                conds.extend(cond.values if isinstance(cond, ast.BoolOp) and isinstance(cond.op, ast.And) else [cond])
    elif isinstance(it, ast.Call):
        kind, tg = ctx.r.resolve_call(f, it)
        tg = [q for q in tg if q in ctx.m.funcs]
        if len(tg) != 1 or kind in ("external", "unknown", "by_name"):
            return None
        g = ctx.m.funcs[tg[0]]
        rets = [r for r in ctx.m.walk_own(g.node) if isinstance(r, ast.Return)]
        if len(rets) != 1 or not isinstance(rets[0].value, ast.Name):
            return None
        lst = rets[0].value.id
        apps = [c for c in ast.walk(g.node) if isinstance(c, ast.Call) and isinstance(c.func, ast.Attribute) and c.func.attr == "append" and isinstance(c.func.value, ast.Name) and c.func.value.id == lst]
        if len(apps) != 1 or len(apps[0].args) != 1 or not isinstance(apps[0].args[0], ast.Name):
            return None
        el = apps[0].args[0].id
        node = apps[0]
        p_ = ctx.m.parent.get(node)
        while p_ is not None and p_ is not g.node:
            if isinstance(p_, ast.If) and any(node is x for b_ in p_.body for x in ast.walk(b_)):
                conds.extend(p_.test.values if isinstance(p_.test, ast.BoolOp) and isinstance(p_.test.op, ast.And) else [p_.test])
            p_ = ctx.m.parent.get(p_)
        # single-assignment locals inside the tests (`t = x.get_type()` ... `if t in (...)`)
        class _Sub(ast.NodeTransformer):
            def visit_Name(self, n):
                v = single_def(ctx, g, n.id) if isinstance(n.ctx, ast.Load) else None
                return v if v is not None and isinstance(v, ast.Call) else n

        import copy as _copy

        conds = [_Sub().visit(_copy.deepcopy(c)) for c in conds]
    else:
        return None
    ids = _type_ids(ctx)

    def const_set(x):
        if isinstance(x, ast.Name) and x.id in ids:
            return {ids[x.id]}
        if isinstance(x, ast.Name):
            for cs in ctx.m.consts.values():
                if x.id in cs:
                    return const_set(cs[x.id])
            return None
        if isinstance(x, (ast.Tuple, ast.List, ast.Set)):
            out = set()
            for y in x.elts:
                s_ = const_set(y)
                if s_ is None:
                    return None
                out |= s_
            return out
        return None

    allowed = None
    truthy_methods = []
    for t in conds:
        if isinstance(t, ast.Call) and isinstance(t.func, ast.Attribute) and isinstance(t.func.value, ast.Name) and t.func.value.id == el and not t.args and not t.keywords:
            truthy_methods.append(t.func.attr)
        if isinstance(t, ast.Compare) and len(t.ops) == 1 and isinstance(t.ops[0], (ast.In, ast.Eq)) and unparse(t.left) == f"{el}.get_type()":
            cs = const_set(t.comparators[0])
            if cs is not None:
                allowed = cs if allowed is None else (allowed & cs)
    if allowed is None:
        return None
    base = ctx.m.cname.get("FortranObj")
    if not base:
        return None
    out = set()
    def never_true(c, meth):
        q = ctx.m.method(c, meth)
        if not q:
            return False
        rets = [r for r in ctx.m.walk_own(ctx.m.funcs[q].node) if isinstance(r, ast.Return)]
        return bool(rets) and all(isinstance(r.value, ast.Constant) and not r.value.value for r in rets)

    for c in ctx.m.cone(base):
        tid = _class_type_id(ctx, c, ids)
        if not (tid is None or tid in allowed):
            continue
        # a predicate method the element had to answer truthily: classes whose version is constantly false are out
        if any(never_true(c, mth) for mth in truthy_methods):
            continue
        out.add(c)
    return out or None


def _walker_negative(ctx, f, expr, valtxt, recvtxt, walkers, field):
    """Is `expr` a call of a chain walker over `field`, started from the object
    `recvtxt`, about the candidate `valtxt`?"""
    if not isinstance(expr, ast.Call):
        return False
    k, tg = ctx.r.resolve_call(f, expr)
    if k in ("external", "unknown"):
        return False
    for w in walkers:
        if w not in tg:
            continue
        ap = walkers[w]
        g = ctx.m.funcs[w]
        args = {unparse(a) for a in expr.args} | {unparse(kw.value) for kw in expr.keywords}
        if valtxt not in args:
            continue
        if ap is not None:
            ps = g.params[1:] if g.cls else g.params
            given = None
            if ap in ps and ps.index(ap) < len(expr.args):
                given = expr.args[ps.index(ap)]
            for kw in expr.keywords:
                if kw.arg == ap:
                    given = kw.value
            if not (isinstance(given, ast.Constant) and given.value == field):
                continue
        if isinstance(expr.func, ast.Attribute) and unparse(expr.func.value) != recvtxt:
            continue
        return True
    return False


def _guarded_store(ctx, f, st, target, walkers, field):
    """Every path on which a non-None candidate reaches the store `X.field = V`
    passes the negative outcome of a chain walk about that candidate."""
    cfg = ctx.cfg(f)
    snode = cfg.node_of(st)
    if snode is None:
        return False
    recvtxt = unparse(target.value)
    V = st.value
    valtxt = unparse(V)

    neg_targets = []

    def edge_ok(lab, target=None):
        if not lab or lab[0] not in ("T", "F"):
            return False
        e = lab[1]
        pol = lab[0] == "T"
        from sa.cfg import derive

        if ("null", valtxt) in derive(e, pol) or ("falsy", valtxt) in derive(e, pol):
            return True  # no candidate on this path
        # `not walker(..)` is decomposed by the CFG, so the walker call itself is the test
        ok = (not pol) and _walker_negative(ctx, f, e, valtxt, recvtxt, walkers, field)
        if ok and target is not None:
            neg_targets.append(target)
        return ok

    starts = []
    if isinstance(V, ast.Name):
        redef = set()
        for n in cfg.nodes:
            if n.kind == "stmt" and isinstance(n.ast, (ast.Assign, ast.AnnAssign, ast.AugAssign)):
                tg = n.ast.targets if isinstance(n.ast, ast.Assign) else [n.ast.target]
                for t in tg:
                    names = [x.id for x in ast.walk(t) if isinstance(x, ast.Name) and isinstance(x.ctx, ast.Store)]
                    if V.id in names:
                        redef.add(n.id)
                        val = getattr(n.ast, "value", None)
                        if not (isinstance(val, ast.Constant) and val.value is None):
                            starts.append(n.id)
            elif n.kind == "for" and V.id in [x.id for x in ast.walk(n.ast.target) if isinstance(x, ast.Name)]:
                redef.add(n.id)
                starts.append(n.id)
        if V.id in f.params:
            starts.append(cfg.entry.id)
    else:
        redef = set()
        # the candidate is computed in the store itself: only a dominating test helps
        F = ctx.facts(f, interproc=False)
        for fact in F.at(st) or ():
            if fact[0] == "cond" and fact[2] is False:
                try:
                    ce = ast.parse(fact[1], mode="eval").body
                except SyntaxError:
                    continue
                if _walker_negative(ctx, f, ce, valtxt, recvtxt, walkers, field):
                    return True
        return False
    if not starts:
        return False
    for s0 in starts:
        seen = set()
        stack = [(t, lab) for t, lab in cfg.nodes[s0].succs if not (lab and lab[0] == "exc")]
        while stack:
            t, lab = stack.pop()
            if edge_ok(lab, t):
                continue
            if t == snode.id:
                return False
            if t in seen or t in redef:
                continue
            seen.add(t)
            for t2, lab2 in cfg.nodes[t].succs:
                if lab2 and lab2[0] == "exc":
                    continue
                stack.append((t2, lab2))
    # the walk's answer must still hold at the store: nothing between the test and the store
    # may install links of the same field on other objects (a recursive resolve of the candidate
    # lets every member of a cycle pass its own test while all links are still unset)
    writers = _field_writers(ctx, field)
    seen = set()
    stack = list(neg_targets)
    while stack:
        t = stack.pop()
        if t in seen or t == snode.id:
            continue
        seen.add(t)
        n = cfg.nodes[t]
        if n.ast is not None and n.kind in ("stmt", "test"):
            for c in calls_in(n.ast):
                k_, tg = ctx.r.resolve_call(f, c)
                if k_ in ("external", "unknown"):
                    continue
                hit = sorted(q for q in tg if q in writers)
                if hit:
                    _STALE[(f.qual, id(st))] = (c, hit[0])
                    return False
        for t2, lab2 in n.succs:
            if lab2 and lab2[0] == "exc":
                continue
            stack.append(t2)
    return True


_STALE = {}
_WRITERS = {}


def _field_writers(ctx, field):
    """functions that (transitively) store a non-None value into `.field`"""
    key_ = (id(ctx.m), field)
    if key_ in _WRITERS:
        return _WRITERS[key_]
    direct = set()
    for g in ctx.m.funcs.values():
        for n in ctx.m.walk_own(g.node):
            if isinstance(n, ast.Assign) and any(isinstance(t, ast.Attribute) and t.attr == field for t in n.targets) and not (isinstance(n.value, ast.Constant) and n.value.value is None):
                direct.add(g.qual)
    out = set(direct)
    changed = True
    while changed:
        changed = False
        for g in ctx.m.funcs.values():
            if g.qual in out or g.rel.endswith("debug.py"):
                continue
            for c in calls_in(g.node):
                if ctx.m.enclosing_func(c) is not g:
                    continue
                k_, tg = ctx.r.resolve_call(g, c)
                if k_ in ("external", "unknown", "by_name"):
                    continue
                if tg & out:
                    out.add(g.qual)
                    changed = True
                    break
    _WRITERS[key_] = out
    return out


def chain_walkers(ctx, field):
    """{qual: attr-parameter-name or None} of functions that walk `.field`
    chains (field fixed, or given by a parameter) with a visited set that is
    tested and extended on every step, and whose result tells whether the walk
    met an object twice (in particular the starting object)."""
    out = {}
    for f in ctx.m.funcs.values():
        for w in (n for n in ctx.m.walk_own(f.node) if isinstance(n, ast.While)):
            attr_param = None
            steps = False
            for n in ast.walk(w):
                if isinstance(n, ast.Assign):
                    v = n.value
                    if isinstance(v, ast.Attribute) and v.attr == field:
                        steps = True
                    if isinstance(v, ast.Call) and isinstance(v.func, ast.Name) and v.func.id == "getattr" and len(v.args) >= 2:
                        a = v.args[1]
                        if isinstance(a, ast.Constant) and a.value == field:
                            steps = True
                        elif isinstance(a, ast.Name) and a.id in f.params:
                            steps = True
                            attr_param = a.id
            tests = [n for n in ast.walk(w) if isinstance(n, ast.Compare) and isinstance(n.ops[0], (ast.In, ast.NotIn))]
            grows = any(isinstance(n, ast.Call) and isinstance(n.func, ast.Attribute) and n.func.attr in ("add", "append") for n in ast.walk(w))
            # the repeated-object case is reported: a `return True` (or the loop
            # condition) depends on the membership test
            reports = any(isinstance(n, ast.Return) and isinstance(n.value, ast.Constant) and n.value.value is True for n in ast.walk(w)) or any(isinstance(n, ast.Return) and isinstance(n.value, ast.Constant) and n.value.value is True for n in ctx.m.walk_own(f.node))
            if steps and tests and grows and reports:
                out[f.qual] = attr_param
    return out


def getter_classes(ctx, field):
    """Classes whose methods follow `self.<field>` in a recursive component."""
    out = set()
    for f in ctx.m.funcs.values():
        if not f.cls or not f.params:
            continue
        for c in calls_in(f.node):
            if isinstance(c.func, ast.Attribute) and isinstance(c.func.value, ast.Attribute) and c.func.value.attr == field and isinstance(c.func.value.value, ast.Name) and c.func.value.value.id == f.params[0]:
                out |= ctx.m.cone(f.cls)
    return out


def _bound_value(ctx, call, kind, g, pname):
    """Expression bound to callee parameter pname at this call, 'default' when
    omitted (returns the default expr), or None when unknown."""
    a = ctx.e._actual(call, kind, g, pname)
    if a is not None:
        return a
    if any(isinstance(x, ast.Starred) for x in call.args) or any(kw.arg is None for kw in call.keywords):
        return None
    args = g.node.args
    pos = args.posonlyargs + args.args
    defaults = [None] * (len(pos) - len(args.defaults)) + list(args.defaults)
    for p_, d in zip(pos, defaults):
        if p_.arg == pname:
            return d
    for p_, d in zip(args.kwonlyargs, args.kw_defaults):
        if p_.arg == pname:
            return d
    return None


def _flag_guards(ctx, funcs, es):
    """G6 one-shot flag: the descending call is dominated by `if <flag>` on a
    parameter, hands the callee a false flag, and no call of the component can
    switch the flag back on (every other call passes it through or false)."""
    for e in es:
        if e.guard is not None or e.cls not in ("LINK", "TREE", "UNKNOWN"):
            continue
        F = ctx.facts(e.f, interproc=False)
        facts = F.at(e.call) or set()
        flags = [f_[1] for f_ in facts if f_[0] == "truthy" and f_[1] in e.f.params]
        for P in flags:
            ok = True
            for x in es:
                g = funcs[x.target]
                if P not in g.params:
                    if x is e:
                        ok = False
                    continue
                v = _bound_value(ctx, x.call, x.kind, g, P)
                falsy = isinstance(v, ast.Constant) and not v.value
                through = isinstance(v, ast.Name) and v.id == P and P in x.f.params
                if x is e:
                    if not falsy:
                        ok = False
                elif not (falsy or through):
                    ok = False
                if not ok:
                    break
            if ok:
                e.guard = f"G6 one-shot flag `{P}`: the call needs it true and passes it false; no call in the component turns it back on"
                break


def r1(ctx, R):
    R.rule("C20.R1", "every recursive descent over a user-controlled (name-resolved) edge is guarded", floor=10, confirmed=20)
    LF = LinkFields(ctx)
    R.notes.append("C20: link fields derived from assignments: " + ", ".join(sorted(LF.link)))
    fobj = ctx.m.cname.get("FortranObj")
    cone = ctx.m.cone(fobj) if fobj else set()
    funcs = {q: f for q, f in ctx.m.funcs.items() if not f.rel.endswith("debug.py")}
    edges = {}

    def keep(f, kind, t):
        if t not in funcs:
            return False
        if kind == "by_name":
            g = ctx.m.funcs[t]
            return g.cls in cone
        return kind not in ("external", "unknown", "ctor")

    succ_map = {}
    for q, f in funcs.items():
        s = set()
        for call, kind, tg in ctx.r.callees(f):
            for t in tg:
                if keep(f, kind, t):
                    s.add(t)
                    edges.setdefault((q, t), []).append((call, kind))
        succ_map[q] = s
    comps = [c for c in sccs(list(funcs), lambda v: succ_map.get(v, ())) if len(c) > 1 or c[0] in succ_map.get(c[0], ())]
    g5_cache = {}
    n_cycles = 0
    for comp in sorted(comps, key=lambda c: sorted(c)[0]):
        cs = set(comp)
        n_cycles += 1
        es = []
        # class invariant of recursive activations (self-recursive functions):
        # every recursive call passes an object confined by a dominating guard,
        # so inside every activation but the first the parameter has that class
        narrow_for = {}
        if len(comp) == 1:
            f0 = funcs[comp[0]]
            per_param = {}
            okn = True
            for call, kind in edges[(comp[0], comp[0])]:
                if kind not in ("nested", "module", "import"):
                    okn = False
                    break
                ps = f0.params
                hit = False
                for i, a in enumerate(call.args):
                    if isinstance(a, ast.Name) and i < len(ps):
                        nr = narrowing_at(ctx, f0, call, a.id)
                        if nr:
                            per_param.setdefault(ps[i], []).append(nr)
                            hit = True
                if not hit:
                    okn = False
            if okn:
                ncalls = len(edges[(comp[0], comp[0])])
                for pn, sets in per_param.items():
                    if len(sets) == ncalls:
                        u = set()
                        for s_ in sets:
                            u |= s_
                        narrow_for[comp[0]] = {pn: u}
        for a in comp:
            for b in succ_map[a]:
                if b in cs:
                    for call, kind in edges[(a, b)]:
                        f = funcs[a]
                        cl = edge_class(ctx, LF, f, call, kind, b, narrow_for.get(a))
                        e = Edge(f, call, kind, b, cl[0], cl[1])
                        e.guard = call_guard(ctx, f, call, LF)
                        if e.guard is None and e.cls == "LINK" and e.via in LF.link:
                            if e.via not in g5_cache:
                                g5_cache[e.via] = acyclic_by_construction(ctx, LF, e.via)
                            if g5_cache[e.via][0]:
                                e.guard = f"G5 field `{e.via}` is only assigned after a chain walk proves the link does not lead back"
                        es.append(e)
        _flag_guards(ctx, funcs, es)
        names = sorted(x.split(":")[1] for x in comp)
        label = " <-> ".join(names[:4]) + (" ..." if len(names) > 4 else "")
        # residual graph: edges without a run-time guard (G1-G4).  A G5 edge
        # (field whose chains are acyclic by construction) stays in the graph:
        # its argument only covers cycles that descend along that one field.
        res = {}
        for e in es:
            if e.guard is None or e.guard.startswith("G5"):
                res.setdefault(e.f.qual, set()).add(e.target)
        rcomps = [c for c in sccs(list(cs), lambda v: res.get(v, ())) if len(c) > 1 or c[0] in res.get(c[0], ())]
        dangerous = []
        for c in rcomps:
            cset = set(c)
            inside = [e for e in es if (e.guard is None or e.guard.startswith("G5")) and e.f.qual in cset and e.target in cset]
            desc = [e for e in inside if e.cls in ("TREE", "LINK", "UNKNOWN")]
            kinds = {(e.cls, e.via) for e in desc}
            # upward tree edges mix safely with a link field whose targets are
            # roots of the tree (top-level units out of the workspace table):
            # a chain is one upward run, then steps between roots
            lfields = {k[1] for k in kinds if k[0] == "LINK"}
            if len(lfields) == 1 and LF.root_valued(next(iter(lfields))):
                kinds = {k for k in kinds if not (k[0] == "TREE" and k[1] == "parent")}
            for e in inside:
                if e.cls not in ("LINK", "UNKNOWN"):
                    continue
                if e.guard is None:
                    dangerous.append(e)
                elif len(kinds) > 1:
                    # G5 over one field mixed with other descending edges
                    e.mixed = sorted({k[1] or k[0] for k in kinds})
                    dangerous.append(e)
        # a residual cycle is dangerous only if it contains a LINK/UNKNOWN edge
        reported = set()
        for e in dangerous:
            st = ctx.m.enclosing_stmt(e.call)
            k = key(e.f, st)
            if (e.f.qual, k) in reported:
                continue
            reported.add((e.f.qual, k))
            if getattr(e, "mixed", None):
                R.violation("C20.R1", e.f.short, k, loc(e.f, e.call), f"the cycle {label} descends along `{e.via}` (acyclic by construction) *and* along {[m for m in e.mixed if m != e.via]}: chains that alternate between the two are not covered by either argument and may be cyclic")
            elif e.cls == "LINK":
                why = ""
                ung = g5_cache.get(e.via, (True, []))[1]
                if ung:
                    uf, ust = ung[0]
                    why = f"; the field is not acyclic by construction: `{unparse(ust)[:70]}` in {uf.short} (line {ust.lineno}) stores a link without the negative answer of the chain walk" + (f" (and {len(ung) - 1} more)" if len(ung) > 1 else "")
                R.violation("C20.R1", e.f.short, k, loc(e.f, e.call), f"recursive call follows the name-resolved link `{e.via}` ({LF.link.get(e.via, 'workspace lookup')}) with no cycle guard on the cycle {label}: a program whose `{e.via}` links form a cycle recurses until the interpreter limit{why}")
            else:
                R.undecided("C20.R1", e.f.short, k, loc(e.f, e.call), f"recursive call through `{e.via}` whose origin could not be classified (cycle {label})")
        for e in es:
            if e in dangerous:
                continue
            st = ctx.m.enclosing_stmt(e.call)
            why = e.guard or {"SAME": "works on the same object (no descent along user data)", "TREE": f"descends the parse tree (`{e.via}`): finite by construction", "TEXT": "recurses on text / fresh data, no object graph involved", "LINK": "link edge, but every cycle through it passes a guarded call", "UNKNOWN": "unclassified edge, but every cycle through it passes a guarded call"}[e.cls]
            R.ok("C20.R1", e.f.short, key(e.f, st), loc(e.f, e.call), f"[{e.cls}] {why}")
    R.notes.append(f"C20.R1: {n_cycles} recursive components in the resolved call graph")
    return LF


def r2(ctx, R, LF):
    R.rule("C20.R2", "loops that follow links are bounded (counter bound or visited set)", floor=1, confirmed=1)
    for f in ctx.m.funcs.values():
        if f.rel.endswith("debug.py"):
            continue
        for lp in (n for n in ctx.m.walk_own(f.node) if isinstance(n, (ast.While, ast.For))):
            # induction step  x = x.<LINK> / x = getter(x) / x = find_in_scope(f(x))
            steps = []
            for n in ast.walk(lp):
                if isinstance(n, ast.Assign) and len(n.targets) == 1 and isinstance(n.targets[0], ast.Name):
                    v = n.targets[0].id
                    uses_self = any(isinstance(x, ast.Name) and x.id == v for x in ast.walk(n.value))
                    if not uses_self:
                        # two-variable induction (var_obj -> type_obj -> var_obj)
                        continue
                    c = classify_expr(ctx, LF, f, n.value)
                    if c[0] == "LINK":
                        steps.append((n, c))
            if not steps:
                # two-step induction: a = g(b); b = h(a) with a LINK step
                assigns = [n for n in ast.walk(lp) if isinstance(n, ast.Assign) and len(n.targets) == 1 and isinstance(n.targets[0], ast.Name)]
                names = {a.targets[0].id for a in assigns}
                for a in assigns:
                    used = {x.id for x in ast.walk(a.value) if isinstance(x, ast.Name)} & names - {a.targets[0].id}
                    for b in assigns:
                        if b is not a and b.targets[0].id in used and a.targets[0].id in {x.id for x in ast.walk(b.value) if isinstance(x, ast.Name)}:
                            c = worst(classify_expr(ctx, LF, f, a.value), classify_expr(ctx, LF, f, b.value))
                            if c[0] == "LINK" and not any(s[0] is a for s in steps):
                                steps.append((a, c))
            if not steps:
                continue
            bounded = None
            if isinstance(lp, ast.For):
                it = lp.iter
                if isinstance(it, ast.Call) and isinstance(it.func, ast.Name) and it.func.id == "range" and all(isinstance(a, ast.Constant) for a in it.args):
                    bounded = f"for over range({', '.join(unparse(a) for a in it.args)})"
                else:
                    continue  # a for loop over a finite collection: not a link-following loop
            else:
                visited = any(isinstance(n, ast.Compare) and isinstance(n.ops[0], (ast.In, ast.NotIn)) for n in ast.walk(lp))
                grows = any(isinstance(n, ast.Call) and isinstance(n.func, ast.Attribute) and n.func.attr in ("add", "append") for n in ast.walk(lp))
                if visited and grows:
                    bounded = "visited set tested in the loop and extended per step"
            n0, c0 = steps[0]
            if bounded:
                R.ok("C20.R2", f.short, key(f, n0), loc(f, n0), f"link-following loop over `{c0[1]}` is bounded: {bounded}")
            else:
                R.violation("C20.R2", f.short, key(f, n0), loc(f, n0), f"the loop advances along the name-resolved link `{c0[1]}` without a bound or visited set: cyclic links never terminate")


def r3(ctx, R):
    R.rule("C20.R3", "the interpreter recursion limit is set from the option before the workspace is indexed", floor=1, confirmed=1)
    for q in dispatch_table(ctx).get("initialize", ()):
        g = ctx.m.funcs[q]
        lim = idx = None
        for c in calls_in(g.node):
            k, tg = ctx.r.resolve_call(g, c)
            for t in tg if k not in ("external",) else ():
                h = ctx.m.funcs[t]
                if any(ctx.m.dotted(h.rel, x.func) == "sys.setrecursionlimit" for x in calls_in(h.node) if isinstance(x.func, (ast.Name, ast.Attribute))):
                    lim = c
                if any(isinstance(x.func, ast.Attribute) and x.func.attr in ("apply_async", "map", "imap") for x in calls_in(h.node)) and h.cls == g.cls:
                    idx = c
            if ctx.m.dotted(g.rel, c.func) == "sys.setrecursionlimit" if isinstance(c.func, (ast.Name, ast.Attribute)) else False:
                lim = c
        if lim is None:
            R.violation("C20.R3", g.short, "recursion limit", loc(g, g.node), "the configured recursion limit is never applied")
        elif idx is not None and lim.lineno > idx.lineno:
            R.violation("C20.R3", g.short, key(g, ctx.m.enclosing_stmt(lim)), loc(g, lim), "the recursion limit is applied after the workspace has been indexed")
        else:
            R.ok("C20.R3", g.short, key(g, ctx.m.enclosing_stmt(lim)), loc(g, lim))


def _fresh_object(ctx, f, e, depth=0, at=None):
    """'fresh' | 'param:<name>' | 'graft' for the object expression e (evaluated
    at AST node `at` for reaching definitions)."""
    from .shared import reaching_defs

    if isinstance(e, ast.Constant) and e.value is None:
        return "fresh"
    if isinstance(e, ast.Call):
        k, tg = ctx.r.resolve_call(f, e)
        if k == "ctor":
            return "fresh"
        # a class picked from a table of classes (`CLASSES.get(kind)` / `CLASSES[kind]`, values all repo classes) and called
        if isinstance(e.func, ast.Name):
            from .shared import single_def

            pick = single_def(ctx, f, e.func.id)
            tab = None
            if isinstance(pick, ast.Call) and isinstance(pick.func, ast.Attribute) and pick.func.attr == "get":
                tab = pick.func.value
            elif isinstance(pick, ast.Subscript):
                tab = pick.value
            if isinstance(tab, ast.Name):
                d = ctx.m.consts.get(f.rel, {}).get(tab.id)
                if isinstance(d, ast.Dict) and d.values and all(isinstance(v, ast.Name) and ctx.m.resolve_class_name(f.rel, v.id) for v in d.values):
                    return "fresh"
        if k in ("nested", "module", "import", "typed") and tg and depth < 3:
            res = set()
            for t in tg:
                g = ctx.m.funcs[t]
                for r in (n for n in ctx.m.walk_own(g.node) if isinstance(n, ast.Return) and n.value is not None):
                    res.add(_fresh_object(ctx, g, r.value, depth + 1, r))
            if res <= {"fresh"}:
                return "fresh"
        return "graft"
    if isinstance(e, ast.Name):
        vals = reaching_defs(ctx, f, at, e.id) if at is not None else [v for _, v in defs_of(ctx, f, e.id)]
        if vals == ["param"] or (not vals and e.id in f.params):
            return "param:" + e.id
        if vals and all(v is not None and v != "param" for v in vals) and depth < 4:
            res = {_fresh_object(ctx, f, v, depth + 1, v) for v in vals}
            if res == {"fresh"}:
                return "fresh"
        return "graft"
    if isinstance(e, ast.Attribute) and isinstance(e.value, ast.Name) and at is not None:
        # self.F assigned a fresh object earlier in the same function
        stores = [n for n in ctx.m.walk_own(f.node) if isinstance(n, ast.Assign) and any(unparse(t) == unparse(e) for t in n.targets)]
        if stores and all(n.lineno <= getattr(at, "lineno", 0) for n in stores) and all(_fresh_object(ctx, f, n.value, depth + 1, n) == "fresh" for n in stores):
            return "fresh"
    return "graft"


def r4(ctx, R):
    R.rule("C20.R4", "the parent/children graph stays a tree: only objects the parser has just built are attached, or the attachment is guarded by an ancestry test", floor=5, confirmed=24)
    # tree writers: methods whose parameter is appended to self.children
    writers = {}
    for f in ctx.m.funcs.values():
        if not f.cls or len(f.params) < 2:
            continue
        for c in calls_in(f.node):
            if isinstance(c.func, ast.Attribute) and c.func.attr in ("append", "insert") and isinstance(c.func.value, ast.Attribute) and c.func.value.attr == "children" and c.args and isinstance(c.args[-1], ast.Name) and c.args[-1].id in f.params:
                writers[f.qual] = c.args[-1].id
    if not writers:
        raise AnalysisError("no tree writer (method appending its parameter to self.children) found")

    def check_site(f, call, arg, depth, chain):
        kind = _fresh_object(ctx, f, arg, 0, call)
        st = ctx.m.enclosing_stmt(call)
        if kind == "fresh":
            R.ok("C20.R4", f.short, key(f, st), loc(f, call), "attaches an object constructed for the statement at hand" + chain)
            return
        if kind.startswith("param:") and depth < 3:
            pn = kind[6:]
            callers = ctx.r.callers(f.qual)
            if not callers:
                R.ok("C20.R4", f.short, key(f, st), loc(f, call), "no caller in the package")
                return
            for g, c2, k2 in callers:
                if g.rel.endswith("debug.py"):
                    continue
                a2 = ctx.e._actual(c2, k2, f, pn)
                if a2 is None:
                    R.undecided("C20.R4", g.short, key(g, ctx.m.enclosing_stmt(c2)), loc(g, c2), f"argument for `{pn}` not found")
                    continue
                check_site(g, c2, a2, depth + 1, chain + f" (through {f.short})")
            return
        # a graft of an existing object: needs an ancestry guard
        F = ctx.facts(f, interproc=False)
        facts = F.at(call) or set()
        argtxt = unparse(arg)
        guarded = None
        for fact in facts:
            if fact[0] == "notin" and fact[1] == argtxt:
                coll = fact[2]
                # the collection may have been built under another name (returned by an inlined helper)
                names = {coll}
                for _ in range(4):
                    for n in ctx.m.walk_own(f.node):
                        if isinstance(n, ast.Assign) and len(n.targets) == 1 and isinstance(n.targets[0], ast.Name) and isinstance(n.value, ast.Name) and n.targets[0].id in names:
                            names.add(n.value.id)
                for w in (n for n in ctx.m.walk_own(f.node) if isinstance(n, ast.While)):
                    steps = any(isinstance(n, ast.Assign) and isinstance(n.value, ast.Attribute) and n.value.attr == "parent" for n in ast.walk(w))
                    grows = any(isinstance(n, ast.Call) and isinstance(n.func, ast.Attribute) and n.func.attr in ("append", "add") and unparse(n.func.value) in names for n in ast.walk(w))
                    bounded = any(isinstance(n, ast.Compare) and isinstance(n.ops[0], (ast.NotIn, ast.In)) for n in ast.walk(w.test)) or any(isinstance(n, ast.Compare) and isinstance(n.ops[0], (ast.NotIn, ast.In)) for n in ast.walk(w))
                    if steps and grows and bounded:
                        guarded = coll
        if guarded:
            R.ok("C20.R4", f.short, key(f, st), loc(f, call), f"existing object attached only if it is not among the new parent's ancestors (`{guarded}`)" + chain)
        else:
            R.violation("C20.R4", f.short, key(f, st), loc(f, call), f"an already existing object (`{argtxt}`) is attached below another scope without an ancestry test: with files that INCLUDE each other the parent/children graph becomes cyclic and every tree walk (update_fqsn, scope lookup) recurses without bound" + chain)

    for wq, pn in writers.items():
        wf = ctx.m.funcs[wq]
        for g, c2, k2 in ctx.r.callers(wq):
            if g.rel.endswith("debug.py"):
                continue
            a2 = ctx.e._actual(c2, k2, wf, pn)
            if a2 is None:
                continue
            check_site(g, c2, a2, 0, "")
    # direct element stores into a children list
    for f in ctx.m.funcs.values():
        if f.rel.endswith("debug.py"):
            continue
        for n in ctx.m.walk_own(f.node):
            if isinstance(n, ast.Assign):
                for t in n.targets:
                    if isinstance(t, ast.Subscript) and isinstance(t.value, ast.Attribute) and t.value.attr == "children":
                        kind = _fresh_object(ctx, f, n.value, 0, n)
                        if kind == "fresh":
                            R.ok("C20.R4", f.short, key(f, n), loc(f, n), "replaces an entry by a freshly constructed object")
                        else:
                            R.violation("C20.R4", f.short, key(f, n), loc(f, n), "an existing object is stored into a children list without an ancestry test")


GROW = ("append", "extend", "insert", "add", "appendleft", "extendleft")


def r5(ctx, R):
    R.rule("C20.R5", "no collection of the index grows while it is being iterated: a loop over an object's member list that (directly or through a method) appends to the same field of a possibly identical object iterates over a snapshot or excludes the identity first", floor=1, confirmed=1)
    summ = ctx.e.summaries()
    n = 0
    snapshots = 0
    for f in ctx.m.funcs.values():
        if f.rel.endswith("debug.py"):
            continue
        F = None
        for lp in (x for x in ctx.m.walk_own(f.node) if isinstance(x, ast.For)):
            it = lp.iter
            snap = isinstance(it, ast.Call) and isinstance(it.func, ast.Name) and it.func.id in ("list", "tuple", "sorted") and it.args and isinstance(it.args[0], ast.Attribute)
            snap = snap or (isinstance(it, ast.Call) and isinstance(it.func, ast.Attribute) and it.func.attr == "copy") or (isinstance(it, ast.Subscript) and isinstance(it.slice, ast.Slice))
            base = it.args[0] if snap and isinstance(it, ast.Call) and it.args else (it.func.value if snap and isinstance(it, ast.Call) else (it.value if snap else it))
            if not isinstance(base, ast.Attribute):
                continue
            fld, X = base.attr, unparse(base.value)
            grows = []
            for c in (x for x in ast.walk(lp) if isinstance(x, ast.Call) and isinstance(x.func, ast.Attribute)):
                if c.func.attr in GROW and isinstance(c.func.value, ast.Attribute) and c.func.value.attr == fld:
                    grows.append((c, unparse(c.func.value.value), "directly"))
                    continue
                k, tg = ctx.r.resolve_call(f, c)
                if k in ("external", "unknown"):
                    continue
                for q in tg:
                    if any(root == "self" and path == fld and kind == "mutate" for (root, path, kind) in summ.get(q, {})):
                        g = ctx.m.funcs[q]
                        if any(isinstance(x, ast.Call) and isinstance(x.func, ast.Attribute) and x.func.attr in GROW and unparse(x.func.value) == f"self.{fld}" for x in ast.walk(g.node)):
                            grows.append((c, unparse(c.func.value), f"through {g.short}"))
                            break
            if not grows:
                continue
            n += 1
            if snap:
                snapshots += 1
                R.ok("C20.R5", f.short, f"for ... in {unparse(it)[:50]}", loc(f, lp), f"snapshot; body grows .{fld} of {sorted({y for _, y, _ in grows})}")
                continue
            F = F or ctx.facts(f, interproc=False)
            for c, Y, how in grows:
                cx = ctx.r.expr_classes(f, base.value) or set()
                cy_node = c.func.value.value if how == "directly" else c.func.value
                cy = ctx.r.expr_classes(f, cy_node) or set()
                distinct_cls = bool(cx) and bool(cy) and not any(a == b or a in ctx.m.mro(b) or b in ctx.m.mro(a) for a in cx for b in cy)
                facts = F.at(c) or set()
                excluded = any(b[0] == "cond" and ((b[1] in (f"{X} is not {Y}", f"{Y} is not {X}") and b[2] is True) or (b[1] in (f"{X} is {Y}", f"{Y} is {X}") and b[2] is False)) for b in facts)
                k = f"for ... in {unparse(it)[:40]}: {unparse(c)[:40]}"
                if X == Y:
                    R.violation("C20.R5", f.short, k, loc(f, c), f"the loop appends to the very list it iterates ({X}.{fld}, {how}): it never ends")
                elif distinct_cls or excluded:
                    R.ok("C20.R5", f.short, k, loc(f, c), "receiver cannot be the iterated object")
                else:
                    R.violation("C20.R5", f.short, k, loc(f, c), f"`{Y}` may be the same object as `{X}` (a file that INCLUDEs itself, a scope grafted into itself): the loop then appends to the list it is iterating ({how}) and never ends, growing memory without bound")
    R.notes.append(f"C20.R5: {n} loops whose body grows the iterated field ({snapshots} over a snapshot)")
    if not any(i.rule == "C20.R5" for i in R.insts):
        # the graft loop was restructured out of the recognised shape (helper that receives the list as a parameter): no verdict, said so
        R.undecided("C20.R5", "fortls/parsers", "loops growing the iterated member list", "fortls/parsers", "no loop over an object's member list that grows the same field was recognised")


def run(ctx, R):
    LF = r1(ctx, R)
    r4(ctx, R)
    r5(ctx, R)
    r2(ctx, R, LF)
    r3(ctx, R)
