"""Value-kind analysis for the preprocessor's macro table (C03.R9).

The macro table maps a name to a *text* (object-like macro) or to a *tuple*
(argument list, body) for function-like macros; values that arrive from the
JSON configuration may be of any other type.  Using a value as text (`"..." +
v`, `v.replace(..)`, as the replacement of a regex substitution) raises
TypeError / AttributeError for the other kinds, parse() propagates it and the
file is not indexed.

The analysis is a path-sensitive forward may-analysis over the statement CFG
(sa.cfg.forward_states): a state maps the tracked locals to a set of kinds

    S text   T tuple   O any other type   N None   U not derived

refined on the edges of isinstance / `is None` tests.  A use is reported only
on a path whose state was derived without imprecision (no U for the operand,
no uncorrelated cache read on the path); everything else is UNDECIDED.
Nothing of the analysed code is executed."""
from __future__ import annotations

import ast

from sa.cfg import CFG, forward_states
from sa.model import unparse

S, T, O, N, U = "S", "T", "O", "N", "U"
ALL = frozenset({S, T, O})
STR_ONLY_METHODS = {
    "replace", "strip", "lstrip", "rstrip", "split", "rsplit", "splitlines", "lower", "upper", "startswith", "endswith", "find",
    "rfind", "join", "format", "encode", "partition", "rpartition", "casefold", "title", "capitalize", "isdigit", "isalpha",
    "isidentifier", "zfill", "ljust", "rjust", "center", "expandtabs", "translate", "swapcase", "removeprefix", "removesuffix",
}
TYPE_KINDS = {"str": {S}, "tuple": {T}, "int": {O}, "float": {O}, "bool": {O}, "list": {O}, "dict": {O}, "bytes": {O}, "set": {O}, "complex": {O}}


def types_to_kinds(e):
    ts = e.elts if isinstance(e, ast.Tuple) else [e]
    out = set()
    for t in ts:
        name = unparse(t).split(".")[-1]
        if name not in TYPE_KINDS:
            return None
        out |= TYPE_KINDS[name]
    return out


class State:
    """immutable mapping name -> frozenset of kinds, plus an imprecision flag"""

    __slots__ = ("items", "imprecise")

    def __init__(self, items=(), imprecise=False):
        self.items = tuple(sorted(items))
        self.imprecise = imprecise

    def get(self, name):
        for k, v in self.items:
            if k == name:
                return v
        return None

    def set(self, name, kinds, imprecise=None):
        d = dict(self.items)
        if kinds is None:
            d.pop(name, None)
        else:
            d[name] = frozenset(kinds)
        return State(d.items(), self.imprecise if imprecise is None else imprecise)

    def __hash__(self):
        return hash((self.items, self.imprecise))

    def __eq__(self, o):
        return self.items == o.items and self.imprecise == o.imprecise


class KindAnalysis:
    def __init__(self, ctx, fn_node, tables, table_kinds, summaries, cache_records=None, cache_name=None, init=None):
        self.ctx = ctx
        self.fn = fn_node
        self.tables = set(tables)  # names that denote the macro table in this function
        self.table_kinds = frozenset(table_kinds)
        self.summaries = summaries  # callable(call, arg kinds list) -> kinds or None
        self.cache_name = cache_name
        self.cache_records = cache_records or []  # [(key text, {key var: kinds}, stored kinds)]
        self.new_records = []
        self.stores = []  # (node, kinds) for table[k] = e
        self.uses = []  # (expr node, what, kinds, imprecise, from_table)
        self.returns = set()
        self.cfg = CFG(fn_node)
        self.init = init or State()
        self._text_memo = {}
        self._flags = {}

    # ------------------------------------------------------------ expressions
    def is_table(self, e):
        return isinstance(e, ast.Name) and e.id in self.tables

    def kinds(self, e, st):
        """(kinds, from_table)"""
        if isinstance(e, ast.Constant):
            if isinstance(e.value, str):
                return {S}, False
            if e.value is None:
                return {N}, False
            return {O}, False
        if isinstance(e, ast.JoinedStr):
            return {S}, False
        if isinstance(e, ast.Tuple):
            return {T}, False
        if isinstance(e, (ast.List, ast.Dict, ast.Set, ast.ListComp, ast.DictComp, ast.SetComp, ast.GeneratorExp, ast.Compare)):
            return {O}, False
        if isinstance(e, ast.Name):
            k = st.get(e.id)
            if k is not None:
                return set(k), True
            if self._text_local(e.id):
                return {S}, False
            return {U}, False
        if isinstance(e, ast.Subscript):
            if self.is_table(e.value) and not isinstance(e.slice, ast.Slice):
                return set(self.table_kinds), True
            if isinstance(e.slice, ast.Slice) and self.kinds(e.value, st)[0] == {S}:
                return {S}, False
            return {U}, False
        if isinstance(e, ast.IfExp):
            a = self.refine(e.test, True, st)
            b = self.refine(e.test, False, st)
            out, ft = set(), False
            for s2, br in ((a, e.body), (b, e.orelse)):
                if s2 is None:
                    continue
                k, f_ = self.kinds(br, s2)
                out |= k
                ft = ft or f_
            return out or {U}, ft
        if isinstance(e, ast.BinOp) and isinstance(e.op, ast.Add):
            l, lf = self.kinds(e.left, st)
            r, rf = self.kinds(e.right, st)
            if l == {S} or r == {S}:
                return {S}, False  # str + x is a str, or raises
            return {U}, False
        if isinstance(e, ast.BinOp) and isinstance(e.op, ast.Mod) and self.kinds(e.left, st)[0] == {S}:
            return {S}, False
        if isinstance(e, ast.Call):
            f = e.func
            if isinstance(f, ast.Name) and f.id in ("str", "repr", "format"):
                return {S}, False
            if isinstance(f, ast.Name) and f.id == "tuple":
                return {T}, False
            if isinstance(f, ast.Name) and f.id in ("int", "float", "len", "bool", "list", "dict", "set"):
                return {O}, False
            if isinstance(f, ast.Attribute) and self.is_table(f.value) and f.attr == "get" and e.args:
                out = set(self.table_kinds)
                if len(e.args) > 1:
                    out |= self.kinds(e.args[1], st)[0]
                else:
                    out.add(N)
                return out, True
            if isinstance(f, ast.Attribute) and self.is_table(f.value) and f.attr == "pop" and e.args:
                out = set(self.table_kinds)
                if len(e.args) > 1:
                    out |= self.kinds(e.args[1], st)[0]
                return out, True
            if isinstance(f, ast.Attribute) and f.attr in STR_ONLY_METHODS and f.attr not in ("split", "rsplit", "splitlines", "partition", "rpartition", "find", "rfind", "startswith", "endswith", "isdigit", "isalpha", "isidentifier", "encode"):
                return {S}, False  # a str method that returns str (or the call raises)
            if isinstance(f, ast.Attribute) and f.attr == "compile" and unparse(f.value) == "re":
                return {O}, False
            r = self.summaries(e, [self.kinds(a, st) for a in e.args]) if self.summaries else None
            if r is not None:
                return set(r), any(ft for _, ft in [self.kinds(a, st) for a in e.args])
            return {U}, False
        return {U}, False

    def _kind_deps(self, name):
        """names the kind of local `name` depends on: read in the values assigned to it and in the
        tests that decide which assignment runs"""
        out = set()
        par = self.ctx.m.parent
        for x in self._walk(self.fn):
            if isinstance(x, ast.Assign) and any(isinstance(n, ast.Name) and n.id == name and isinstance(n.ctx, ast.Store) for t in x.targets for n in ast.walk(t)):
                out |= {n.id for n in ast.walk(x.value) if isinstance(n, ast.Name)}
                p = par.get(x)
                while p is not None and p is not self.fn:
                    if isinstance(p, (ast.If, ast.While)):
                        out |= {n.id for n in ast.walk(p.test) if isinstance(n, ast.Name)}
                    p = par.get(p)
        out.discard(name)
        return out

    def _text_local(self, name, _busy=set()):
        """a parameter annotated `str`, or a local bound only to text"""
        if name in self._text_memo:
            return self._text_memo[name]
        if name in _busy:
            return True  # optimistic inside a cycle (x = x + "..")
        a = self.fn.args
        for p in a.posonlyargs + a.args + a.kwonlyargs:
            if p.arg == name:
                r = p.annotation is not None and unparse(p.annotation) in ("str", "'str'")
                self._text_memo[name] = r
                return r
        vals = []
        for x in self._walk(self.fn):
            if isinstance(x, ast.Assign):
                for t in x.targets:
                    if isinstance(t, ast.Name) and t.id == name:
                        vals.append(x.value)
                    elif any(isinstance(n, ast.Name) and n.id == name and isinstance(n.ctx, ast.Store) for n in ast.walk(t)):
                        vals.append(None)
            elif isinstance(x, ast.AugAssign) and isinstance(x.target, ast.Name) and x.target.id == name:
                vals.append(ast.BinOp(left=ast.Name(id=name, ctx=ast.Load()), op=x.op, right=x.value))
            elif isinstance(x, (ast.For, ast.comprehension, ast.With, ast.NamedExpr, ast.ExceptHandler)) and any(isinstance(n, ast.Name) and n.id == name and isinstance(n.ctx, ast.Store) for n in ast.walk(x.target if hasattr(x, "target") else x) if not isinstance(x, (ast.With, ast.ExceptHandler))):
                vals.append(None)
        if not vals or any(v is None for v in vals):
            self._text_memo[name] = False
            return False
        _busy.add(name)
        try:
            r = all(self.kinds(v, State())[0] == {S} for v in vals)
        finally:
            _busy.discard(name)
        self._text_memo[name] = r
        return r

    # ---------------------------------------------------------------- refine
    def refine(self, test, pol, st):
        """state after `test` evaluated to pol; None = infeasible"""
        if isinstance(test, ast.UnaryOp) and isinstance(test.op, ast.Not):
            return self.refine(test.operand, not pol, st)
        if isinstance(test, ast.BoolOp):
            if isinstance(test.op, ast.And) == pol:
                cur = st
                for v in test.values:
                    cur = self.refine(v, pol, cur)
                    if cur is None:
                        return None
                return cur
            return st
        if isinstance(test, ast.Call) and isinstance(test.func, ast.Name) and test.func.id == "isinstance" and len(test.args) == 2 and isinstance(test.args[0], ast.Name):
            v = test.args[0].id
            cur = st.get(v)
            ks = types_to_kinds(test.args[1])
            if cur is None:
                return st
            if ks is None:
                return State(st.items, True)
            if U in cur:
                # a type test on a value whose kind was not fully derived: the known part is refined,
                # but correlations with other values may be lost - what follows is not precise
                known = cur - {U}
                new = ((known & ks) if pol else (known - ks)) | {U}
                return State(st.set(v, new).items, True)
            new = (cur & ks) if pol else (cur - ks)
            if pol and O in cur and not (ks <= {S, T}):
                new = set(new) | {O}
            if not pol and O in ks:
                # `not isinstance(v, int)` removes only some of the "other" types
                new = set(new) | ({O} if O in cur else set())
            if not new:
                return None
            return st.set(v, new)
        if isinstance(test, ast.Compare) and len(test.ops) == 1 and isinstance(test.left, ast.Name) and isinstance(test.comparators[0], ast.Constant) and test.comparators[0].value is None and isinstance(test.ops[0], (ast.Is, ast.IsNot)):
            v = test.left.id
            cur = st.get(v)
            if cur is None or U in cur:
                return st
            is_none = isinstance(test.ops[0], ast.Is) == pol
            new = (cur & {N}) if is_none else (cur - {N})
            if not new:
                return None
            return st.set(v, new)
        if isinstance(test, ast.Name) and test.id in self._flags:
            # a named type test: `is_func = isinstance(value, tuple)` ... `if is_func:`
            expr, subject = self._flags[test.id]
            if self._single_binding(subject) and self._single_binding(test.id):
                return self.refine(expr, pol, st)
            return State(st.items, True)
        # a test this analysis does not understand that mentions a value whose kind is still open
        # (type(v) is tuple, hasattr(v, ..), len(v) == 2, a flag computed elsewhere): not precise from here on
        for n in ast.walk(test):
            if isinstance(n, ast.Name):
                k = st.get(n.id)
                if k is not None and len(k - {U}) > 1:
                    return State(st.items, True)
                if n.id in self._flags:
                    return State(st.items, True)
        return st

    def _single_binding(self, name):
        c = 0
        for x in self._walk(self.fn):
            if isinstance(x, ast.Name) and x.id == name and isinstance(x.ctx, (ast.Store, ast.Del)):
                c += 1
        return c <= 1

    # ------------------------------------------------------------------ uses
    def scan_uses(self, root, st):
        for x in self._walk(root):
            if isinstance(x, ast.BinOp) and isinstance(x.op, ast.Add):
                for a, b in ((x.left, x.right), (x.right, x.left)):
                    ka, _ = self.kinds(a, st)
                    kb, fb = self.kinds(b, st)
                    if ka == {S} and fb and not (isinstance(b, ast.BinOp)):
                        self.uses.append((b, "concatenated with text", frozenset(kb), st.imprecise))
            elif isinstance(x, ast.AugAssign) and isinstance(x.op, ast.Add):
                kb, fb = self.kinds(x.value, st)
                kt, _ = self.kinds(x.target, st) if isinstance(x.target, ast.Name) else ({U}, False)
                if fb and kt == {S} and not isinstance(x.value, ast.BinOp):
                    self.uses.append((x.value, "appended to text", frozenset(kb), st.imprecise))
            elif isinstance(x, ast.Call) and isinstance(x.func, ast.Attribute):
                if x.func.attr in STR_ONLY_METHODS:
                    kb, fb = self.kinds(x.func.value, st)
                    if fb:
                        self.uses.append((x.func.value, f"used as text (.{x.func.attr}())", frozenset(kb), st.imprecise))
                elif x.func.attr in ("sub", "subn") and x.args:
                    # pattern.sub(repl, s) / re.sub(p, repl, s)
                    idx = 1 if unparse(x.func.value) == "re" else 0
                    if len(x.args) > idx:
                        kb, fb = self.kinds(x.args[idx], st)
                        if fb:
                            self.uses.append((x.args[idx], f"used as the replacement text of .{x.func.attr}()", frozenset(kb), st.imprecise))

    def _walk(self, root):
        todo = [root]
        while todo:
            n = todo.pop()
            yield n
            for c in ast.iter_child_nodes(n):
                if isinstance(c, (ast.FunctionDef, ast.AsyncFunctionDef, ast.Lambda, ast.ClassDef)):
                    continue
                todo.append(c)

    # -------------------------------------------------------------- transfer
    def assign(self, target, value, st, node):
        out = [st]
        if isinstance(target, ast.Name):
            # cache read: x = C.get(K)
            if self.cache_name and isinstance(value, ast.Call) and isinstance(value.func, ast.Attribute) and value.func.attr == "get" and unparse(value.func.value) == self.cache_name and value.args:
                ktxt = unparse(value.args[0])
                res = [st.set(target.id, {N} if len(value.args) == 1 else self.kinds(value.args[1], st)[0])]
                recs = [r for r in self.cache_records]
                if not recs:
                    return res
                # a tracked value that differs between the stored entries but is not part of the
                # key: the entry's kind depends on something the key does not determine
                varying = set()
                for r1 in recs:
                    for r2 in recs:
                        d1, d2 = dict(r1[3]), dict(r2[3])
                        varying |= {a for a in set(d1) | set(d2) if d1.get(a) != d2.get(a)}
                for rk, rvars, rkinds, _ in recs:
                    if rk != ktxt or varying:
                        # the entry is not keyed by what its kind depends on: no correlation derivable
                        res.append(st.set(target.id, {U}, imprecise=True))
                        continue
                    cur = st
                    feasible = True
                    for kv, kk in rvars.items():
                        have = cur.get(kv)
                        if have is None:
                            continue
                        inter = set(have) & set(kk)
                        if not inter:
                            feasible = False
                            break
                        cur = cur.set(kv, inter)
                    if feasible:
                        res.append(cur.set(target.id, rkinds))
                return res
            if target.id in self._tracked_names or st.get(target.id) is not None:
                k, _ = self.kinds(value, st)
                return [st.set(target.id, k)]
            return out
        if isinstance(target, (ast.Tuple, ast.List)):
            cur = st
            for t in target.elts:
                if isinstance(t, ast.Name) and cur.get(t.id) is not None:
                    cur = cur.set(t.id, {U})
            return [cur]
        if isinstance(target, ast.Subscript):
            if self.is_table(target.value):
                k, _ = self.kinds(value, st)
                self.stores.append((node, frozenset(k), st.imprecise))
            elif self.cache_name and unparse(target.value) == self.cache_name:
                k, _ = self.kinds(value, st)
                kvars = {n.id: st.get(n.id) for n in ast.walk(target.slice) if isinstance(n, ast.Name) and st.get(n.id) is not None}
                stored = value.id if isinstance(value, ast.Name) else None
                deps = self._kind_deps(stored) if stored else set()
                ctxv = {a: b for a, b in st.items if a != stored and a not in kvars and a in deps}
                self.new_records.append((unparse(target.slice), {a: frozenset(b) for a, b in kvars.items()}, frozenset(k), tuple(sorted(ctxv.items()))))
        return out

    def run(self):
        # names ever assigned from a table read (directly) are tracked everywhere
        self._tracked_names = set()
        changed = True
        while changed:
            changed = False
            for x in self._walk(self.fn):
                tg = val = None
                if isinstance(x, ast.Assign) and len(x.targets) == 1 and isinstance(x.targets[0], ast.Name):
                    tg, val = x.targets[0].id, x.value
                if tg and tg not in self._tracked_names:
                    for y in ast.walk(val):
                        if (isinstance(y, ast.Subscript) and self.is_table(y.value)) or (isinstance(y, ast.Call) and isinstance(y.func, ast.Attribute) and self.is_table(y.func.value) and y.func.attr in ("get", "pop")) or (isinstance(y, ast.Name) and y.id in self._tracked_names) or (self.cache_name and isinstance(y, ast.Call) and isinstance(y.func, ast.Attribute) and unparse(y.func.value) == self.cache_name):
                            self._tracked_names.add(tg)
                            changed = True
                            break
        for k, _ in self.init.items:
            self._tracked_names.add(k)
        # boolean flags that name a type test on some value
        self._flags = {}
        for x in self._walk(self.fn):
            if isinstance(x, ast.Assign) and len(x.targets) == 1 and isinstance(x.targets[0], ast.Name):
                v = x.value
                inner = v.operand if isinstance(v, ast.UnaryOp) and isinstance(v.op, ast.Not) else v
                if isinstance(inner, ast.Call) and isinstance(inner.func, ast.Name) and inner.func.id == "isinstance" and len(inner.args) == 2 and isinstance(inner.args[0], ast.Name):
                    self._flags[x.targets[0].id] = (v, inner.args[0].id)
                elif isinstance(inner, ast.Compare) and len(inner.ops) == 1 and isinstance(inner.ops[0], (ast.Is, ast.IsNot)) and isinstance(inner.left, ast.Name) and isinstance(inner.comparators[0], ast.Constant) and inner.comparators[0].value is None:
                    self._flags[x.targets[0].id] = (v, inner.left.id)
        for x in self._walk(self.fn):
            if isinstance(x, ast.Assign) and len(x.targets) == 1 and isinstance(x.targets[0], ast.Subscript) and (self.is_table(x.targets[0].value) or (self.cache_name and unparse(x.targets[0].value) == self.cache_name)) and isinstance(x.value, ast.Name):
                self._tracked_names.add(x.value.id)

        def step(n, st, lab):
            a = n.ast
            if lab is not None and lab[0] == "exc":
                return [st]
            if n.kind == "test":
                self.scan_uses(a, st)
                if lab is not None and lab[0] in ("T", "F"):
                    r = self.refine(a, lab[0] == "T", st)
                    return [] if r is None else [r]
                return [st]
            if n.kind == "for":
                if lab is not None and lab[0] == "iter":
                    it = a.iter
                    cur = st
                    tg = a.target
                    if isinstance(it, ast.Call) and isinstance(it.func, ast.Attribute) and self.is_table(it.func.value) and it.func.attr == "items" and isinstance(tg, ast.Tuple) and len(tg.elts) == 2 and all(isinstance(t, ast.Name) for t in tg.elts):
                        self._tracked_names.add(tg.elts[1].id)
                        return [cur.set(tg.elts[0].id, {S}).set(tg.elts[1].id, self.table_kinds)]
                    if isinstance(it, ast.Call) and isinstance(it.func, ast.Attribute) and self.is_table(it.func.value) and it.func.attr == "values" and isinstance(tg, ast.Name):
                        self._tracked_names.add(tg.id)
                        return [cur.set(tg.id, self.table_kinds)]
                    for t in ast.walk(tg):
                        if isinstance(t, ast.Name) and cur.get(t.id) is not None:
                            cur = cur.set(t.id, {U})
                    return [cur]
                return [st]
            if n.kind != "stmt" or a is None:
                return [st]
            if isinstance(a, ast.expr):
                self.scan_uses(a, st)
                return [st]
            self.scan_uses(a, st)
            if isinstance(a, ast.Assign):
                outs = [st]
                for t in a.targets:
                    outs = [s2 for s1 in outs for s2 in self.assign(t, a.value, s1, a)]
                return outs
            if isinstance(a, ast.AnnAssign) and a.value is not None:
                return self.assign(a.target, a.value, st, a)
            if isinstance(a, ast.AugAssign) and isinstance(a.target, ast.Name) and st.get(a.target.id) is not None:
                k, _ = self.kinds(ast.BinOp(left=a.target, op=a.op, right=a.value), st)
                return [st.set(a.target.id, k)]
            if isinstance(a, ast.Return) and a.value is not None:
                k, _ = self.kinds(a.value, st)
                self.returns |= set(k)
            return [st]

        forward_states(self.cfg, self.init, step, max_states=20000)
        return self
