"""Two-point case lattice over string expressions (DESIGN.md C13.R2), shared by
C05, C12 and C13."""
from __future__ import annotations

import ast

from sa.model import access_path, unparse

from .shared import defs_of, reaching_def_nodes

LOWER, UPPER, NEUTRAL, RAW, UNKNOWN = "lower", "upper", "neutral", "raw", "unknown"
# RAW: some derivation yields source text as the user typed it; UNKNOWN: the analysis gave up


def join(a, b):
    if a is None:
        return b
    if b is None:
        return a
    if a == b:
        return a
    if a == NEUTRAL:
        return b
    if b == NEUTRAL:
        return a
    if RAW in (a, b):
        return RAW
    if UNKNOWN in (a, b):
        return UNKNOWN
    return RAW  # lower mixed with upper


def const_case(s):
    if not isinstance(s, str):
        return NEUTRAL
    has_l = any(c.islower() for c in s)
    has_u = any(c.isupper() for c in s)
    if has_l and has_u:
        return RAW
    if has_u:
        return UPPER
    if has_l:
        return LOWER
    return NEUTRAL


class Case:
    def __init__(self, ctx):
        self.ctx = ctx
        self._field = {}
        self._cont = {}
        self._ret = {}
        self._visiting = set()
        self._pctx = []
        self._memo = {}
        self.normalised = False
        self._build_index()  # set when the last query met an explicit lower()/upper()

    def _build_index(self):
        """One pass over the package: stores by attribute name / local name."""
        from collections import defaultdict

        ctx = self.ctx
        self.ix_attr_assign = defaultdict(list)  # attr -> (f, st, target, value)
        self.ix_attr_sub = defaultdict(list)  # attr -> (f, st, target subscript, value)
        self.ix_attr_call = defaultdict(list)  # attr -> (f, call)
        self.ix_name_assign = defaultdict(list)  # (qual, name) -> (st, target, value)
        self.ix_name_sub = defaultdict(list)
        self.ix_name_call = defaultdict(list)
        for f in ctx.m.funcs.values():
            if f.rel.endswith("debug.py"):
                continue
            for st in ctx.m.walk_own(f.node):
                if isinstance(st, (ast.Assign, ast.AnnAssign)):
                    tg = st.targets if isinstance(st, ast.Assign) else [st.target]
                    val = getattr(st, "value", None)
                    for t in tg:
                        if isinstance(t, ast.Attribute):
                            self.ix_attr_assign[t.attr].append((f, st, t, val))
                        elif isinstance(t, ast.Name):
                            self.ix_name_assign[(f.qual, t.id)].append((st, t, val))
                        elif isinstance(t, (ast.Tuple, ast.List)):
                            for x in t.elts:
                                if isinstance(x, ast.Name):
                                    self.ix_name_assign[(f.qual, x.id)].append((st, t, val))
                        elif isinstance(t, ast.Subscript):
                            if isinstance(t.value, ast.Attribute):
                                self.ix_attr_sub[t.value.attr].append((f, st, t, val))
                            elif isinstance(t.value, ast.Name):
                                self.ix_name_sub[(f.qual, t.value.id)].append((st, t, val))
                elif isinstance(st, ast.Call) and isinstance(st.func, ast.Attribute) and st.func.attr in ("append", "add", "insert", "extend", "update") and st.args:
                    if isinstance(st.func.value, ast.Attribute):
                        self.ix_attr_call[st.func.value.attr].append((f, st))
                    elif isinstance(st.func.value, ast.Name):
                        self.ix_name_call[(f.qual, st.func.value.id)].append((f, st))

    # ---------------------------------------------------------------- values
    def of(self, f, e, at=None, depth=0):
        mk = (f.qual, id(e), id(at), tuple(fr[0] for fr in self._pctx))
        if mk in self._memo:
            return self._memo[mk]
        nv = len(self._visiting)
        r = self._of(f, e, at, depth)
        if r is not None and depth <= 2 and not self._pctx:
            self._memo[mk] = r
        return r

    def _of(self, f, e, at=None, depth=0):
        ctx = self.ctx
        if e is None or depth > 32:
            return UNKNOWN
        if isinstance(e, ast.Constant):
            return const_case(e.value) if isinstance(e.value, str) else NEUTRAL
        if isinstance(e, (ast.Name, ast.Attribute, ast.Call, ast.Subscript)) and ctx.r.expr_classes(f, e):
            return NEUTRAL  # an object of a repository class, not text
        if isinstance(e, ast.JoinedStr):
            r = NEUTRAL
            for v in e.values:
                if isinstance(v, ast.Constant):
                    r = join(r, const_case(v.value))
                elif isinstance(v, ast.FormattedValue):
                    r = join(r, self.of(f, v.value, at or e, depth + 1))
            return r
        if isinstance(e, ast.BinOp) and isinstance(e.op, (ast.Add, ast.Mod)):
            return join(self.of(f, e.left, at, depth + 1), self.of(f, e.right, at, depth + 1))
        if isinstance(e, ast.IfExp):
            return join(self.of(f, e.body, at, depth + 1), self.of(f, e.orelse, at, depth + 1))
        if isinstance(e, ast.BoolOp):
            r = None
            for v in e.values:
                r = join(r, self.of(f, v, at, depth + 1))
            return r
        if isinstance(e, ast.Call):
            fn = e.func
            if isinstance(fn, ast.Attribute):
                if fn.attr in ("lower", "casefold"):
                    self.normalised = True
                    return LOWER
                if fn.attr == "upper":
                    self.normalised = True
                    return UPPER
                if fn.attr in ("strip", "lstrip", "rstrip", "copy", "pop", "popleft"):
                    return self.of(f, fn.value, at, depth + 1)
                if fn.attr == "replace" and len(e.args) >= 2:
                    return join(self.of(f, fn.value, at, depth + 1), self.of(f, e.args[1], at, depth + 1))
                if fn.attr in ("split", "rsplit", "splitlines", "partition"):
                    if fn.attr == "split" and e.args and (ctx.p.fregex_ref(f.rel, fn.value) or ctx.r.expr_builtin(f, fn.value) == "pattern"):
                        return self.of(f, e.args[0], at, depth + 1)  # <pattern>.split(text)
                    return self.of(f, fn.value, at, depth + 1)
                if fn.attr == "join" and e.args:
                    return join(self.of(f, fn.value, at, depth + 1), self.of(f, e.args[0], at, depth + 1))
                if fn.attr == "get" and e.args:
                    base = self.container(f, fn.value, at, "value", depth + 1)
                    if len(e.args) > 1:
                        base = join(base, self.of(f, e.args[1], at, depth + 1))
                    return base
                if fn.attr in ("keys",):
                    return self.container(f, fn.value, at, "key", depth + 1)
                if fn.attr in ("values",):
                    return self.container(f, fn.value, at, "value", depth + 1)
                if fn.attr in ("group", "groups", "findall", "finditer"):
                    return RAW
                if fn.attr == "format":
                    r = self.of(f, fn.value, at, depth + 1)
                    for a in e.args:
                        r = join(r, self.of(f, a, at, depth + 1))
                    return r
            d_ = ctx.m.dotted(f.rel, fn) if isinstance(fn, (ast.Name, ast.Attribute)) else None
            if d_ in ("re.sub",) and len(e.args) >= 3:
                return join(self.of(f, e.args[2], at, depth + 1), self.of(f, e.args[1], at, depth + 1))
            if isinstance(fn, ast.Name) and fn.id in ("str",) and e.args:
                return self.of(f, e.args[0], at, depth + 1)
            if isinstance(fn, ast.Name) and fn.id in ("set", "list", "sorted", "tuple", "frozenset") and e.args:
                return self.of(f, e.args[0], at, depth + 1)
            if isinstance(fn, ast.Name) and fn.id in ("len", "int", "id"):
                return NEUTRAL
            k_, tg = ctx.r.resolve_call(f, e)
            if k_ in ("nested", "module", "import", "typed", "super") and tg:
                r = None
                for t in sorted(tg)[:8]:
                    r = join(r, self.returns(t, f, e, depth + 1))
                return r if r is not None else UNKNOWN
            return UNKNOWN
        if isinstance(e, ast.Name):
            key = (f.qual, e.id, id(at))
            if key in self._visiting:
                return None
            self._visiting.add(key)
            try:
                rdn = reaching_def_nodes(ctx, f, at, e.id) if at is not None else [st for st, _ in defs_of(ctx, f, e.id)]
                if not rdn and f.parent and e.id not in f.params:
                    g = ctx.m.funcs[f.parent]
                    r = None
                    for st, v in defs_of(ctx, g, e.id):
                        r = join(r, self._binding(g, st, e.id, depth + 1))
                    if r is None and e.id in g.params:
                        r = self.param(g, e.id, depth + 1)
                    return r if r is not None else UNKNOWN
                if not rdn:
                    return UNKNOWN
                r = None
                for st in rdn:
                    if st == "param":
                        r = join(r, self.param(f, e.id, depth + 1))
                    else:
                        r = join(r, self._binding(f, st, e.id, depth + 1))
                return r
            finally:
                self._visiting.discard(key)
        if isinstance(e, ast.Attribute):
            owner = ctx.r.expr_classes(f, e.value)
            if e.attr == "name":
                d = ctx.m.dotted(f.rel, e)
                if d and d.split(".")[0] in ("os", "sys"):
                    return NEUTRAL
                return RAW  # an entity name as the user wrote it
            loc_ = self._local_attr(f, e, at, depth)
            if loc_ is not None:
                return loc_
            if owner and not any(ctx.m.field(c, e.attr) is not None or any(e.attr in ctx.m.classes[s_].fields for s_ in ctx.m.subs.get(c, ())) for c in owner):
                owner = None  # the inferred classes do not even have this field: inference too narrow
            return self.field(e.attr, depth + 1, owner)
        if isinstance(e, ast.Subscript):
            if isinstance(e.slice, ast.Slice):
                return self.of(f, e.value, at, depth + 1)
            b = ctx.r.expr_builtin(f, e.value)
            if b == "str":
                return self.of(f, e.value, at, depth + 1)
            return self.container(f, e.value, at, "value", depth + 1)
        if isinstance(e, (ast.List, ast.Tuple, ast.Set)):
            r = NEUTRAL
            for x in e.elts:
                r = join(r, self.of(f, x, at, depth + 1))
            return r
        if isinstance(e, (ast.ListComp, ast.SetComp, ast.GeneratorExp)):
            return self._comp(f, e, e.elt, depth + 1)
        if isinstance(e, ast.DictComp):
            return self._comp(f, e, e.value, depth + 1)
        return UNKNOWN

    def _local_attr(self, f, e, at, depth):
        """flow-sensitive read of `self.x`: when every path from the entry to `at`
        passes a store to the same access path in this function, the value is
        the join of those stores (the field-wide join would include the value
        the store has just replaced)"""
        from sa.cfg import assigned_paths
        from sa.model import access_path

        path = access_path(e)
        if path is None or at is None or "." not in path:
            return None
        cfg = self.ctx.cfg(f)
        n0 = cfg.node_of(at)
        if n0 is None:
            return None
        vals, seen, stack = [], set(), [p for p, _ in n0.preds]
        while stack:
            i = stack.pop()
            if i in seen:
                continue
            seen.add(i)
            n = cfg.nodes[i]
            a = n.ast
            if n.kind == "entry":
                return None
            if n.kind == "stmt" and isinstance(a, (ast.Assign, ast.AnnAssign, ast.AugAssign)) and path in assigned_paths(a):
                if isinstance(a, ast.Assign) and len(a.targets) == 1 and access_path(a.targets[0]) == path:
                    vals.append(a)
                    continue
                return None
            stack.extend(p for p, _ in n.preds)
        if not vals:
            return None
        r = NEUTRAL
        for a in vals:
            k = (f.qual, path, id(a))
            if k in self._visiting:
                return None
            self._visiting.add(k)
            try:
                r = join(r, self.of(f, a.value, a.value, depth + 1))
            finally:
                self._visiting.discard(k)
        return r

    def _comp(self, f, comp, elt, depth):
        """case of a comprehension element: its loop variables take the element
        case of what they iterate over"""
        sub = {}
        for g in comp.generators:
            if isinstance(g.iter, ast.Call) and isinstance(g.iter.func, ast.Attribute) and g.iter.func.attr == "items" and isinstance(g.target, ast.Tuple) and len(g.target.elts) == 2:
                for x, w in zip(g.target.elts, ("key", "value")):
                    if isinstance(x, ast.Name):
                        sub[x.id] = self.container(f, g.iter.func.value, comp, w, depth + 1)
                continue
            c = self.container(f, g.iter, comp, "iter", depth + 1)
            for x in ast.walk(g.target):
                if isinstance(x, ast.Name):
                    sub[x.id] = c
        return self._of_with(f, elt, comp, sub, depth + 1)

    def _of_with(self, f, e, at, sub, depth):
        if isinstance(e, ast.Name) and e.id in sub:
            return sub[e.id]
        if isinstance(e, ast.Call) and isinstance(e.func, ast.Attribute):
            if e.func.attr in ("lower", "casefold"):
                self.normalised = True
                return LOWER
            if e.func.attr == "upper":
                self.normalised = True
                return UPPER
            if e.func.attr in ("strip", "lstrip", "rstrip"):
                return self._of_with(f, e.func.value, at, sub, depth + 1)
        if isinstance(e, ast.Attribute) and isinstance(e.value, ast.Name) and e.value.id in sub:
            return self.field(e.attr, depth + 1)
        if isinstance(e, (ast.Tuple, ast.List)):
            r = NEUTRAL
            for x in e.elts:
                r = join(r, self._of_with(f, x, at, sub, depth + 1))
            return r
        return self.of(f, e, at, depth + 1)

    def _binding(self, f, st, name, depth):
        """case given to local `name` by binding statement st"""
        ctx = self.ctx
        if isinstance(st, ast.Assign):
            t = st.targets[0]
            if isinstance(t, ast.Name) and len(st.targets) == 1:
                return self.of(f, st.value, st.value, depth + 1)
            if isinstance(t, (ast.Tuple, ast.List)):
                for i, x in enumerate(t.elts):
                    if isinstance(x, ast.Name) and x.id == name:
                        if isinstance(st.value, (ast.Tuple, ast.List)) and len(st.value.elts) == len(t.elts):
                            return self.of(f, st.value.elts[i], st.value, depth + 1)
                        return self.of(f, st.value, st.value, depth + 1)
            return UNKNOWN
        if isinstance(st, ast.AnnAssign):
            return self.of(f, st.value, st.value, depth + 1) if st.value is not None else UNKNOWN
        if isinstance(st, ast.AugAssign):
            return join(self.of(f, st.value, st.value, depth + 1), None)
        if isinstance(st, (ast.For, ast.comprehension)):
            it = st.iter
            tgt = st.target
            pos = None
            if isinstance(tgt, (ast.Tuple, ast.List)):
                for i, x in enumerate(tgt.elts):
                    if isinstance(x, ast.Name) and x.id == name:
                        pos = i
            if isinstance(it, ast.Call) and isinstance(it.func, ast.Attribute) and it.func.attr == "items":
                return self.container(f, it.func.value, st, "key" if pos == 0 else "value", depth + 1)
            if isinstance(it, ast.Call) and isinstance(it.func, ast.Name) and it.func.id == "enumerate" and it.args:
                if pos == 0:
                    return NEUTRAL
                return self.container(f, it.args[0], st, "value", depth + 1)
            if isinstance(it, ast.Call) and isinstance(it.func, ast.Name) and it.func.id == "zip":
                if pos is not None and pos < len(it.args):
                    return self.container(f, it.args[pos], st, "value", depth + 1)
            return self.container(f, it, st, "iter", depth + 1)
        return UNKNOWN

    def param(self, f, name, depth):
        ctx = self.ctx
        for frame in reversed(self._pctx):
            if frame[0] == f.qual and name in frame[1]:
                return frame[1][name]
        key = ("param", f.qual, name)
        if key in self._visiting or depth > 32:
            return None
        callers = [(g, c, k) for g, c, k in ctx.r.callers(f.qual, by_name=False) if not g.rel.endswith("debug.py")]
        if not callers:
            callers = [(g, c, k) for g, c, k in ctx.r.callers(f.qual, by_name=True) if not g.rel.endswith("debug.py")]
        if not callers:
            return UNKNOWN
        self._visiting.add(key)
        try:
            r = None
            for g, c, k in callers:
                a = ctx.e._actual(c, k, f, name)
                if a is None:
                    args = f.node.args
                    pos = args.posonlyargs + args.args
                    dflt = dict(zip([p_.arg for p_ in pos][len(pos) - len(args.defaults):], args.defaults))
                    a = dflt.get(name)
                    if a is None:
                        return UNKNOWN
                    r = join(r, self.of(f, a, None, depth + 1))
                    continue
                r = join(r, self.of(g, a, c, depth + 1))
            return r
        finally:
            self._visiting.discard(key)

    def returns(self, q, caller=None, call=None, depth=0):
        ctx = self.ctx
        if q in self._visiting:
            return None
        g = ctx.m.funcs[q]
        self._visiting.add(q)
        frame = {}
        if caller is not None and call is not None:
            k_ = ctx.r.resolve_call(caller, call)[0]
            for pn in g.params:
                a = ctx.e._actual(call, k_, g, pn)
                if a is not None:
                    frame[pn] = self.of(caller, a, call, depth + 1)
        self._pctx.append((q, frame))
        try:
            r = None
            for rt in (n for n in ctx.m.walk_own(g.node) if isinstance(n, ast.Return) and n.value is not None):
                v = rt.value
                if isinstance(v, ast.Tuple):
                    for x in v.elts:
                        if ctx.r.expr_builtin(g, x) in ("str", "list", None):
                            r = join(r, self.of(g, x, rt, depth + 1))
                else:
                    r = join(r, self.of(g, v, rt, depth + 1))
            return r
        finally:
            self._visiting.discard(q)
            self._pctx.pop()

    def _frame(self, caller, call, kind, g, depth):
        """case of each actual argument of `call`, for the callee's parameters"""
        frame = {}
        for pn in g.params:
            a = self.ctx.e._actual(call, kind, g, pn)
            if a is not None:
                frame[pn] = self.of(caller, a, call, depth + 1)
        return frame

    # ---------------------------------------------------------------- fields
    def _related(self, a, b):
        """Do class sets a and b share a class or an inheritance line?"""
        m = self.ctx.m
        for x in a:
            for y in b:
                if x == y or x in m.mro(y) or y in m.mro(x):
                    return True
        return False

    def field(self, attr, depth=0, owner=None):
        """case of the string values stored in `.attr` (of objects of the owner
        classes, when known) anywhere in the package"""
        fkey = (attr, frozenset(owner) if owner else None)
        if fkey in self._field:
            return self._field[fkey]
        self._field[fkey] = None
        ctx = self.ctx
        r = None
        n = 0
        attr_key = fkey
        for f, st, t, val in self.ix_attr_assign.get(attr, ()):
            if val is None or (isinstance(val, ast.Constant) and val.value is None):
                continue
            rc = ctx.r.expr_classes(f, t.value)
            if owner and rc and not self._related(owner, rc):
                continue
            n += 1
            r = join(r, self.of(f, val, val, depth + 1))
        # dataclass fields are set through the constructor: one level of call sites
        for c in ctx.m.classes.values():
            if owner and not self._related(owner, {c.qual}):
                continue
            if attr in c.fields and c.fields[attr].assigns and all(q is None for q, _, _ in c.fields[attr].assigns):
                names = [st.target.id for st in c.node.body if isinstance(st, ast.AnnAssign) and isinstance(st.target, ast.Name)]
                if attr in names:
                    idx = names.index(attr)
                    for g in ctx.m.funcs.values():
                        for call in (x for x in ast.walk(g.node) if isinstance(x, ast.Call) and isinstance(x.func, ast.Name) and x.func.id == c.name):
                            if ctx.m.enclosing_func(call) is not g:
                                continue
                            a = call.args[idx] if idx < len(call.args) else next((kw.value for kw in call.keywords if kw.arg == attr), None)
                            if a is not None:
                                n += 1
                                r = join(r, self.of(g, a, call, depth + 1))
        res = r if n else UNKNOWN
        self._field[attr_key] = res if res is not None else UNKNOWN
        return self._field[attr_key]

    def is_dict(self, f, e):
        """Is the container expression a dict (iteration yields keys)?"""
        ctx = self.ctx
        if isinstance(e, (ast.Dict, ast.DictComp)):
            return True
        name = e.attr if isinstance(e, ast.Attribute) else (e.id if isinstance(e, ast.Name) else None)
        if name is None:
            return False
        if name in ("obj_tree", "global_dict", "rename_map", "pp_defs", "workspace", "use_dict"):
            pass
        if isinstance(e, ast.Attribute):
            for g, st, t, val in self.ix_attr_assign.get(name, ()):
                if isinstance(val, (ast.Dict, ast.DictComp)):
                    return True
                if isinstance(st, ast.AnnAssign) and "dict" in ast.unparse(st.annotation).lower():
                    return True
            for g, st, t, val in self.ix_attr_sub.get(name, ()):
                if not isinstance(t.slice, ast.Slice) and not (isinstance(t.slice, ast.Constant) and isinstance(t.slice.value, int)):
                    b = ctx.r.benv(g).get(t.slice.id) if isinstance(t.slice, ast.Name) else None
                    if b != "int":
                        return True
        else:
            owner = f
            while owner is not None:
                for st, t, val in self.ix_name_assign.get((owner.qual, name), ()):
                    if isinstance(val, (ast.Dict, ast.DictComp)):
                        return True
                    if isinstance(st, ast.AnnAssign) and "dict" in ast.unparse(st.annotation).lower():
                        return True
                for st, t, val in self.ix_name_sub.get((owner.qual, name), ()):
                    if not isinstance(t.slice, ast.Slice) and not (isinstance(t.slice, ast.Constant) and isinstance(t.slice.value, int)):
                        b = ctx.r.benv(owner).get(t.slice.id) if isinstance(t.slice, ast.Name) else None
                        if b != "int":
                            return True
                owner = ctx.m.funcs.get(owner.parent) if owner.parent else None
        if isinstance(e, ast.Name) and e.id in f.params:
            for a in f.node.args.args + f.node.args.kwonlyargs:
                if a.arg == e.id and a.annotation is not None and "dict" in ast.unparse(a.annotation).lower():
                    return True
            return e.id in ("obj_tree", "use_dict", "rename_map", "pp_defs", "workspace")
        return False

    def container(self, f, e, at, which="value", depth=0):
        """case of the keys/elements of a container expression; which='iter'
        means what iteration yields (keys of a dict, elements otherwise)"""
        ctx = self.ctx
        if depth > 32:
            return UNKNOWN
        if which == "iter":
            which = "key" if self.is_dict(f, e) else "value"
        if isinstance(e, ast.Call) and isinstance(e.func, ast.Attribute) and e.func.attr in ("keys", "values", "items", "copy"):
            w = {"keys": "key", "values": "value"}.get(e.func.attr, which)
            return self.container(f, e.func.value, at, w, depth + 1)
        if isinstance(e, ast.Call) and isinstance(e.func, ast.Name) and e.func.id in ("set", "list", "sorted", "tuple", "reversed", "iter", "dict", "deque") and not e.args and not e.keywords:
            return NEUTRAL  # empty container
        if isinstance(e, ast.Constant) and e.value is None:
            return NEUTRAL
        if isinstance(e, ast.Call) and isinstance(e.func, ast.Name) and e.func.id in ("set", "list", "sorted", "tuple", "reversed", "iter") and e.args:
            return self.container(f, e.args[0], at, which, depth + 1)
        if isinstance(e, ast.Dict):
            r = NEUTRAL
            for k_, v in zip(e.keys, e.values):
                r = join(r, self.of(f, k_ if which == "key" else v, at, depth + 1))
            return r
        if isinstance(e, (ast.List, ast.Set, ast.Tuple)):
            r = NEUTRAL
            for x in e.elts:
                r = join(r, self.of(f, x, at, depth + 1))
            return r
        if isinstance(e, (ast.ListComp, ast.SetComp, ast.GeneratorExp)):
            return self._comp(f, e, e.elt, depth + 1)
        if isinstance(e, ast.DictComp):
            return self._comp(f, e, e.key if which == "key" else e.value, depth + 1)
        if isinstance(e, ast.Attribute):
            return self._attr_container(e.attr, which, depth + 1)
        if isinstance(e, ast.Name):
            # local container: stores into it, or what it is bound to
            key = ("cont", f.qual, e.id, which)
            if key in self._visiting:
                return None
            self._visiting.add(key)
            try:
                r = None
                owner = f
                found = False
                while owner is not None and not found:
                    for st, t, val in self.ix_name_assign.get((owner.qual, e.id), ()):
                        found = True
                        if isinstance(t, (ast.Tuple, ast.List)):
                            for i_, x in enumerate(t.elts):
                                if isinstance(x, ast.Name) and x.id == e.id:
                                    r = join(r, self._tuple_container(owner, val, i_, st, which, depth + 1))
                        elif val is not None:
                            r = join(r, self.container(owner, val, st, which, depth + 1))
                    for st, t, val in self.ix_name_sub.get((owner.qual, e.id), ()):
                        found = True
                        r = join(r, self.of(owner, t.slice if which == "key" else val, st, depth + 1))
                    for g_, st in self.ix_name_call.get((owner.qual, e.id), ()):
                        found = True
                        a = st.args[-1]
                        r = join(r, self.container(owner, a, st, which, depth + 1) if st.func.attr in ("extend", "update") else self.of(owner, a, st, depth + 1))
                    if e.id in owner.params:
                        found = True
                        if e.id in ("obj_tree",):
                            r = join(r, self._attr_container("obj_tree", which, depth + 1))
                        else:
                            pc = self.param_container(owner, e.id, which, depth + 1)
                            r = join(r, pc)
                    owner = ctx.m.funcs.get(owner.parent) if owner.parent else None
                if not found:
                    return UNKNOWN
                return r if r is not None else NEUTRAL
            finally:
                self._visiting.discard(key)
        if isinstance(e, ast.Call):
            k_, tg = ctx.r.resolve_call(f, e)
            if k_ in ("nested", "module", "import", "typed", "super") and tg:
                r = None
                for t in sorted(tg)[:8]:
                    if t in self._visiting:
                        continue
                    g = ctx.m.funcs[t]
                    self._visiting.add(t)
                    self._pctx.append((t, self._frame(f, e, k_, g, depth)))
                    try:
                        for rt in (n for n in ctx.m.walk_own(g.node) if isinstance(n, ast.Return) and n.value is not None):
                            r = join(r, self.container(g, rt.value, rt, which, depth + 1))
                    finally:
                        self._visiting.discard(t)
                        self._pctx.pop()
                return r if r is not None else UNKNOWN
            if isinstance(e.func, ast.Attribute) and e.func.attr in ("split", "rsplit", "findall", "splitlines"):
                if e.func.attr == "split" and e.args and (ctx.p.fregex_ref(f.rel, e.func.value) or ctx.r.expr_builtin(f, e.func.value) == "pattern"):
                    return self.of(f, e.args[0], at, depth + 1)
                return self.of(f, e.func.value, at, depth + 1) if e.func.attr != "findall" else RAW
            return UNKNOWN
        if isinstance(e, ast.Subscript):
            return self.container(f, e.value, at, which, depth + 1)
        if isinstance(e, ast.BinOp):
            return join(self.container(f, e.left, at, which, depth + 1), self.container(f, e.right, at, which, depth + 1))
        if isinstance(e, ast.IfExp):
            return join(self.container(f, e.body, at, which, depth + 1), self.container(f, e.orelse, at, which, depth + 1))
        return UNKNOWN

    def _tuple_container(self, f, value, i, at, which, depth):
        ctx = self.ctx
        if isinstance(value, (ast.Tuple, ast.List)) and i < len(value.elts):
            return self.container(f, value.elts[i], at, which, depth + 1)
        if isinstance(value, ast.Call):
            k_, tg = ctx.r.resolve_call(f, value)
            if k_ in ("nested", "module", "import", "typed") and tg:
                r = None
                for t in tg:
                    if t in self._visiting:
                        continue
                    g = ctx.m.funcs[t]
                    self._visiting.add(t)
                    self._pctx.append((t, self._frame(f, value, k_, g, depth)))
                    try:
                        for rt in (n for n in ctx.m.walk_own(g.node) if isinstance(n, ast.Return) and isinstance(n.value, ast.Tuple) and i < len(n.value.elts)):
                            r = join(r, self.container(g, rt.value.elts[i], rt, which, depth + 1))
                    finally:
                        self._visiting.discard(t)
                        self._pctx.pop()
                return r if r is not None else UNKNOWN
        return UNKNOWN

    def param_container(self, f, name, which, depth):
        ctx = self.ctx
        key = ("pcont", f.qual, name, which)
        if key in self._visiting or depth > 32:
            return None
        callers = [(g, c, k) for g, c, k in ctx.r.callers(f.qual, by_name=False) if not g.rel.endswith("debug.py")]
        if not callers:
            callers = [(g, c, k) for g, c, k in ctx.r.callers(f.qual, by_name=True) if not g.rel.endswith("debug.py")]
        if not callers:
            return UNKNOWN
        self._visiting.add(key)
        try:
            r = None
            for g, c, k in callers:
                a = ctx.e._actual(c, k, f, name)
                if a is None:
                    continue  # default value (None / empty container)
                r = join(r, self.container(g, a, c, which, depth + 1))
            return r if r is not None else NEUTRAL
        finally:
            self._visiting.discard(key)

    def _attr_container(self, attr, which, depth):
        """keys/elements stored into a container field anywhere in the package"""
        key = (attr, which)
        if key in self._cont:
            return self._cont[key]
        self._cont[key] = None
        ctx = self.ctx
        r = None
        n = 0
        for f, st, t, val in self.ix_attr_assign.get(attr, ()):
            if val is None or isinstance(val, ast.Constant):
                continue
            if isinstance(val, (ast.Dict, ast.List, ast.Set)) and not (val.keys if isinstance(val, ast.Dict) else val.elts):
                continue
            n += 1
            r = join(r, self.container(f, val, st, which, depth + 1))
        for f, st, t, val in self.ix_attr_sub.get(attr, ()):
            n += 1
            r = join(r, self.of(f, t.slice if which == "key" else val, st, depth + 1))
        for f, st in self.ix_attr_call.get(attr, ()):
            n += 1
            a = st.args[-1]
            r = join(r, self.container(f, a, st, which, depth + 1) if st.func.attr in ("extend", "update") else self.of(f, a, st, depth + 1))
        # container fields of dataclasses are filled through the constructor
        for c in ctx.m.classes.values():
            if attr in c.fields and c.fields[attr].assigns and all(q is None for q, _, _ in c.fields[attr].assigns):
                names = [st.target.id for st in c.node.body if isinstance(st, ast.AnnAssign) and isinstance(st.target, ast.Name)]
                if attr not in names:
                    continue
                idx = names.index(attr)
                for g in ctx.m.funcs.values():
                    if g.rel.endswith("debug.py"):
                        continue
                    for call in (x for x in ast.walk(g.node) if isinstance(x, ast.Call) and isinstance(x.func, ast.Name) and x.func.id == c.name):
                        if ctx.m.enclosing_func(call) is not g:
                            continue
                        a = call.args[idx] if idx < len(call.args) else next((kw.value for kw in call.keywords if kw.arg == attr), None)
                        if a is None or isinstance(a, ast.Constant):
                            continue
                        if isinstance(a, (ast.List, ast.Set, ast.Dict)) and not (a.keys if isinstance(a, ast.Dict) else a.elts):
                            continue
                        n += 1
                        r = join(r, self.container(g, a, call, which, depth + 1))
        res = (r if r is not None else NEUTRAL) if n else UNKNOWN
        self._cont[key] = res
        return res
