"""C10 — after saving, answers depend only on the files, not on the edit history
(DESIGN.md 3/C10): which state can survive re-indexing at all."""
from __future__ import annotations

import ast

from sa.model import AnalysisError, access_path, unparse

from .shared import calls_in, defs_of, dispatch_table, key, loc, server_class

SYNC = {"initialize", "textDocument/didOpen", "textDocument/didSave", "textDocument/didClose", "textDocument/didChange", "exit", "initialized", "shutdown", "workspace/didChangeWatchedFiles", "workspace/didChangeConfiguration"}
LOOKUPS = {"find_in_scope", "climb_type_tree", "find_in_workspace"}


def query_entries(ctx):
    out = {}
    for m, tg in dispatch_table(ctx).items():
        if m in SYNC:
            continue
        for q in tg:
            if ctx.m.funcs[q].cls:
                out.setdefault(q, []).append(m)
    sc = server_class(ctx)
    gd = sc.methods.get("get_diagnostics")
    if gd:
        out.setdefault(gd, []).append("(diagnostics)")
    return out


def r1(ctx, R, rule="C10.R1", entries=None):
    if rule == "C10.R1":
        R.rule("C10.R1", "read-only requests (and computing diagnostics) write no persistent state of the server, the files, the ASTs or the entities", floor=2, confirmed=12)
    summ = ctx.e.summaries()
    entries = entries or query_entries(ctx)
    if rule == "C10.R1" and len(entries) < 8:
        raise AnalysisError(f"only {len(entries)} read-only entry points found (expected the request handlers of the dispatch table)")
    R.notes.append(f"{rule}: {len(entries)} read-only entry points analysed: " + ", ".join(sorted(q.split(':')[1] for q in entries)))
    seen = {}
    for q, methods in sorted(entries.items()):
        f = ctx.m.funcs[q]
        ws = summ.get(q, {})
        bad = {}
        for (root, path, kind), w in ws.items():
            if root != "self" and not root.startswith("global:"):
                continue
            comps = path.split(".") if path else []
            # messages queued for the client are not index state
            if comps and comps[0] in ("post_messages",):
                continue
            bad.setdefault((w.func, id(w.node)), (w, root, path, kind))
        if not bad:
            R.ok(rule, f.short, "transitive write set", loc(f, f.node), f"{len(ws)} summarised writes, none to persistent state ({', '.join(methods)})")
            continue
        for (wf, _), (w, root, path, kind) in sorted(bad.items(), key=lambda x: x[0][0]):
            g = ctx.m.funcs[wf]
            st = w.node if isinstance(w.node, ast.stmt) else ctx.m.enclosing_stmt(w.node)
            k = key(g, st)
            chain = " <- ".join(f"{v[0].split(':')[1]}:{v[1]}" for v in reversed(w.via[:4]))
            seen.setdefault((g.short, k), []).append((f, methods, w, root, path, kind, chain))
    for (gshort, k), lst in sorted(seen.items()):
        f, methods, w, root, path, kind, chain = lst[0]
        g = ctx.m.funcs[w.func]
        reqs = sorted({m for x in lst for m in x[1]})
        R.violation(rule, gshort, k[:100], loc(g, w.node), f"reached while answering {', '.join(reqs[:4])}{' ...' if len(reqs) > 4 else ''} and writes `{path.split('.')[-1] or root}` ({kind}) of a persistent object (e.g. {chain}): the next answer depends on which requests were made before")


def relink_entry(ctx):
    """FortranAST.resolve_links: the method calling resolve_inherit and resolve_link"""
    for f in ctx.m.funcs.values():
        names = {c.func.attr for c in calls_in(f.node) if isinstance(c.func, ast.Attribute)}
        if {"resolve_inherit", "resolve_link"} <= names and f.cls:
            return f
    raise AnalysisError("re-link entry (calls resolve_inherit and resolve_link) not found")


def must_assign(ctx, q, _stack=()):
    """self-fields assigned on every normal path through method q"""
    cache = ctx.__dict__.setdefault("_must_assign", {})
    if q in cache:
        return cache[q]
    if q in _stack:
        return set()
    f = ctx.m.funcs[q]
    if not f.cls or not f.params:
        cache[q] = set()
        return cache[q]
    selfn = f.params[0]
    cfg = ctx.cfg(f)

    def assigned(n):
        out = set()
        a = n.ast
        if a is None or n.kind not in ("stmt", "test"):
            return out
        for x in ast.walk(a):
            if isinstance(x, (ast.Assign, ast.AnnAssign)):
                tg = x.targets if isinstance(x, ast.Assign) else [x.target]
                for t in tg:
                    for y in ([t] if not isinstance(t, (ast.Tuple, ast.List)) else t.elts):
                        if isinstance(y, ast.Attribute) and isinstance(y.value, ast.Name) and y.value.id == selfn:
                            out.add(y.attr)
            elif isinstance(x, ast.Call) and isinstance(x.func, ast.Attribute) and isinstance(x.func.value, ast.Name) and x.func.value.id == selfn:
                k, tg = ctx.r.resolve_call(f, x)
                if k in ("typed", "super") and tg:
                    common = None
                    for t in tg:
                        if ctx.m.funcs[t].cls in ctx.m.mro(f.cls) or f.cls in ctx.m.mro(ctx.m.funcs[t].cls):
                            s_ = must_assign(ctx, t, _stack + (q,))
                            common = s_ if common is None else common & s_
                    out |= common or set()
        return out

    # forward must analysis
    IN = {cfg.entry.id: frozenset()}
    from collections import deque

    wl = deque([cfg.entry.id])
    gen = {n.id: frozenset(assigned(n)) for n in cfg.nodes}
    while wl:
        i = wl.popleft()
        out = IN[i] | gen[i]
        for t, lab in cfg.nodes[i].succs:
            if lab and lab[0] == "exc":
                continue
            new = out if t not in IN else IN[t] & out
            if t not in IN or new != IN[t]:
                IN[t] = new
                wl.append(t)
    res = set(IN.get(cfg.exit.id, frozenset()))
    if not _stack:
        cache[q] = res
    return res


def r2(ctx, R):
    R.rule("C10.R2", "cross-file links are recomputed by every re-link: a resolver that looks a name up (re)assigns the link on every path, and no link is cached outside the resolvers", floor=6, confirmed=10)
    from .c20 import LinkFields

    LF = LinkFields(ctx)
    entry = relink_entry(ctx)
    resolvers = ctx.r.reachable({entry.qual}, by_name=True)
    fobj = ctx.m.cname.get("FortranObj")
    cone = ctx.m.cone(fobj)
    # link-valued fields of entities: name-resolved fields + containers filled from them
    link_fields = {}
    for f in ctx.m.funcs.values():
        if f.rel.endswith("debug.py") or not f.cls or f.cls not in cone:
            continue
        selfn = f.params[0] if f.params else None
        for st in ctx.m.walk_own(f.node):
            tgt = val = None
            if isinstance(st, ast.Assign) and isinstance(st.targets[0], ast.Attribute):
                tgt, val = st.targets[0], st.value
            elif isinstance(st, ast.Call) and isinstance(st.func, ast.Attribute) and st.func.attr in ("append", "extend") and isinstance(st.func.value, ast.Attribute) and st.args:
                tgt, val = st.func.value, st.args[0]
            if tgt is None or not (isinstance(tgt.value, ast.Name) and tgt.value.id == selfn):
                continue
            if isinstance(val, ast.Constant) or (isinstance(val, (ast.List, ast.Dict, ast.Set)) and not getattr(val, "elts", getattr(val, "keys", []))):
                continue
            why = LF._is_lookup(f, val)
            if why is None:
                from .c20 import classify_expr

                c = classify_expr(ctx, LF, f, val)
                if c[0] == "LINK":
                    why = f"derived from link `{c[1]}`"
            if why:
                link_fields.setdefault((f.cls, tgt.attr), []).append((f, st, why))
    R.notes.append("C10.R2: link-valued entity fields: " + ", ".join(sorted(f"{c.split(':')[1]}.{a}" for c, a in link_fields)))
    # (a) every such field must be written by a resolver at all
    for (cls, fld), sites in sorted(link_fields.items()):
        in_resolver = [s for s in sites if s[0].qual in resolvers]
        outside = [s for s in sites if s[0].qual not in resolvers]
        for f, st, why in outside:
            k = key(f, st if isinstance(st, ast.stmt) else ctx.m.enclosing_stmt(st))
            # a store outside the re-link path is a cache filled on demand
            reset = any(fld in must_assign(ctx, q) for q in resolvers if ctx.m.funcs[q].cls and (ctx.m.funcs[q].cls == cls or cls in ctx.m.mro(ctx.m.funcs[q].cls) or ctx.m.funcs[q].cls in ctx.m.mro(cls)))
            if reset:
                R.ok("C10.R2", f.short, k, loc(f, st), f"cached link ({why}) is reset by the re-link")
            else:
                R.violation("C10.R2", f.short, k, loc(f, st), f"`{fld}` caches a name-resolved object ({why}) outside the re-link path and no resolver resets it: after the target's file is edited and saved the old object is still used")
    # (b) in the resolvers: a link that is only assigned when the look-up succeeds
    # must have been reset before the look-up (otherwise the old object survives)
    def lookup_nodes(f, cfg):
        out = []
        for n in cfg.nodes:
            a = n.ast
            if a is None or n.kind not in ("stmt", "test"):
                continue
            for x in ast.walk(a):
                if isinstance(x, ast.Call):
                    nm = x.func.id if isinstance(x.func, ast.Name) else (x.func.attr if isinstance(x.func, ast.Attribute) else "")
                    if nm in LOOKUPS:
                        out.append(n)
                        break
                p_ = access_path(x.value) if isinstance(x, ast.Subscript) else (access_path(x.comparators[0]) if isinstance(x, ast.Compare) and isinstance(x.ops[0], (ast.In, ast.NotIn)) else None)
                if p_ and p_.split(".")[-1] == "obj_tree":
                    out.append(n)
                    break
        return out

    link_names = {fld for (cls, fld) in link_fields}
    for q in sorted(resolvers):
        f = ctx.m.funcs[q]
        if f.rel.endswith("debug.py") or not f.name.startswith(("resolve", "_resolve")):
            continue
        cfg = ctx.cfg(f)
        dom = cfg.dominators(follow_exc=False)
        looks = lookup_nodes(f, cfg)
        if not looks:
            continue
        # stores of link fields in this function, grouped by (receiver text, field); a receiver
        # that is a local bound once to an access path (`v = assoc.var` of an inlined helper)
        # is that path
        def canon(e):
            if isinstance(e, ast.Name) and e.id not in f.params:
                ds = [v for _, v in defs_of(ctx, f, e.id)]
                if len(ds) == 1 and ds[0] is not None and access_path(ds[0]) and isinstance(ds[0], (ast.Name, ast.Attribute)):
                    return unparse(ds[0])
            return unparse(e)

        groups = {}
        for n in cfg.nodes:
            a = n.ast
            if n.kind != "stmt" or a is None:
                continue
            for x in ast.walk(a):
                if isinstance(x, ast.Assign):
                    for t in x.targets:
                        if isinstance(t, ast.Attribute) and t.attr in link_names:
                            groups.setdefault((canon(t.value), t.attr), []).append((n, x))
                elif isinstance(x, ast.Call) and isinstance(x.func, ast.Attribute):
                    # self.m() that assigns the field on every path
                    if isinstance(x.func.value, ast.Name) and f.params and x.func.value.id == f.params[0]:
                        k_, tg = ctx.r.resolve_call(f, x)
                        if k_ in ("typed", "super") and tg:
                            for fld in link_names:
                                if all(fld in must_assign(ctx, t) for t in tg):
                                    groups.setdefault((f.params[0], fld), []).append((n, x))
        # containers of links that are filled by append: a reset must come first
        for n in cfg.nodes:
            a = n.ast
            if n.kind != "stmt" or a is None:
                continue
            for x in ast.walk(a):
                if isinstance(x, ast.Call) and isinstance(x.func, ast.Attribute) and x.func.attr in ("append", "extend", "add") and isinstance(x.func.value, ast.Attribute) and x.func.value.attr in link_names:
                    recv, fld = unparse(x.func.value.value), x.func.value.attr
                    resets = {m.id for m, y in groups.get((recv, fld), []) if isinstance(y, ast.Assign)}
                    k = f"{recv}.{fld} emptied before it is refilled"
                    if any(r_ in dom.get(n.id, set()) for r_ in resets):
                        R.ok("C10.R2", f.short, k, loc(f, x))
                    else:
                        R.violation("C10.R2", f.short, k, loc(f, x), f"`{recv}.{fld}` is appended to on every re-link without being emptied first: entries resolved from earlier versions of other files pile up and survive")
        for (recv, fld), stores in sorted(groups.items()):
            real = [x for n, x in stores if isinstance(x, ast.Assign) and not isinstance(x.value, ast.Constant) and not (isinstance(x.value, (ast.List, ast.Dict)) and not getattr(x.value, "elts", getattr(x.value, "keys", [])))] + [x for n, x in stores if isinstance(x, ast.Call)]
            if not real:
                continue
            assigners = {n.id for n, x in stores}
            k = f"{recv}.{fld} re-assigned on every path after a look-up"
            bad = None
            for L in looks:
                # only look-ups that feed this link (same loop body / function)
                if any(a_ in dom.get(L.id, set()) for a_ in assigners):
                    continue
                # innermost loop around L: the next iteration counts as an exit
                stops = {cfg.exit.id}
                lp = ctx.m.parent.get(L.ast if isinstance(L.ast, ast.stmt) else ctx.m.enclosing_stmt(L.ast))
                node_ast = L.ast if isinstance(L.ast, ast.stmt) else ctx.m.enclosing_stmt(L.ast)
                cur = ctx.m.parent.get(node_ast)
                while cur is not None and not isinstance(cur, (ast.For, ast.While, ast.FunctionDef)):
                    cur = ctx.m.parent.get(cur)
                if isinstance(cur, (ast.For, ast.While)):
                    hn = next((n for n in cfg.nodes if n.ast is cur and n.kind in ("for", "loophead")), None)
                    if hn is not None:
                        stops.add(hn.id)
                    # stores must be inside that loop too
                    if not any(any(y is x for y in ast.walk(cur)) for n, x in stores):
                        continue
                seen_ = cfg.reachable_without([t for t, lab in L.succs if not (lab and lab[0] == "exc")], assigners, follow_exc=False)
                if stops & seen_:
                    bad = L
                    break
            if bad is None:
                R.ok("C10.R2", f.short, k, loc(f, real[0]))
            else:
                R.violation("C10.R2", f.short, k, loc(f, bad.ast), f"after the look-up on line {getattr(bad.ast, 'lineno', 0)} a path ends without assigning `{recv}.{fld}` and the field was not reset before: when the name no longer resolves (target renamed or deleted in another file) the old object stays linked, unlike on a freshly started server")


def r3(ctx, R):
    R.rule("C10.R3", "re-indexing a file removes the old version's top-level entries before adding the new ones; a failed parse leaves index and AST untouched", floor=3, confirmed=4)
    sc = server_class(ctx)
    upd = None
    for q in sc.methods.values():
        f = ctx.m.funcs[q]
        if any(isinstance(c.func, ast.Attribute) and c.func.attr == "parse" for c in calls_in(f.node)) and any("obj_tree" in unparse(st) for st in ctx.m.walk_own(f.node) if isinstance(st, ast.Assign)) and f.cls and not any(isinstance(d, ast.Name) and d.id == "staticmethod" for d in f.node.decorator_list):
            upd = f
    if upd is None:
        raise AnalysisError("in-process re-index routine not found")
    f = upd
    cfg = ctx.cfg(f)
    dom = cfg.dominators(follow_exc=False)
    pops = [c for c in calls_in(f.node) if isinstance(c.func, ast.Attribute) and c.func.attr in ("pop",) and access_path(c.func.value) and access_path(c.func.value).endswith("obj_tree")]
    dels = [st for st in ctx.m.walk_own(f.node) if isinstance(st, ast.Delete) and any("obj_tree" in unparse(t) for t in st.targets)]
    adds = [st for st in ctx.m.walk_own(f.node) if isinstance(st, ast.Assign) and isinstance(st.targets[0], ast.Subscript) and access_path(st.targets[0].value) and access_path(st.targets[0].value).endswith("obj_tree")]
    summ = ctx.e.summaries()
    # points where the file's AST field is (re)installed: a direct store of something that is not a
    # freshly built empty AST, or a call whose callee writes the receiver's / an argument's `.ast`
    installs = []
    for st in ctx.m.walk_own(f.node):
        if isinstance(st, ast.Assign) and isinstance(st.targets[0], ast.Attribute) and st.targets[0].attr == "ast" and not isinstance(st.value, ast.Call):
            installs.append((st, "direct store"))
    for c in calls_in(f.node):
        for q in ctx.r.resolve_call(f, c)[1]:
            for (root, path, kind) in summ.get(q, {}):
                first = path[0] if isinstance(path, tuple) and path else path
                if first == "ast" and (root == "self" or root.startswith("param:")) and kind == "assign" and isinstance(c.func, ast.Attribute):
                    installs.append((c, f"{ctx.m.funcs[q].short} stores {root}.ast"))
    ast_set = [st for st, how in installs if how == "direct store"]
    if not adds or not installs:
        R.undecided("C10.R3", f.short, "re-index shape", loc(f, f.node), "add loop / AST installation not recognised")
        return
    prune = pops[0] if pops else (dels[0] if dels else None)
    if prune is None:
        R.violation("C10.R3", f.short, "old entries pruned", loc(f, adds[0]), "the previous version's top-level entries are never removed from the global table: a module that was renamed or deleted stays resolvable")
    else:
        # the prune loop iterates the OLD ast's table
        lp = ctx.m.parent.get(ctx.m.enclosing_stmt(prune))
        while lp is not None and not isinstance(lp, ast.For):
            lp = ctx.m.parent.get(lp)
        old_src = unparse(lp.iter) if lp is not None else ""
        iter_root = old_src.split(".")[0]
        # where the old AST is read: the definitions of the loop's root variable that read `.ast`, else the loop itself
        from .shared import reaching_def_nodes

        reads = []
        if lp is not None:
            for d in reaching_def_nodes(ctx, f, lp, iter_root):
                if isinstance(d, ast.Assign) and any(isinstance(x, ast.Attribute) and x.attr == "ast" for x in ast.walk(d.value)):
                    reads.append(d)
            if not reads and ".ast" in old_src:
                reads = [lp]
        new_names = {unparse(st.value) for st in ast_set}
        for c, how in installs:
            if how != "direct store":
                st = ctx.m.enclosing_stmt(c)
                if isinstance(st, ast.Assign) and isinstance(st.targets[0], ast.Name):
                    new_names.add(st.targets[0].id)
        uses_new = iter_root in new_names
        late = None
        for rd in reads:
            rn = cfg.node_of(rd)
            for st, how in installs:
                n_i = cfg.node_of(st)
                if n_i is None or rn is None:
                    continue
                succ = {t for t, lab in n_i.succs if not (lab and lab[0] == "exc")}
                if rn.id in cfg.reachable_without(succ, set(), follow_exc=False):
                    late = (rd, st, how)
        pn = cfg.node_of(prune)
        add_first = None
        for ad in adds:
            an = cfg.node_of(ad)
            if an is not None and pn is not None and pn.id in cfg.reachable_without({t for t, lab in an.succs if not (lab and lab[0] == "exc")}, set(), follow_exc=False) and not any(x is ad for x in ast.walk(lp or prune)):
                add_first = ad
        # the prune runs whenever an old version exists: a condition on how the routine was called
        # (its parameters) lets one of the re-index paths install the new AST without pruning
        cond_params = []
        if lp is not None:
            F3 = ctx.facts(f, interproc=False)
            for fa in (F3.at(lp.iter) or F3.at(lp.body[0]) or set()):
                if fa[0] in ("cond", "truthy", "falsy"):
                    txt = fa[1]
                    try:
                        names = {n.id for n in ast.walk(ast.parse(txt, mode="eval")) if isinstance(n, ast.Name)}
                    except SyntaxError:
                        names = set()
                    hit = sorted(n for n in names if n in f.params and n != (f.params[0] if f.cls else None))
                    if hit:
                        cond_params.append((txt if fa[0] != "falsy" and (len(fa) < 3 or fa[2] is not False) else f"not ({txt})", hit))
        if cond_params:
            txt, hit = cond_params[0]
            R.violation("C10.R3", f.short, key(f, lp) + " :: unconditional", loc(f, lp), f"the previous version's entries are pruned only under `{txt}` (parameter {', '.join(hit)}): on the other re-index path the new AST is installed while names that the old version exported stay in the global table and keep pointing into the old tree")
        if uses_new:
            R.violation("C10.R3", f.short, key(f, lp), loc(f, lp), f"the prune loop walks the *new* AST's entries ({old_src}): names that only the old version defined are never removed")
        elif not reads:
            R.undecided("C10.R3", f.short, key(f, lp) if lp is not None else "prune", loc(f, prune), f"source of the pruned table not recognised ({old_src})")
        elif late:
            R.violation("C10.R3", f.short, key(f, late[0]), loc(f, late[0]), f"the 'old' AST is read after the new one can already be installed ({late[2]}, line {late[1].lineno}): the prune loop walks the new version's names, so top-level units that were renamed or removed stay in the global table")
        elif add_first is not None:
            R.violation("C10.R3", f.short, key(f, ctx.m.enclosing_stmt(prune)), loc(f, prune), "old entries are pruned after the new entries have been added: entries just added are removed again")
        else:
            R.ok("C10.R3", f.short, key(f, lp) if lp is not None else "prune", loc(f, prune), f"prunes {old_src} (read before any installation of the new AST: {sorted({h for _, h in installs})})")
    first_touch = min([st.lineno for st, _ in installs if not isinstance(st, ast.Call)] + [adds[0].lineno])
    # failed parse: the except path returns before any of prune / install / add
    handlers = [h for n in ctx.m.walk_own(f.node) if isinstance(n, ast.Try) for h in n.handlers]
    ok = bool(handlers) and all(any(isinstance(x, ast.Return) for s_ in h.body for x in ast.walk(s_)) for h in handlers) and all(h.lineno < first_touch for h in handlers)
    if ok:
        R.ok("C10.R3", f.short, "a failed parse returns before the index is touched", loc(f, handlers[0]))
    else:
        R.violation("C10.R3", f.short, "a failed parse returns before the index is touched", loc(f, f.node), "a parse failure does not leave AST and global table as they were")
    # closing a deleted file prunes as well
    for q in dispatch_table(ctx).get("textDocument/didClose", ()):
        reach = ctx.r.reachable({q}, by_name=False)
        pr = False
        for t in reach:
            g = ctx.m.funcs[t]
            for c in calls_in(g.node):
                if isinstance(c.func, ast.Attribute) and c.func.attr == "pop" and access_path(c.func.value) and access_path(c.func.value).endswith("obj_tree"):
                    F = ctx.facts(g, interproc=False)
                    facts = F.at(c) or set()
                    if t == q:
                        pr = True  # the close handler prunes by itself
                        continue
                    # in a callee: under a flag parameter that the close handler passes as a true constant
                    hq = ctx.m.funcs[q]
                    flags = set()
                    for hc in calls_in(hq.node):
                        if t not in ctx.r.resolve_call(hq, hc)[1]:
                            continue
                        ps = g.params[1:] if g.cls else g.params
                        for i_, a_ in enumerate(hc.args):
                            if isinstance(a_, ast.Constant) and a_.value is True and i_ < len(ps):
                                flags.add(ps[i_])
                        for kw in hc.keywords:
                            if isinstance(kw.value, ast.Constant) and kw.value.value is True:
                                flags.add(kw.arg)
                    for fa in facts:
                        if fa[0] in ("truthy", "cond") and (len(fa) < 3 or fa[2] is not False):
                            try:
                                names = {n.id for n in ast.walk(ast.parse(fa[1], mode="eval")) if isinstance(n, ast.Name)}
                            except SyntaxError:
                                names = set()
                            if names & flags:
                                pr = True
        g = ctx.m.funcs[q]
        if pr:
            R.ok("C10.R3", g.short, "closing a deleted file removes its entries", loc(g, g.node))
        else:
            R.violation("C10.R3", g.short, "closing a deleted file removes its entries", loc(g, g.node), "a file deleted on disk and closed keeps its modules in the global table")


def r4(ctx, R):
    R.rule("C10.R4", "parsing does not write through its configuration arguments (macro table, include directories)", floor=1, confirmed=2)
    summ = ctx.e.summaries()
    from .c02 import file_class

    fc = file_class(ctx)
    n = 0
    for name in ("parse", "preprocess"):
        q = fc.methods.get(name)
        if not q:
            continue
        f = ctx.m.funcs[q]
        for (root, path, kind), w in sorted(summ.get(q, {}).items()):
            if root in ("param:pp_defs", "param:include_dirs"):
                g = ctx.m.funcs[w.func]
                st = w.node if isinstance(w.node, ast.stmt) else ctx.m.enclosing_stmt(w.node)
                n += 1
                R.violation("C10.R4", g.short, key(g, st), loc(g, w.node), f"{f.short} mutates its `{root[6:]}` argument: in-process parsing passes the server's own option object, which therefore accumulates state from every file parsed")
        R.ok("C10.R4", f.short, "configuration arguments are only read", loc(f, f.node)) if not any(root in ("param:pp_defs", "param:include_dirs") for (root, path, kind) in summ.get(q, {})) else None


def r5(ctx, R):
    """A re-link pass may not skip work because "this is what I stored last time".
    The include file object, the linked object or the resolved parent keep their
    identity while what hangs below them was re-parsed; a guard that compares the
    value a link field held *before* this pass stores into it with the value about
    to be stored (`bound = inc.file is include_file` ... `continue`) makes the
    pass a no-op for exactly the objects that went stale."""
    R.rule("C10.R5", "no resolver skips its work on the ground that a field it is about to store already held the same object (identity/equality memo on the previous pass's value)", floor=5, confirmed=12)
    n = 0
    for f in sorted(ctx.m.funcs.values(), key=lambda g: g.qual):
        if not (f.name.startswith("resolve_") and f.rel.startswith("fortls/parsers/")):
            continue
        stores = {}  # access path -> first store statement
        for st in ctx.m.walk_own(f.node):
            if isinstance(st, (ast.Assign, ast.AnnAssign)):
                for t in st.targets if isinstance(st, ast.Assign) else [st.target]:
                    if isinstance(t, ast.Attribute):
                        p_ = access_path(t)
                        if p_ and (p_ not in stores or st.lineno < stores[p_].lineno):
                            stores[p_] = st
        n += 1
        hit = None
        for cmp_ in (x for x in ctx.m.walk_own(f.node) if isinstance(x, ast.Compare) and len(x.ops) == 1 and isinstance(x.ops[0], (ast.Is, ast.IsNot, ast.Eq, ast.NotEq))):
            sides = [cmp_.left, cmp_.comparators[0]]
            if any(isinstance(x, ast.Constant) for x in sides):
                continue  # None / literal tests are first-time initialisation, not a memo
            for a_, b_ in (sides, sides[::-1]):
                pa = access_path(a_)
                if not (isinstance(a_, ast.Attribute) and pa in stores):
                    continue
                st_store = stores[pa]
                # the read happens before this pass's store, and the other side is what gets stored
                if cmp_.lineno > st_store.lineno:
                    continue
                if unparse(b_) != unparse(st_store.value):
                    continue
                if isinstance(b_, ast.Name) and b_.id in f.params:
                    continue  # a per-pass token handed in by the caller (link version): a one-shot guard within one pass, not a memo across passes
                # does the comparison decide an early exit?
                name = None
                stc = ctx.m.enclosing_stmt(cmp_)
                if isinstance(stc, ast.Assign) and len(stc.targets) == 1 and isinstance(stc.targets[0], ast.Name):
                    name = stc.targets[0].id
                for iff in (x for x in ctx.m.walk_own(f.node) if isinstance(x, ast.If)):
                    uses = any(x is cmp_ for x in ast.walk(iff.test)) or (name is not None and any(isinstance(x, ast.Name) and x.id == name for x in ast.walk(iff.test)))
                    if not uses:
                        continue
                    exits = [x for b in (iff.body, iff.orelse) for s_ in b for x in ast.walk(s_) if isinstance(x, (ast.Continue, ast.Return, ast.Break))]
                    if exits:
                        hit = (cmp_, st_store, exits[0])
        if hit:
            cmp_, st_store, ex = hit
            R.violation("C10.R5", f.short, key(f, ctx.m.enclosing_stmt(cmp_)), loc(f, ex), f"`{unparse(cmp_)}` compares the value `{unparse(st_store.targets[0] if isinstance(st_store, ast.Assign) else st_store.target)}` held before this pass with the object about to be stored, and the pass is cut short on that ground (line {ex.lineno}): when the object is the same but what it holds was re-parsed (an INCLUDE file edited and saved, a re-indexed module), the stale entities of the previous pass stay in place - a long-lived server answers differently from a fresh one")
        else:
            R.ok("C10.R5", f.short, "no identity memo on link fields", loc(f, f.node), f"{len(stores)} field stores")
    if n == 0:
        raise AnalysisError("C10.R5: no resolver functions (resolve_*) found under fortls/parsers")



def run(ctx, R):
    r1(ctx, R)
    r2(ctx, R)
    r3(ctx, R)
    r4(ctx, R)
    r5(ctx, R)
