"""C08 — preprocessor regions and macro table (DESIGN.md 3/C08): the necessary
conditions around the conditional state machine (which itself is not decided)."""
from __future__ import annotations

import ast

from sa import rex
from sa.model import AnalysisError, unparse

from .shared import calls_in, defs_of, deref, key, loc, reaching_defs

READERS = ("parse_end_scope_word", "parse_do_fixed_format", "parse_implicit", "parse_contains", "get_fortran_definition")


def pp_func(ctx):
    return ctx.m.fn("preprocess_file")


def nested_all(ctx, f):
    return [g for g in ctx.m.funcs.values() if g.qual == f.qual or g.qual.startswith(f.qual + ".")]


# ------------------------------------------------------------------ R1
def r1(ctx, R):
    R.rule("C08.R1", "inactive and directive lines never reach a statement reader: the skip test dominates every reader call and is fed by the preprocessing pass of the same parse", floor=8, confirmed=10)
    p = ctx.m.fn("FortranFile.parse")
    F = ctx.facts(p, interproc=False)
    # which locals hold the regions / define lines
    src = None
    for st in ctx.m.walk_own(p.node):
        if isinstance(st, ast.Assign) and isinstance(st.targets[0], ast.Tuple) and len(st.targets[0].elts) == 2 and isinstance(st.value, ast.Call) and any(q.endswith(".preprocess") for q in ctx.r.resolve_call(p, st.value)[1]):
            src = st
    if src is None:
        raise AnalysisError("FortranFile.parse: call of the preprocessing pass not found")
    regions, deflines = (e.id for e in src.targets[0].elts)
    fa = F.at(src) or set()
    if any(b[0] == "cond" and b[2] is True and b[1].endswith(".preproc") for b in fa):
        R.ok("C08.R1", p.short, "preprocessing pass run iff the file is a preprocessor file", loc(p, src))
    else:
        R.violation("C08.R1", p.short, "preprocessing pass run iff the file is a preprocessor file", loc(p, src), "the preprocessing pass is not conditioned on the file's preproc flag")
    # the flag
    flag = None
    flag_sets = []
    for st in ctx.m.walk_own(p.node):
        if isinstance(st, ast.Assign) and isinstance(st.targets[0], ast.Name) and isinstance(st.value, ast.Constant) and st.value.value is True:
            conds = [b[1] for b in (F.at(st) or set()) if b[0] == "cond" and b[2] is True]
            if any(regions in c or deflines in c for c in conds) or _in_loop_over(ctx, st, regions):
                flag = st.targets[0].id
                flag_sets.append((st, conds))
    if flag is None:
        # direct form: `if line in deflines or any(r[0] <= line <= r[1] for r in regions): continue`
        direct = None
        for st in ctx.m.walk_own(p.node):
            if isinstance(st, ast.If) and st.body and isinstance(st.body[-1], ast.Continue) and not st.orelse and (regions in unparse(st.test) or deflines in unparse(st.test)):
                direct = st
        if direct is None:
            if any(isinstance(n_, ast.Name) and n_.id in (regions, deflines) and isinstance(n_.ctx, ast.Load) for n_ in ctx.m.walk_own(p.node)):
                R.undecided("C08.R1", p.short, "skip test", loc(p, src), f"{regions} / {deflines} are consulted in a form the rule does not recognise")
            else:
                R.violation("C08.R1", p.short, "skip flag", loc(p, src), f"nothing in the line loop tests the current line against {regions} / {deflines}: declarations in inactive regions are indexed")
            return
        parts = direct.test.values if isinstance(direct.test, ast.BoolOp) and isinstance(direct.test.op, ast.Or) else [direct.test]
        line_vars = set()
        seen_region = seen_def = False
        for e in parts:
            if isinstance(e, ast.Compare) and len(e.ops) == 1 and isinstance(e.ops[0], ast.In) and unparse(e.comparators[0]) == deflines:
                seen_def = True
                line_vars.add(unparse(e.left))
            if isinstance(e, ast.Call) and isinstance(e.func, ast.Name) and e.func.id == "any" and e.args and isinstance(e.args[0], (ast.GeneratorExp, ast.ListComp)):
                ge = e.args[0]
                ok_, lv_, txt_ = _region_gen(ge, regions)
                if ok_ is not None and not isinstance(ge.generators[0].target, ast.Name):
                    seen_region = True
                    if ok_:
                        line_vars.add(lv_)
                        R.ok("C08.R1", p.short, "region test lo <= line <= hi", loc(p, direct), "both ends inclusive (the directive lines themselves are skipped)")
                    else:
                        R.violation("C08.R1", p.short, "region test lo <= line <= hi", loc(p, direct), f"the test under which a line is skipped ({txt_}) is not `region[0] <= line <= region[1]`: the first or last line of an inactive region is parsed")
                    continue
                if len(ge.generators) == 1 and unparse(ge.generators[0].iter) == regions and isinstance(ge.generators[0].target, ast.Name):
                    tv = ge.generators[0].target.id
                    c = ge.elt
                    lo_ok = hi_ok = False
                    cmps = c.values if isinstance(c, ast.BoolOp) and isinstance(c.op, ast.And) else [c]
                    for cc in cmps:
                        if isinstance(cc, ast.Compare) and len(cc.ops) == 2 and all(isinstance(o, ast.LtE) for o in cc.ops) and unparse(cc.left) == f"{tv}[0]" and unparse(cc.comparators[1]) == f"{tv}[1]":
                            lo_ok = hi_ok = True
                            line_vars.add(unparse(cc.comparators[0]))
                        elif isinstance(cc, ast.Compare) and len(cc.ops) == 1:
                            l, r, op = unparse(cc.left), unparse(cc.comparators[0]), cc.ops[0]
                            if (r == f"{tv}[0]" and isinstance(op, ast.GtE)) or (l == f"{tv}[0]" and isinstance(op, ast.LtE)):
                                lo_ok = True
                                line_vars.add(l if r.startswith(tv) else r)
                            if (r == f"{tv}[1]" and isinstance(op, ast.LtE)) or (l == f"{tv}[1]" and isinstance(op, ast.GtE)):
                                hi_ok = True
                                line_vars.add(l if r.startswith(tv) else r)
                    if lo_ok and hi_ok:
                        seen_region = True
                        R.ok("C08.R1", p.short, "region test lo <= line <= hi", loc(p, direct), "both ends inclusive (the directive lines themselves are skipped)")
                    else:
                        R.violation("C08.R1", p.short, "region test lo <= line <= hi", loc(p, direct), f"the test under which a line is skipped ({unparse(c)}) is not `region[0] <= line <= region[1]`: the first or last line of an inactive region is parsed")
                        seen_region = True
        if seen_def:
            R.ok("C08.R1", p.short, "directive lines skipped", loc(p, direct))
        else:
            R.violation("C08.R1", p.short, "directive lines skipped", loc(p, src), f"#define/#undef lines ({deflines}) are handed to the statement readers")
        if not seen_region:
            R.violation("C08.R1", p.short, "region test lo <= line <= hi", loc(p, src), f"no test of the current line against the regions in {regions}")
        ttxt = unparse(direct.test)
        n = 0
        for c in calls_in(p.node):
            if ctx.m.enclosing_func(c) is not p or not (isinstance(c.func, ast.Attribute) and c.func.attr in READERS):
                continue
            n += 1
            fa = F.at(c) or set()
            k = f"{c.func.attr}(...)"
            if any(b[0] == "cond" and b[1] == ttxt and b[2] is False for b in fa):
                args = [unparse(a) for a in c.args]
                if len(c.args) >= 2 and line_vars and not (set(args) & line_vars) and c.func.attr != "get_fortran_definition":
                    R.violation("C08.R1", p.short, k, loc(p, c), f"the reader registers entities under `{args[1]}` but the skip test examined {sorted(line_vars)}")
                else:
                    R.ok("C08.R1", p.short, k, loc(p, c), "behind the skip test")
            else:
                R.violation("C08.R1", p.short, k, loc(p, c), "this statement reader can be reached without passing the skip test: lines of inactive regions are indexed")
        if n < 4:
            raise AnalysisError(f"FortranFile.parse: only {n} statement reader calls found")
        # producer side (shared with the flag form below)
        _r1_producer(ctx, R, p)
        return
    # region test: inclusive bounds on both ends, define lines by membership
    line_vars = set()
    seen_region = seen_def = False
    for st, conds in flag_sets:
        lp = _in_loop_over(ctx, st, regions)
        if lp is not None:
            tv = lp.target.id if isinstance(lp.target, ast.Name) else None
            lo = [c for c in conds if f"{tv}[0]" in c]
            hi = [c for c in conds if f"{tv}[1]" in c]
            lo_ok = hi_ok = False
            for c in conds:
                try:
                    e = ast.parse(c, mode="eval").body
                except SyntaxError:
                    continue
                if isinstance(e, ast.Compare) and len(e.ops) == 1:
                    l, r, op = unparse(e.left), unparse(e.comparators[0]), e.ops[0]
                    if (r == f"{tv}[0]" and isinstance(op, ast.GtE)) or (l == f"{tv}[0]" and isinstance(op, ast.LtE)):
                        line_vars.add(l if r.startswith(tv) else r)
                        lo_ok = True
                    if (r == f"{tv}[1]" and isinstance(op, ast.LtE)) or (l == f"{tv}[1]" and isinstance(op, ast.GtE)):
                        line_vars.add(l if r.startswith(tv) else r)
                        hi_ok = True
                elif isinstance(e, ast.Compare) and len(e.ops) == 2 and all(isinstance(o, ast.LtE) for o in e.ops) and unparse(e.left) == f"{tv}[0]" and unparse(e.comparators[1]) == f"{tv}[1]":
                    line_vars.add(unparse(e.comparators[0]))
                    lo_ok = hi_ok = True
            okb = "hi" if lo_ok and hi_ok else False
            if okb == "hi":
                seen_region = True
                R.ok("C08.R1", p.short, "region test lo <= line <= hi", loc(p, st), "both ends inclusive (the directive lines themselves are skipped)")
            else:
                R.violation("C08.R1", p.short, "region test lo <= line <= hi", loc(p, st), f"the test under which a line is skipped ({'; '.join(conds[-2:])}) is not `region[0] <= line <= region[1]`: the first or last line of an inactive region is parsed")
        elif any(f" in {deflines}" in c for c in conds):
            seen_def = True
            line_vars |= {c.split(" in ")[0] for c in conds if f" in {deflines}" in c}
            R.ok("C08.R1", p.short, "directive lines skipped", loc(p, st))
    # the flag may also be bound to the reduction itself: flag = any(lo <= line <= hi for lo, hi in regions)
    for st in ctx.m.walk_own(p.node):
        if isinstance(st, ast.Assign) and len(st.targets) == 1 and isinstance(st.targets[0], ast.Name) and st.targets[0].id == flag and isinstance(st.value, ast.Call) and isinstance(st.value.func, ast.Name) and st.value.func.id == "any" and st.value.args and isinstance(st.value.args[0], (ast.GeneratorExp, ast.ListComp)):
            ok_, lv, txt = _region_gen(st.value.args[0], regions)
            if ok_ is None:
                continue
            seen_region = True
            if ok_:
                line_vars.add(lv)
                R.ok("C08.R1", p.short, "region test lo <= line <= hi", loc(p, st), "both ends inclusive (the directive lines themselves are skipped)")
            else:
                R.violation("C08.R1", p.short, "region test lo <= line <= hi", loc(p, st), f"the test under which a line is skipped ({txt}) is not `region[0] <= line <= region[1]`: the first or last line of an inactive region is parsed")
    if not seen_region:
        R.violation("C08.R1", p.short, "region test lo <= line <= hi", loc(p, src), f"no test of the current line against the regions in {regions}")
    if not seen_def:
        R.violation("C08.R1", p.short, "directive lines skipped", loc(p, src), f"#define/#undef lines ({deflines}) are handed to the statement readers")
    # reader calls dominated by `flag` false; same line variable
    n = 0
    for c in calls_in(p.node):
        if ctx.m.enclosing_func(c) is not p or not (isinstance(c.func, ast.Attribute) and c.func.attr in READERS):
            continue
        n += 1
        fa = F.at(c) or set()
        skipped = any((b[0] == "cond" and b[1] == flag and b[2] is False) or (b[0] in ("falsy",) and b[1] == flag) for b in fa)
        k = f"{c.func.attr}(...)"
        if not skipped:
            R.violation("C08.R1", p.short, k, loc(p, c), f"this statement reader can be reached without passing `if {flag}: continue`: lines of inactive regions are indexed")
            continue
        args = [unparse(a) for a in c.args]
        if len(c.args) >= 2 and line_vars and not (set(args) & line_vars) and c.func.attr != "get_fortran_definition":
            R.violation("C08.R1", p.short, k, loc(p, c), f"the reader registers entities under `{args[1]}` but the skip test examined {sorted(line_vars)}")
        else:
            R.ok("C08.R1", p.short, k, loc(p, c), f"behind `if {flag}: continue`")
    if n < 4:
        raise AnalysisError(f"FortranFile.parse: only {n} statement-reader calls found")
    _r1_producer(ctx, R, p)


def _region_gen(ge, regions):
    """(ok, line variable, text) for `lo <= line <= hi` over `for r in regions` / `for lo, hi in regions`;
    ok None: not a generator over the regions"""
    if len(ge.generators) != 1 or unparse(ge.generators[0].iter) != regions or ge.generators[0].ifs:
        return None, None, ""
    tg = ge.generators[0].target
    if isinstance(tg, ast.Name):
        lo_t, hi_t = f"{tg.id}[0]", f"{tg.id}[1]"
    elif isinstance(tg, (ast.Tuple, ast.List)) and len(tg.elts) == 2 and all(isinstance(x, ast.Name) for x in tg.elts):
        lo_t, hi_t = tg.elts[0].id, tg.elts[1].id
    else:
        return None, None, ""
    c = ge.elt
    lo_ok = hi_ok = False
    lv = None
    cmps = c.values if isinstance(c, ast.BoolOp) and isinstance(c.op, ast.And) else [c]
    for cc in cmps:
        if isinstance(cc, ast.Compare) and len(cc.ops) == 2 and all(isinstance(o, ast.LtE) for o in cc.ops) and unparse(cc.left) == lo_t and unparse(cc.comparators[1]) == hi_t:
            lo_ok = hi_ok = True
            lv = unparse(cc.comparators[0])
        elif isinstance(cc, ast.Compare) and len(cc.ops) == 2 and all(isinstance(o, ast.GtE) for o in cc.ops) and unparse(cc.left) == hi_t and unparse(cc.comparators[1]) == lo_t:
            lo_ok = hi_ok = True
            lv = unparse(cc.comparators[0])
        elif isinstance(cc, ast.Compare) and len(cc.ops) == 1:
            l, r, op = unparse(cc.left), unparse(cc.comparators[0]), cc.ops[0]
            if (r == lo_t and isinstance(op, ast.GtE)) or (l == lo_t and isinstance(op, ast.LtE)):
                lo_ok = True
                lv = l if r == lo_t else r
            if (r == hi_t and isinstance(op, ast.LtE)) or (l == hi_t and isinstance(op, ast.GtE)):
                hi_ok = True
                lv = l if r == hi_t else r
    return (lo_ok and hi_ok), lv, unparse(c)


def _r1_producer(ctx, R, p):
    # producer side: region bounds and define lines are 1-based line numbers (i + 1 over enumerate from 0)
    f = pp_func(ctx)
    loop = next((s for s in f.node.body if isinstance(s, ast.For) and isinstance(s.iter, ast.Call) and unparse(s.iter.func) == "enumerate"), None)
    if loop is None or len(loop.iter.args) != 1 or loop.iter.keywords:
        raise AnalysisError("preprocess_file: line loop `for i, line in enumerate(lines)` not found")
    iv = loop.target.elts[0].id
    ret = next((r for r in f.node.body if isinstance(r, ast.Return) and isinstance(r.value, ast.Tuple)), None)
    if ret is None or len(ret.value.elts) != 4:
        raise AnalysisError("preprocess_file: 4-tuple return not found")
    stack_like = set()
    bad = []
    cnt = 0
    # containers of single line numbers whose popped entries become region bounds (`[starts.pop(), i + 1]`)
    scalar_stacks = set()
    for st in ast.walk(loop):
        if isinstance(st, ast.Call) and isinstance(st.func, ast.Attribute) and st.func.attr == "append" and st.args and isinstance(st.args[0], ast.List) and len(st.args[0].elts) == 2:
            for x in st.args[0].elts:
                if isinstance(x, ast.Call) and isinstance(x.func, ast.Attribute) and x.func.attr == "pop" and isinstance(x.func.value, ast.Name) and not x.args:
                    scalar_stacks.add(x.func.value.id)
    for st in ast.walk(loop):
        vals = []
        if isinstance(st, ast.Call) and isinstance(st.func, ast.Attribute) and st.func.attr == "append" and isinstance(st.func.value, ast.Name) and st.args:
            a = st.args[0]
            if isinstance(a, ast.List) and len(a.elts) == 2 and "group" not in st.func.value.id:
                # an entry popped from a stack of line numbers is as good as what was pushed there (checked below)
                vals = [x for x in a.elts if not (isinstance(x, ast.Call) and isinstance(x.func, ast.Attribute) and x.func.attr == "pop" and isinstance(x.func.value, ast.Name) and x.func.value.id in scalar_stacks)]
                cnt += len(a.elts) - len(vals)
                stack_like.add(st.func.value.id)
            elif st.func.value.id in scalar_stacks and isinstance(deref(ctx, f, a), (ast.BinOp, ast.Constant, ast.UnaryOp)):
                vals = [deref(ctx, f, a)]
            elif st.func.value.id in [unparse(e) for e in ret.value.elts[1:3]] and isinstance(deref(ctx, f, a), (ast.BinOp, ast.Constant, ast.UnaryOp)):
                vals = [deref(ctx, f, a)]
        elif isinstance(st, ast.Assign) and isinstance(st.targets[0], ast.Subscript) and isinstance(st.targets[0].value, ast.Subscript) and isinstance(st.targets[0].value.value, ast.Name) and st.targets[0].value.value.id in stack_like | {"pp_stack"}:
            vals = [st.value]
        elif isinstance(st, ast.Assign) and isinstance(st.targets[0], ast.Subscript) and isinstance(st.targets[0].value, ast.Name) and st.targets[0].value.id in scalar_stacks:
            vals = [st.value]
        for v in vals:
            cnt += 1
            t = unparse(v)
            if t not in (f"{iv} + 1", "-1", f"1 + {iv}"):
                bad.append((st, t))
    if cnt < 6:
        raise AnalysisError(f"preprocess_file: only {cnt} region-bound stores found")
    if bad:
        for st, t in bad:
            R.violation("C08.R1", f.short, f"region bound `{t}`", loc(f, st), f"region bounds and directive lines are compared with the parser's 1-based line number; `{t}` is not `{iv} + 1`")
    else:
        R.ok("C08.R1", f.short, f"{cnt} region bounds / directive lines are `{iv} + 1` (or the open marker -1)", loc(f, loop))


def _in_loop_over(ctx, st, name):
    p = ctx.m.parent.get(st)
    while p is not None and not isinstance(p, ast.FunctionDef):
        if isinstance(p, ast.For) and isinstance(p.iter, ast.Name) and p.iter.id == name:
            return p
        p = ctx.m.parent.get(p)
    return None


# ------------------------------------------------------------------ R2
def _is_all_true(ctx, f, e, stack):
    """`all(s[0] < 0 for s in stack)` / `not any(s[0] >= 0 ...)`"""
    neg = False
    if isinstance(e, ast.UnaryOp) and isinstance(e.op, ast.Not):
        neg, e = True, e.operand
    if not (isinstance(e, ast.Call) and isinstance(e.func, ast.Name) and e.func.id in ("all", "any") and len(e.args) == 1 and isinstance(e.args[0], (ast.GeneratorExp, ast.ListComp))):
        return False
    g = e.args[0]
    if len(g.generators) != 1 or unparse(g.generators[0].iter) != stack or g.generators[0].ifs:
        return False
    tv = unparse(g.generators[0].target)
    c = g.elt
    # entries are `[start, end]` pairs or, equivalently, the bare start line
    if not (isinstance(c, ast.Compare) and len(c.ops) == 1 and unparse(c.left) in (f"{tv}[0]", tv) and isinstance(c.comparators[0], (ast.Constant, ast.UnaryOp))):
        return False
    try:
        v = ast.literal_eval(c.comparators[0])
    except ValueError:
        return False
    op = type(c.ops[0])
    true_arm = (op is ast.Lt and v == 0) or (op is ast.LtE and v == -1) or (op is ast.Eq and v == -1)
    false_arm = (op is ast.GtE and v == 0) or (op is ast.Gt and v == -1) or (op is ast.NotEq and v == -1)
    return (e.func.id == "all" and not neg and true_arm) or (e.func.id == "any" and neg and false_arm)


def _cond_stack(ctx, f):
    """Name of the local stack of open conditionals: the container whose popped
    entry is (part of) what is appended to the returned list of skipped regions."""
    ret = next((r for r in f.node.body if isinstance(r, ast.Return) and isinstance(r.value, ast.Tuple)), None)
    if ret is None or len(ret.value.elts) < 2:
        return None
    regions = unparse(ret.value.elts[1])
    for c in calls_in(f.node):
        if isinstance(c.func, ast.Attribute) and c.func.attr == "append" and unparse(c.func.value) == regions and c.args:
            for x in ast.walk(c.args[0]):
                if isinstance(x, ast.Call) and isinstance(x.func, ast.Attribute) and x.func.attr == "pop" and isinstance(x.func.value, ast.Name) and not x.args:
                    return x.func.value.id
    return None


def r2(ctx, R):
    R.rule("C08.R2", "#define/#undef/#include take effect only when every open conditional is in its true arm", floor=4, confirmed=4)
    f = pp_func(ctx)
    stack_name = _cond_stack(ctx, f) or "pp_stack"
    F = ctx.facts(f, interproc=False)
    ret = next(r for r in f.node.body if isinstance(r, ast.Return) and isinstance(r.value, ast.Tuple))
    table = unparse(ret.value.elts[3])
    deflines = unparse(ret.value.elts[2])
    sites = []
    for st in ctx.m.walk_own(f.node):
        if isinstance(st, ast.Assign) and isinstance(st.targets[0], ast.Subscript) and unparse(st.targets[0].value) == table and _inside_loop(ctx, st) and "cont" not in unparse(st.targets[0].slice):
            sites.append((st, "macro defined"))
        elif isinstance(st, ast.Call) and isinstance(st.func, ast.Attribute) and st.func.attr in ("pop", "__delitem__") and unparse(st.func.value) == table:
            sites.append((st, "macro undefined"))
        elif isinstance(st, ast.Delete) and any(unparse(t).startswith(table + "[") for t in st.targets):
            sites.append((st, "macro undefined"))
        elif isinstance(st, ast.Call) and f.qual in ctx.r.resolve_call(f, st)[1]:
            sites.append((st, "file included"))
        elif isinstance(st, ast.Call) and isinstance(st.func, ast.Attribute) and st.func.attr == "append" and unparse(st.func.value) == deflines:
            sites.append((st, "directive line recorded"))
    if len(sites) < 4:
        raise AnalysisError(f"preprocess_file: {len(sites)} define/undef/include sites found, expected at least 4")
    for st, what in sites:
        fa = F.at(st) or set()
        flags = [b[1] for b in fa if b[0] == "cond" and b[2] is True and b[1].isidentifier()]
        good = None
        for fl in flags:
            ds = reaching_defs(ctx, f, st, fl)
            if ds and all(isinstance(d, ast.AST) and _is_all_true(ctx, f, d, stack_name) for d in ds):
                good = fl
        inline = any(b[0] == "cond" and b[2] is True and b[1].startswith(("all(", "not any(")) and stack_name in b[1] for b in fa)
        k = f"{what}: {key(f, ctx.m.enclosing_stmt(st))[:70]}"
        if good or inline:
            R.ok("C08.R2", f.short, k, loc(f, st), f"under `{good or 'all(...)'}` = every open conditional in its true arm")
        else:
            R.violation("C08.R2", f.short, k, loc(f, st), "this directive takes effect although an enclosing conditional is in a false arm (the guard must test the whole stack of open conditionals, not only its top)")


def _inside_loop(ctx, st):
    p = ctx.m.parent.get(st)
    while p is not None and not isinstance(p, ast.FunctionDef):
        if isinstance(p, (ast.For, ast.While)):
            return True
        p = ctx.m.parent.get(p)
    return False


# ------------------------------------------------------------------ R3
def r3(ctx, R):
    from .c03 import pattern_holes, replacement_sinks
    from .taint import CALLABLE, CONST, SAN, WORD, Taint

    R.rule("C08.R3", "macro names and bodies are used character for character: names/parameters escaped in patterns, bodies never read as replacement templates", floor=4, confirmed=5)
    f = pp_func(ctx)
    mine = {g.qual for g in nested_all(ctx, f)}
    tp = Taint(ctx, "pattern")
    for rx_, h in pattern_holes(ctx):
        if rx_.func is None or rx_.func.qual not in mine:
            continue
        cls = tp.of(rx_.func, h.expr, rx_.node)
        k = f"hole {{{unparse(h.expr)}}} in {key(rx_.func, ctx.m.enclosing_stmt(rx_.node))[:70]}"
        if cls in (SAN, WORD, CONST):
            R.ok("C08.R3", rx_.func.short, k, loc(rx_.func, rx_.node), f"hole is {cls}")
        else:
            R.violation("C08.R3", rx_.func.short, k, loc(rx_.func, rx_.node), f"`{unparse(h.expr)}` is spliced into the macro pattern as regex syntax: a macro or parameter name is not matched literally")
    tt = Taint(ctx, "template")
    for g, c, rep in replacement_sinks(ctx):
        if g.qual not in mine:
            continue
        cls = tt.of(g, rep, c)
        k = f"replacement {unparse(rep)} in {key(g, ctx.m.enclosing_stmt(c))[:70]}"
        if cls in (CONST, CALLABLE, SAN):
            R.ok("C08.R3", g.short, k, loc(g, c), f"replacement is {cls}")
        else:
            R.violation("C08.R3", g.short, k, loc(g, c), f"the macro body `{unparse(rep)}` is used as a replacement template: backslashes in it are read as escapes, so the body is not inserted character for character")


# ------------------------------------------------------------------ R4
def paren_skeletons(seq, limit=4096):
    """set of (opens, closes, frozenset(groups that took part)) over all ways to
    match `seq`, counting literal '(' and ')' only; None when unbounded"""
    C = rex.C
    res = {(0, 0, frozenset())}
    for op, av in rex.items(seq):
        if op is C.LITERAL and chr(av) in "()":
            alt = {(1, 0, frozenset())} if chr(av) == "(" else {(0, 1, frozenset())}
        elif op is C.SUBPATTERN:
            inner = paren_skeletons(av[3], limit)
            if inner is None:
                return None
            alt = {(o, c, g | ({av[0]} if av[0] else set())) for o, c, g in inner}
        elif op is C.BRANCH:
            alt = set()
            for a in av[1]:
                inner = paren_skeletons(a, limit)
                if inner is None:
                    return None
                alt |= inner
        elif op in rex.REPEATS:
            lo, hi, body = av
            inner = paren_skeletons(body, limit)
            if inner is None:
                return None
            if all(o == 0 and c == 0 for o, c, _ in inner):
                alt = {(0, 0, frozenset().union(*[g for _, _, g in inner]))} | ({(0, 0, frozenset())} if lo == 0 else set())
            elif hi is rex.C.MAXREPEAT or hi > 3:
                return None
            else:
                alt = set()
                cur = {(0, 0, frozenset())}
                for n in range(hi + 1):
                    if n >= lo:
                        alt |= cur
                    cur = {(o1 + o2, c1 + c2, g1 | g2) for o1, c1, g1 in cur for o2, c2, g2 in inner}
        elif op is C.GROUPREF_EXISTS:
            gid, yes, no = av
            y = paren_skeletons(yes, limit)
            n_ = paren_skeletons(no, limit) if no is not None else {(0, 0, frozenset())}
            if y is None or n_ is None:
                return None
            alt = {(o, c, g | {("need", gid)}) for o, c, g in y} | {(o, c, g | {("absent", gid)}) for o, c, g in n_}
        elif op in (C.ASSERT, C.ASSERT_NOT):
            continue
        elif op is C.IN or op is C.NOT_LITERAL or op is C.ANY:
            # a class that can match a parenthesis is an uncounted parenthesis
            chars = rex.atom_chars(op, av)
            if chars is None or ("(" in chars or ")" in chars):
                if op is C.IN and chars is not None and not ({"(", ")"} & set(chars)):
                    continue
                alt = {(0, 0, frozenset({("wild", 0)}))}
            else:
                continue
        else:
            continue
        res = {(o1 + o2, c1 + c2, g1 | g2) for o1, c1, g1 in res for o2, c2, g2 in alt}
        if len(res) > limit:
            return None
    return res


def _consistent(groups):
    took = {g for g in groups if isinstance(g, int)}
    for g in groups:
        if isinstance(g, tuple):
            if g[0] == "need" and g[1] not in took:
                return False
            if g[0] == "absent" and g[1] in took:
                return False
    return True


def r4(ctx, R):
    R.rule("C08.R4", "the pattern that rewrites `defined X` / `defined(X)` only matches text with balanced parentheses", floor=1, confirmed=1)
    f = pp_func(ctx)
    uses = []
    for g in nested_all(ctx, f):
        for n in ctx.m.walk_own(g.node):
            if isinstance(n, ast.For) and isinstance(n.iter, ast.Call) and isinstance(n.iter.func, ast.Attribute) and n.iter.func.attr == "finditer":
                nm = ctx.p.fregex_ref(g.rel, n.iter.func.value)
                if nm and any(isinstance(x, ast.Compare) and isinstance(x.ops[0], ast.In) and "group(" in unparse(x.left) for x in ast.walk(n)) and "defined" in ctx.p.named[nm].text.lower():
                    uses.append((g, n, nm))
    if not uses:
        # the pattern handed to a substitution helper / used with sub(): the statement about
        # the pattern itself (balanced parentheses) does not depend on how it is applied
        seen_nm = set()
        evaluators = [g for g in nested_all(ctx, f) if any(isinstance(c.func, ast.Attribute) and c.func.attr == "parse" and unparse(c.func.value) == "ast" for c in calls_in(g.node))]
        # calls_in looks into nested defs as well: keep the function(s) directly around the call,
        # i.e. the one nested directly in the preprocessing function, with everything inside it
        evaluators = [e for e in evaluators if e.parent == f.qual]
        scope = [g for e in evaluators for g in nested_all(ctx, e)]
        for g in scope:
            for n in ctx.m.walk_own(g.node):
                if isinstance(n, ast.Attribute):
                    nm = ctx.p.fregex_ref(g.rel, n)
                    if nm and nm not in seen_nm and "defined" in ctx.p.named[nm].text.lower():
                        seen_nm.add(nm)
                        uses.append((g, None, nm))
    if not uses:
        raise AnalysisError("pattern rewriting the defined operator not found")
    for g, n, nm in uses:
        rx_ = ctx.p.named[nm]
        sk = paren_skeletons(rx_.tree)
        if sk is None:
            R.undecided("C08.R4", g.short, f"FRegex.{nm}", loc(rx_.rel, rx_.node), "parenthesis skeleton not finite")
            continue
        sk = {(o, c) for o, c, gs in sk if _consistent(gs)}
        wild = any(("wild", 0) in gs for _, _, gs in paren_skeletons(rx_.tree))
        unbalanced = sorted(s for s in sk if s[0] != s[1])
        if unbalanced or wild:
            o, c = unbalanced[0] if unbalanced else (0, 0)
            R.violation("C08.R4", g.short, f"FRegex.{nm} = {rx_.text!r}", loc(rx_.rel, rx_.node), f"a match can contain {o} '(' and {c} ')'" + (" (a character class can swallow a parenthesis)" if wild else "") + ": in `#if (defined A || defined B)` the rewrite consumes the parenthesis of the enclosing group, the condition no longer parses and the region is skipped")
        else:
            R.ok("C08.R4", g.short, f"FRegex.{nm} = {rx_.text!r}", loc(rx_.rel, rx_.node), f"parenthesis skeletons {sorted(sk)}")
        # the name tested is the identifier group
        cmps = [x for gg in nested_all(ctx, f) for x in ctx.m.walk_own(gg.node) if isinstance(x, ast.Compare) and isinstance(x.ops[0], ast.In) and "group(" in unparse(x.left) and any(isinstance(c.args[0].value, str) for c in ast.walk(x.left) if isinstance(c, ast.Call) and isinstance(c.func, ast.Attribute) and c.func.attr == "group" and c.args and isinstance(c.args[0], ast.Constant))] if n is None else []
        if n is None and not cmps:
            R.undecided("C08.R4", g.short, "macro-name group", loc(rx_.rel, rx_.node), "the look-up of the matched name in the macro table was not recognised")
            continue
        cmp_ = cmps[0] if n is None else next(x for x in ast.walk(n) if isinstance(x, ast.Compare) and isinstance(x.ops[0], ast.In) and "group(" in unparse(x.left))
        garg = next((c.args[0].value for c in ast.walk(cmp_.left) if isinstance(c, ast.Call) and isinstance(c.func, ast.Attribute) and c.func.attr == "group" and c.args and isinstance(c.args[0], ast.Constant)), 0)
        gid = rx_.tree.state.groupdict.get(garg, garg) if isinstance(garg, str) else garg
        node = rex.group_node(rx_.tree, gid) if gid else None
        body_ok = False
        if node:
            seq, i = node
            first, nullable = rex.first_chars(seq[i][1][3], rx_.ignorecase)
            body_ok = bool(first) and not nullable and all(ch.isalpha() or ch == "_" for ch in first)
        if body_ok:
            R.ok("C08.R4", g.short, f"group {garg!r} is the macro name", loc(g, cmp_))
        else:
            R.violation("C08.R4", g.short, f"group {garg!r} is the macro name", loc(g, cmp_), f"the group looked up in the macro table ({garg!r}) is not the identifier group of FRegex.{nm}")


# ------------------------------------------------------------------ R5 / R6
def r5(ctx, R):
    R.rule("C08.R5", "the macro table is a private copy threaded through the file and its #includes and handed back to the caller", floor=5, confirmed=6)
    f = pp_func(ctx)
    ret = next(r for r in f.node.body if isinstance(r, ast.Return) and isinstance(r.value, ast.Tuple))
    table = unparse(ret.value.elts[3])
    param = next((p for p in f.params if "def" in p), None)
    ds = [v for st, v in defs_of(ctx, f, table) if ctx.m.enclosing_func(st) is f and not _inside_loop(ctx, st)]
    copy_ok = len(ds) == 1 and isinstance(ds[0], ast.Call) and ((isinstance(ds[0].func, ast.Attribute) and ds[0].func.attr == "copy" and unparse(ds[0].func.value) == param) or (isinstance(ds[0].func, ast.Name) and ds[0].func.id == "dict" and ds[0].args and unparse(ds[0].args[0]) == param) or unparse(ds[0]) in (f"copy.copy({param})", f"copy.deepcopy({param})"))
    # any expression that builds a new dict from the parameter: {**p}, {k: v for k, v in p.items()}, dict(p.items())
    if not copy_ok and len(ds) == 1:
        v0 = ds[0]
        fresh = (isinstance(v0, ast.Dict) and all(k is None for k in v0.keys) and any(unparse(x) == param for x in v0.values)) or (isinstance(v0, ast.DictComp) and any(unparse(g_.iter).startswith(param + ".") or unparse(g_.iter) == param for g_ in v0.generators)) or (isinstance(v0, ast.Call) and isinstance(v0.func, ast.Name) and v0.func.id == "dict" and v0.args and unparse(v0.args[0]).startswith(param))
        if fresh:
            copy_ok = True
    if copy_ok:
        R.ok("C08.R5", f.short, f"{table} starts as a copy of {param}", loc(f, ds[0]))
    elif len(ds) != 1 or not (isinstance(ds[0], ast.Name) and ds[0].id == param):
        R.undecided("C08.R5", f.short, f"{table} starts as a copy of {param}", loc(f, ds[0] if ds else f.node), "initialisation of the working table not recognised")
    else:
        R.violation("C08.R5", f.short, f"{table} starts as a copy of {param}", loc(f, ds[0] if ds else f.node), "the working table aliases the caller's table: #define lines of one file change the definitions every other file is preprocessed with")
    # recursive call: passes the table, takes the 4th element back
    rec = [c for c in calls_in(f.node) if ctx.m.enclosing_func(c) is f and f.qual in ctx.r.resolve_call(f, c)[1]]
    if not rec:
        R.violation("C08.R5", f.short, "#include preprocessed recursively", loc(f, f.node), "included files are not preprocessed: their #define lines are lost")
    for c in rec:
        passed = next((kw.value for kw in c.keywords if kw.arg == param), c.args[f.params.index(param)] if len(c.args) > f.params.index(param) else None)
        st = ctx.m.enclosing_stmt(c)
        tgt = st.targets[0] if isinstance(st, ast.Assign) else None
        back = isinstance(tgt, ast.Tuple) and len(tgt.elts) == 4 and unparse(tgt.elts[3]) == table
        if isinstance(st, ast.Assign) and isinstance(tgt, ast.Name):
            # result kept whole, element 3 taken later
            back = any(isinstance(s, ast.Assign) and unparse(s.targets[0]) == table and unparse(s.value) == f"{tgt.id}[3]" for s in ast.walk(f.node))
        if passed is not None and unparse(passed) == table:
            R.ok("C08.R5", f.short, "include receives the current table", loc(f, c))
        else:
            R.violation("C08.R5", f.short, "include receives the current table", loc(f, c), f"the included file is preprocessed with `{unparse(passed) if passed is not None else 'no table'}`, not with the definitions made so far")
        if back:
            R.ok("C08.R5", f.short, "table returned by the include is continued with", loc(f, c))
        else:
            R.violation("C08.R5", f.short, "table returned by the include is continued with", loc(f, c), "definitions made inside the included file are discarded")
    # conditions are evaluated against the working table
    ev = [c for c in calls_in(f.node) if ctx.m.enclosing_func(c) is f and isinstance(c.func, ast.Name) and any(q.endswith(".eval_pp_if") for q in ctx.r.resolve_call(f, c)[1])]
    for c in ev:
        if len(c.args) >= 2 and unparse(c.args[1]) == table or any(unparse(kw.value) == table for kw in c.keywords):
            R.ok("C08.R5", f.short, key(f, ctx.m.enclosing_stmt(c))[:70], loc(f, c), "condition evaluated against the working table")
        else:
            R.violation("C08.R5", f.short, key(f, ctx.m.enclosing_stmt(c))[:70], loc(f, c), "the condition is not evaluated against the definitions made so far in this file")
    for n in ctx.m.walk_own(f.node):
        if isinstance(n, ast.Compare) and isinstance(n.ops[0], (ast.In, ast.NotIn)) and isinstance(n.left, ast.Name) and "name" in n.left.id and _cond_of_ifdef(ctx, n):
            if unparse(n.comparators[0]) == table:
                R.ok("C08.R5", f.short, unparse(n), loc(f, n), "#ifdef/#ifndef look in the working table")
            else:
                R.violation("C08.R5", f.short, unparse(n), loc(f, n), "#ifdef/#ifndef do not look in the working table")
    # the file object keeps the final table
    pre = ctx.m.fn("FortranFile.preprocess")
    st = next((s for s in ctx.m.walk_own(pre.node) if isinstance(s, ast.Assign) and isinstance(s.value, ast.Call) and f.qual in ctx.r.resolve_call(pre, s.value)[1]), None)
    if st is not None and isinstance(st.targets[0], ast.Tuple) and len(st.targets[0].elts) == 4 and unparse(st.targets[0].elts[3]).startswith("self.") and unparse(st.targets[0].elts[0]).startswith("self."):
        R.ok("C08.R5", pre.short, "file keeps substituted text and final table", loc(pre, st))
    else:
        R.violation("C08.R5", pre.short, "file keeps substituted text and final table", loc(pre, st or pre.node), "the preprocessed text or the final macro table is not stored on the file object")


def _cond_of_ifdef(ctx, n):
    st = ctx.m.enclosing_stmt(n)
    return isinstance(st, ast.Assign) and isinstance(st.targets[0], ast.Name) and st.targets[0].id.startswith("is_")


def r6(ctx, R):
    R.rule("C08.R6", "a per-file cache of compiled macro expansions is keyed by everything the cached entry was computed from", floor=1, confirmed=1)
    f = pp_func(ctx)
    for st in ctx.m.walk_own(f.node):
        if not (isinstance(st, ast.Assign) and isinstance(st.targets[0], ast.Subscript) and isinstance(st.targets[0].value, ast.Name) and isinstance(st.value, ast.Name)):
            continue
        cache = st.targets[0].value.id
        cds = [v for _, v in defs_of(ctx, f, cache)]
        if not (len(cds) == 1 and isinstance(cds[0], ast.Dict) and not cds[0].keys):
            continue
        read_get = any(isinstance(c.func, ast.Attribute) and c.func.attr == "get" and unparse(c.func.value) == cache for c in calls_in(f.node))
        read_sub = any(isinstance(x, ast.Subscript) and isinstance(x.ctx, ast.Load) and unparse(x.value) == cache for x in ctx.m.walk_own(f.node))
        if not (read_get or read_sub):
            continue
        keyexpr = st.targets[0].slice

        def closure(names, at):
            """names plus everything their reaching definitions are computed from (locals bound to
            copies / tuples of the loop variables, as an inlined helper's parameters are)"""
            out = set(names)
            work = list(names)
            for _ in range(40):
                if not work:
                    break
                nm = work.pop()
                for v in reaching_defs(ctx, f, at, nm):
                    if isinstance(v, ast.AST):
                        for n in ast.walk(v):
                            if isinstance(n, ast.Name) and isinstance(n.ctx, ast.Load) and n.id not in out:
                                out.add(n.id)
                                work.append(n.id)
            return out

        knames = closure({n.id for n in ast.walk(keyexpr) if isinstance(n, ast.Name)}, st)
        # what the stored value is computed from: reaching defs of the stored name
        deps = closure({st.value.id}, st) - {st.value.id}
        loopvars = set()
        p = ctx.m.parent.get(st)
        while p is not None and not isinstance(p, ast.FunctionDef):
            if isinstance(p, ast.For):
                loopvars |= {n.id for n in ast.walk(p.target) if isinstance(n, ast.Name)}
            p = ctx.m.parent.get(p)
        need = (deps & loopvars) - {cache}
        invalid = [c for c in calls_in(f.node) if isinstance(c.func, ast.Attribute) and c.func.attr in ("pop", "clear") and unparse(c.func.value) == cache]
        k = f"{cache}[{unparse(keyexpr)}] = {st.value.id}"
        if need <= knames:
            R.ok("C08.R6", f.short, k, loc(f, st), f"entry computed from {sorted(need)}; all in the key")
        elif invalid:
            # the key lacks part of what the entry depends on: then every place that changes the
            # table the loop draws from must invalidate the cache (same key popped next to a pop of
            # the table; cleared or re-created next to a wholesale replacement of the table)
            table = None
            p = ctx.m.parent.get(st)
            while p is not None and not isinstance(p, ast.FunctionDef):
                if isinstance(p, ast.For) and isinstance(p.iter, ast.Call) and isinstance(p.iter.func, ast.Attribute) and isinstance(p.iter.func.value, ast.Name):
                    table = p.iter.func.value.id
                p = ctx.m.parent.get(p)
            problems, undec, n_ok = [], [], 0
            if table is None:
                undec.append((st, "the table the cached entries are computed from was not identified"))
            else:
                F = ctx.facts(f, interproc=False)

                def siblings(x):
                    par = ctx.m.parent.get(x)
                    for fld in ("body", "orelse", "finalbody"):
                        if x in getattr(par, fld, []):
                            return getattr(par, fld)
                    return [x]

                def invalidated(x, keytxt):
                    for sb in siblings(x):
                        for c in calls_in(sb):
                            if isinstance(c.func, ast.Attribute) and unparse(c.func.value) == cache:
                                if c.func.attr == "clear":
                                    return True
                                if c.func.attr == "pop" and keytxt is not None and c.args and unparse(c.args[0]) == keytxt:
                                    return True
                        if isinstance(sb, ast.Assign) and any(isinstance(t, ast.Name) and t.id == cache for t in sb.targets) and isinstance(sb.value, ast.Dict) and not sb.value.keys:
                            return True
                    return False

                first = True
                for x in ctx.m.walk_own(f.node):
                    if isinstance(x, ast.Expr) and isinstance(x.value, ast.Call) and isinstance(x.value.func, ast.Attribute) and unparse(x.value.func.value) == table and x.value.func.attr in ("pop", "popitem", "clear", "update", "setdefault"):
                        c = x.value
                        kt = unparse(c.args[0]) if c.func.attr == "pop" and c.args else None
                        if c.func.attr == "pop" and invalidated(x, kt) or invalidated(x, None):
                            n_ok += 1
                        elif c.func.attr in ("pop", "clear", "popitem"):
                            problems.append((x, f"`{unparse(c)[:60]}` removes a definition but the cache keeps the entry computed from it"))
                        else:
                            undec.append((x, f"`{unparse(c)[:60]}`"))
                    elif isinstance(x, ast.Delete) and any(isinstance(t, ast.Subscript) and unparse(t.value) == table for t in x.targets):
                        kt = next(unparse(t.slice) for t in x.targets if isinstance(t, ast.Subscript) and unparse(t.value) == table)
                        if invalidated(x, kt):
                            n_ok += 1
                        else:
                            problems.append((x, f"`{unparse(x)[:60]}` removes a definition but the cache keeps the entry computed from it"))
                    elif isinstance(x, ast.Assign):
                        names = [n_ for t in x.targets for n_ in ast.walk(t) if isinstance(n_, ast.Name) and isinstance(n_.ctx, ast.Store) and n_.id == table]
                        subs = [t for t in x.targets if isinstance(t, ast.Subscript) and unparse(t.value) == table]
                        if names:
                            if first and isinstance(ctx.m.parent.get(x), ast.FunctionDef):
                                first = False  # the table's initialisation
                                continue
                            if invalidated(x, None):
                                n_ok += 1
                            else:
                                problems.append((x, f"`{unparse(x)[:70]}` replaces the whole table (definitions made or removed by the included file) but the cache keeps its entries"))
                        for t in subs:
                            facts = F.at(x) or set()
                            kt = unparse(t.slice)
                            if ("notin", kt, table) in facts or invalidated(x, kt):
                                n_ok += 1
                            else:
                                undec.append((x, f"`{unparse(t)} = ...` may overwrite an existing definition"))
            for x, why in problems:
                R.violation("C08.R6", f.short, k + " :: " + key(f, x)[:60], loc(f, x), f"the cached entry is computed from {sorted(need)} but keyed by {sorted(knames)} only, and {why}: later uses of the name are expanded with the old definition (or fail on a pattern/body of the wrong kind)")
            for x, why in undec:
                R.undecided("C08.R6", f.short, k + " :: " + key(f, x)[:60], loc(f, x), f"key lacks {sorted(need - knames)}; invalidation at {why} not decided")
            if not problems and not undec:
                R.ok("C08.R6", f.short, k, loc(f, st), f"key lacks {sorted(need - knames)} but the cache is invalidated at each of the {n_ok} places that change `{table}`")
        else:
            R.violation("C08.R6", f.short, k, loc(f, st), f"the cached entry is computed from {sorted(need)} but keyed by {sorted(knames)} only: after #undef/#define of the same name with another body, uses are still replaced by the old body")


# ------------------------------------------------------------------ R8
def r8(ctx, R):
    """Macros are applied one after the other to the same line, so the body of one macro may
    name another (object-like macros that expand to macros).  Whatever decides to skip a macro
    for a line must therefore look at the line as it is *now*, not at a view computed before
    the loop started."""
    R.rule("C08.R8", "the substitution loop decides per macro on the current text of the line (earlier substitutions can introduce later macro names)", floor=1, confirmed=1)
    f = pp_func(ctx)
    ret = next(r for r in f.node.body if isinstance(r, ast.Return) and isinstance(r.value, ast.Tuple))
    table = unparse(ret.value.elts[3])
    n = 0
    for lp in (x for x in ctx.m.walk_own(f.node) if isinstance(x, ast.For)):
        if not (isinstance(lp.iter, ast.Call) and isinstance(lp.iter.func, ast.Attribute) and lp.iter.func.attr in ("items", "keys") and unparse(lp.iter.func.value) == table) and unparse(lp.iter) != table:
            continue
        loopvars = {x.id for x in ast.walk(lp.target) if isinstance(x, ast.Name)}
        # the text that is rewritten inside the loop: target of `x = y` where y is the result of subn/sub
        rebound = {t.id for st in ast.walk(lp) if isinstance(st, ast.Assign) for t in st.targets if isinstance(t, ast.Name)}
        subs = [c for c in calls_in(lp) if isinstance(c.func, ast.Attribute) and c.func.attr in ("subn", "sub")]
        texts = set()
        for c in subs:
            for a in c.args:
                if isinstance(a, ast.Name) and a.id in rebound and a.id not in loopvars:
                    texts.add(a.id)
        if not subs or not texts:
            continue
        for t in (x for x in lp.body if isinstance(x, ast.If)):
            if not (t.body and isinstance(t.body[-1], ast.Continue)):
                continue
            names = {x.id for x in ast.walk(t.test) if isinstance(x, ast.Name)}
            if not (names & loopvars):
                continue
            n += 1
            others = names - loopvars
            stale = []
            for nm in sorted(others):
                if nm in texts:
                    continue
                # a local computed before the loop from the text that the loop rewrites
                ds = [v for st_, v in defs_of(ctx, f, nm) if v is not None]
                from_text = any(any(isinstance(x, ast.Name) and x.id in texts for x in ast.walk(v)) for v in ds)
                updated_in_loop = any(isinstance(st_, ast.Assign) and any(isinstance(t_, ast.Name) and t_.id == nm for t_ in st_.targets) for st_ in ast.walk(lp))
                if from_text and not updated_in_loop:
                    stale.append(nm)
            k = key(f, t)[:80]
            if stale:
                R.violation("C08.R8", f.short, k, loc(f, t), f"the skip test reads `{stale[0]}`, computed from `{sorted(texts)[0]}` before the loop, while the loop rewrites `{sorted(texts)[0]}`: a macro whose name only appears after an earlier macro was expanded (`#define A B x` / `#define B integer`) is skipped and stays unexpanded")
            elif others - texts:
                R.undecided("C08.R8", f.short, k, loc(f, t), f"skip test reads {sorted(others - texts)}")
            else:
                R.ok("C08.R8", f.short, k, loc(f, t), f"skip test reads the current `{sorted(texts)[0]}`")
    if n == 0:
        R.undecided("C08.R8", f.short, "substitution loop", loc(f, f.node), "no per-macro skip test found in the substitution loop")


# ------------------------------------------------------------------ R7
def _arm_paths(stmts, stack, group, grp_test):
    """set of (stack delta, group pops, group test seen, open) over all paths through stmts"""
    states = {(0, 0, False, True)}
    for st in stmts:
        nxt = set()
        for d, gp, seen, open_ in states:
            if not open_:
                nxt.add((d, gp, seen, False))
                continue
            if isinstance(st, ast.If):
                seen2 = seen or (st is grp_test)
                cd, cg = _count(st.test, stack, group)
                for br in (st.body, st.orelse):
                    for d2, g2, s2, o2 in _arm_paths(br, stack, group, grp_test):
                        nxt.add((d + cd + d2, gp + cg + g2, seen2 or s2, o2))
            elif isinstance(st, (ast.Continue, ast.Break, ast.Return)):
                nxt.add((d, gp, seen, False))
            elif isinstance(st, (ast.For, ast.While, ast.Try, ast.With)):
                cd, cg = _count(st, stack, group)
                nxt.add((d + cd, gp + cg, seen, True))
            else:
                cd, cg = _count(st, stack, group)
                nxt.add((d + cd, gp + cg, seen, True))
        states = nxt
    return states


def _count(node, stack, group):
    d = g = 0
    for c in ast.walk(node):
        if isinstance(c, ast.Call) and isinstance(c.func, ast.Attribute) and isinstance(c.func.value, ast.Name):
            if c.func.value.id == stack:
                d += {"append": 1, "pop": -1}.get(c.func.attr, 0)
            elif c.func.value.id == group and c.func.attr == "pop":
                g += 1
    return d, g


def r7(ctx, R):
    R.rule("C08.R7", "the stack of open conditionals is balanced on every path: an opening directive pushes one entry, #elif/#else replace the top, #endif pops one entry and always settles its #elif group first", floor=5, confirmed=6)
    f = pp_func(ctx)
    ret = next(r for r in f.node.body if isinstance(r, ast.Return) and isinstance(r.value, ast.Tuple))
    regions = unparse(ret.value.elts[1])
    stack = group = None
    group_is_record = False
    for c in calls_in(f.node):
        if isinstance(c.func, ast.Attribute) and c.func.attr == "append" and unparse(c.func.value) == regions and c.args:
            # the closed region is the popped entry itself, or is built around it (`[stack.pop(), end]`)
            for x in ast.walk(c.args[0]):
                if isinstance(x, ast.Call) and isinstance(x.func, ast.Attribute) and x.func.attr == "pop" and isinstance(x.func.value, ast.Name) and not x.args:
                    stack = x.func.value.id
    for c in calls_in(f.node):
        if isinstance(c.func, ast.Attribute) and c.func.attr == "append" and c.args and isinstance(c.args[0], ast.List) and c.args[0].elts and unparse(c.args[0].elts[0]) == f"len({stack})":
            group = unparse(c.func.value)
        elif isinstance(c.func, ast.Attribute) and c.func.attr == "append" and c.args:
            a0 = c.args[0]
            if isinstance(a0, ast.Name):
                rd = [v for v in reaching_defs(ctx, f, c, a0.id) if v is not None and v != "param"]
                a0 = rd[0] if len(rd) == 1 else a0
            if isinstance(a0, ast.Call) and isinstance(a0.func, ast.Name) and a0.func.id[:1].isupper() and a0.args and unparse(a0.args[0]) == f"len({stack})":
                group = unparse(c.func.value)  # a record (dataclass) per #elif group instead of a two-element list
                group_is_record = True
    if not stack or not group:
        raise AnalysisError("preprocess_file: conditional stack / #elif group list not identified")
    # arms
    arms = {}
    opening = None
    for n in ctx.m.walk_own(f.node):
        if isinstance(n, ast.If) and isinstance(n.test, ast.Compare) and len(n.test.ops) == 1 and isinstance(n.test.ops[0], ast.Eq) and isinstance(n.test.comparators[0], ast.Constant) and isinstance(n.test.comparators[0].value, str):
            # the directive word: match.group(1).lower(), possibly bound to a local first
            left = deref(ctx, f, n.test.left)
            if ".group(1)" in unparse(left):
                kw = n.test.comparators[0].value.strip()
                if kw in ("elif", "else", "endif"):
                    arms[kw] = n
        # the arm that opens a conditional: pushes onto the stack and goes on to the next line
        if isinstance(n, ast.If) and not n.orelse and any(isinstance(b, ast.Continue) for b in n.body) and _count(n, stack, group)[0] > 0 and not (isinstance(n.test, ast.Compare) and any(isinstance(x, ast.Constant) and isinstance(x.value, str) for x in ast.walk(n.test))):
            if opening is None or any(x is n for x in ast.walk(opening)):
                opening = n
    if set(arms) != {"elif", "else", "endif"} or opening is None:
        raise AnalysisError(f"preprocess_file: conditional arms not identified ({sorted(arms)}, opening={opening is not None})")
    grp_test = next((s_ for b_ in arms["endif"].body for s_ in ast.walk(b_) if isinstance(s_, ast.If) and _count(ast.Module(body=s_.body, type_ignores=[]), stack, group)[1] > 0), None)
    want = {"opening #if/#ifdef/#ifndef": (opening.body, 1), "#elif": (arms["elif"].body, 0), "#else": (arms["else"].body, 0), "#endif": (arms["endif"].body, -1)}
    for what, (body, delta) in want.items():
        paths = _arm_paths(body, stack, group, grp_test)
        bad = sorted({d for d, _, _, _ in paths if d != delta})
        if bad:
            R.violation("C08.R7", f.short, f"{what}: stack delta {delta:+d} on every path", loc(f, body[0]), f"a path through this arm changes the number of open conditionals by {bad[0]:+d} instead of {delta:+d}: every later #else/#endif is matched with the wrong #if")
        else:
            R.ok("C08.R7", f.short, f"{what}: stack delta {delta:+d} on every path", loc(f, body[0]), f"{len(paths)} path classes")
    if grp_test is None:
        R.violation("C08.R7", f.short, "#endif settles its #elif group", loc(f, arms["endif"]), "the #endif arm never removes the group entry of a finished #if/#elif chain")
    else:
        paths = _arm_paths(arms["endif"].body, stack, group, grp_test)
        if all(seen for _, _, seen, _ in paths):
            R.ok("C08.R7", f.short, "#endif settles its #elif group on every path", loc(f, grp_test))
        else:
            R.violation("C08.R7", f.short, "#endif settles its #elif group on every path", loc(f, grp_test), "a path through the #endif arm leaves without testing/removing the finished chain's group entry: the stale entry makes the next #if/#elif chain at the same depth believe a branch was already taken, and its true #elif branch is skipped")
    # an #elif group entry is pushed only for the first #elif of a chain
    gpush = [c for c in calls_in(arms["elif"]) if isinstance(c.func, ast.Attribute) and c.func.attr == "append" and unparse(c.func.value) == group]
    F = ctx.facts(f, interproc=False)
    for c in gpush:
        facts = F.at(c) or set()
        if any(b[0] == "cond" and b[2] is True and group in b[1] and f"len({stack})" in b[1] for b in facts):
            R.ok("C08.R7", f.short, "group entry pushed once per chain", loc(f, c))
        elif any(b[0] in ("cond", "null", "nonnull", "truthy", "falsy") for b in facts if any(isinstance(x, str) and __import__("re").search(r"(?<![.\w])\w*group\w*\(", x.lower()) for x in b[1:2])):
            # guarded by some test about the group (a helper such as `current_elif_group() is None`), in a form the rule does not read
            R.undecided("C08.R7", f.short, "group entry pushed once per chain", loc(f, c), "the push is guarded by a test about the group list that the rule does not recognise")
        elif group_is_record or _under_helper_answer(ctx, f, c):
            # `g = current_group(); if g is None: push`: guarded by the answer of a nested helper the rule does not read
            R.undecided("C08.R7", f.short, "group entry pushed once per chain", loc(f, c), "the push is guarded by the answer of a nested helper (not read by the rule)")
        else:
            R.violation("C08.R7", f.short, "group entry pushed once per chain", loc(f, c), "a group entry is pushed for every #elif, not only for the first of a chain")


def _under_helper_answer(ctx, f, node):
    """node sits in the body of `if X is None:` / `if not X:` where X is a local bound to the answer of a nested helper of f"""
    p_ = ctx.m.parent.get(node)
    child = node
    while p_ is not None and p_ is not f.node:
        if isinstance(p_, ast.If) and any(child is s_ or any(child is y for y in ast.walk(s_)) for s_ in p_.body):
            t = p_.test
            nm = None
            if isinstance(t, ast.Compare) and len(t.ops) == 1 and isinstance(t.ops[0], ast.Is) and isinstance(t.left, ast.Name) and isinstance(t.comparators[0], ast.Constant) and t.comparators[0].value is None:
                nm = t.left.id
            elif isinstance(t, ast.UnaryOp) and isinstance(t.op, ast.Not) and isinstance(t.operand, ast.Name):
                nm = t.operand.id
            if nm and any(isinstance(d_, ast.Call) and ctx.r.resolve_call(f, d_)[0] == "nested" for d_ in defs_values(ctx, f, nm)):
                return True
        child, p_ = p_, ctx.m.parent.get(p_)
    return False


def defs_values(ctx, f, name):
    return [v for _, v in defs_of(ctx, f, name) if v is not None]


# ------------------------------------------------------------------ R9
def r9(ctx, R):
    """cpp expands a header every time it is named: its text is evaluated against
    the macro table of that moment.  A per-file "already included" memo in front of
    the recursive expansion turns the second `#include` of an unguarded header into
    a no-op, so definitions that depend on macros defined in between are lost."""
    R.rule("C08.R9", "#include expands the header at every occurrence: the recursive expansion is not gated by a membership test on a collection that only grows (an include-once memo)", floor=1, confirmed=1)
    f = pp_func(ctx)
    F = ctx.facts(f, interproc=False)
    sites = [c for c in calls_in(f.node) if ctx.m.enclosing_func(c) is f and f.qual in ctx.r.resolve_call(f, c)[1]]
    if not sites:
        raise AnalysisError("preprocess_file: recursive expansion of #include not found")
    grows = {}
    shrinks = set()
    for c in calls_in(f.node):
        if isinstance(c.func, ast.Attribute) and isinstance(c.func.value, ast.Name):
            if c.func.attr in ("add", "append", "update", "extend"):
                grows.setdefault(c.func.value.id, c)
            elif c.func.attr in ("remove", "discard", "pop", "clear", "difference_update"):
                shrinks.add(c.func.value.id)
    for c in sites:
        st = ctx.m.enclosing_stmt(c)
        memo = None
        # the tests under which the expansion runs: enclosing if/elif arms (the memo is
        # updated between the test and the expansion, so a fact at the call would be killed)
        conds = []
        node = c
        p_ = ctx.m.parent.get(node)
        while p_ is not None and p_ is not f.node:
            if isinstance(p_, ast.If):
                if any(node is x for x in p_.body):
                    conds.append((p_.test, True))
                elif any(node is x for x in p_.orelse):
                    conds.append((p_.test, False))
            node, p_ = p_, ctx.m.parent.get(p_)
        for test, pol in conds:
            parts = [(test, pol)]
            if isinstance(test, ast.BoolOp) and ((isinstance(test.op, ast.And) and pol) or (isinstance(test.op, ast.Or) and not pol)):
                parts = [(v, pol) for v in test.values]
            for e, pl in parts:
                if isinstance(e, ast.UnaryOp) and isinstance(e.op, ast.Not):
                    e, pl = e.operand, not pl
                if isinstance(e, ast.Compare) and len(e.ops) == 1 and isinstance(e.ops[0], (ast.In, ast.NotIn)) and isinstance(e.comparators[0], ast.Name):
                    coll = e.comparators[0].id
                    absent = (isinstance(e.ops[0], ast.In) and pl is False) or (isinstance(e.ops[0], ast.NotIn) and pl is True)
                    if absent and coll in grows and coll not in shrinks and coll not in f.params:
                        memo = (coll, unparse(e) if isinstance(e.ops[0], ast.In) else f"not ({unparse(e)})", grows[coll])
        k = key(f, st)[:90]
        if memo:
            R.violation("C08.R9", f.short, k, loc(f, memo[2]), f"the header is expanded only while `{memo[1]}` is false, and `{memo[0]}` only ever grows (line {memo[2].lineno}): the second #include of the same header in one file is skipped, although cpp evaluates it again against the current macro table (`#include <kinds.inc>` / `#define WANT_DOUBLE` / `#include <kinds.inc>` loses what the header defines under WANT_DOUBLE)")
        else:
            R.ok("C08.R9", f.short, k, loc(f, c), "expanded at every occurrence (no grow-only visited set in front of it)")


def run(ctx, R):
    r7(ctx, R)
    r1(ctx, R)
    r2(ctx, R)
    r3(ctx, R)
    r4(ctx, R)
    r5(ctx, R)
    r6(ctx, R)
    r8(ctx, R)
    r9(ctx, R)
