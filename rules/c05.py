"""C05 — go-to-definition follows scoping and USE association
(DESIGN.md 3/C05): accessibility filter, ONLY/rename, search order.  That the
answer is *the* declaration Fortran binds a name to is not decided."""
from __future__ import annotations

import ast

from sa.model import AnalysisError, access_path, unparse

from .shared import calls_in, cond_implies, deref, emptiness_atom, key, loc, membership_atom, reaching_defs, reaching_def_nodes, slice_attrs


def lookup_func(ctx):
    return ctx.m.fn("find_in_scope")


def _is_foreign(ctx, f, e, at):
    """Is scope expression e taken out of the workspace table (a module reached by
    USE), as opposed to the scope itself / its lexical parents?"""
    x = e
    if isinstance(x, ast.Name):
        rd = [v for v in reaching_defs(ctx, f, at, x.id) if v is not None and v != "param"]
        if len(rd) == 1:
            x = rd[0]
    if isinstance(x, ast.Subscript):
        inner = x.value.value if isinstance(x.value, ast.Subscript) else x.value
        p = access_path(inner)
        return bool(p) and p.split(".")[-1] == "obj_tree"
    return False


def r1(ctx, R):
    R.rule("C05.R1", "look-ups in a module reached by USE filter out PRIVATE entities; lexical look-ups do not", floor=4, confirmed=4)
    f = lookup_func(ctx)
    checker = None
    for g in ctx.m.nested_funcs(f):
        if any(isinstance(n, ast.Compare) and "vis" in unparse(n) for n in ast.walk(g.node)):
            checker = g
    if checker is None:
        raise AnalysisError("visibility-aware child search (nested in find_in_scope) not found")
    # call sites of the checker in find_in_scope
    n_foreign = 0
    for c in calls_in(f.node):
        if ctx.m.enclosing_func(c) is not f:
            continue
        k_, tg = ctx.r.resolve_call(f, c)
        if checker.qual not in tg:
            continue
        scope_arg = c.args[0] if c.args else None
        fp = None
        for kw in c.keywords:
            if kw.arg == "filter_public":
                fp = kw.value
        ps = checker.params
        if fp is None and "filter_public" in ps and len(c.args) > ps.index("filter_public"):
            fp = c.args[ps.index("filter_public")]
        foreign = _is_foreign(ctx, f, scope_arg, c)
        st = ctx.m.enclosing_stmt(c)
        k = key(f, st)[:100]
        is_true = isinstance(fp, ast.Constant) and fp.value is True
        if foreign:
            n_foreign += 1
            if is_true:
                R.ok("C05.R1", f.short, k, loc(f, c), "USE-associated module searched with filter_public=True")
            else:
                R.violation("C05.R1", f.short, k, loc(f, c), "a module reached through USE is searched without the public filter: PRIVATE entities of the module are returned as definitions")
        else:
            if fp is None or (isinstance(fp, ast.Constant) and fp.value is False):
                R.ok("C05.R1", f.short, k, loc(f, c), "lexical scope searched without filter")
            else:
                R.violation("C05.R1", f.short, k, loc(f, c), "the scope's own / host declarations are filtered by PUBLIC: private entities are invisible inside their own module")
    if n_foreign == 0:
        R.violation("C05.R1", f.short, "USE-associated look-up", loc(f, f.node), "no look-up into USE-associated modules found")
    # inside the checker: the returning comparison is dominated by the private skip
    g = checker
    F = ctx.facts(g, interproc=False)
    rets = [r for r in ctx.m.walk_own(g.node) if isinstance(r, ast.Return) and isinstance(r.value, ast.Name) and r.value.id != "None"]
    child_rets = [r for r in rets if any(isinstance(lp, ast.For) and isinstance(lp.target, ast.Name) and lp.target.id == r.value.id for lp in ctx.m.walk_own(g.node))]
    if not child_rets:
        R.undecided("C05.R1", g.short, "return child", loc(g, g.node), "no `return <loop variable>`")
    for r in child_rets:
        facts = F.at(r) or set()
        skip = [fa for fa in facts if fa[0] == "cond" and fa[2] is False and "filter_public" in fa[1]]
        if skip:
            # the private flag combines own visibility and the container's default
            srcs = set()
            anodes = []
            for fa in skip:
                srcs |= slice_attrs(ctx, g, ast.parse(fa[1], mode="eval").body, ctx.m.enclosing_stmt(r), nodes=anodes)
            # whose default: the container being searched (the object whose children are iterated),
            # not the child's own `parent` (INCLUDE grafting re-parents shared children)
            loops = [lp for lp in ctx.m.walk_own(g.node) if isinstance(lp, ast.For) and isinstance(lp.target, ast.Name) and lp.target.id == r.value.id]
            cont = {(access_path(lp.iter.func.value if isinstance(lp.iter, ast.Call) and isinstance(lp.iter.func, ast.Attribute) else lp.iter) or "?").split(".")[0] for lp in loops}
            dv_bases = {access_path(x.value) or "?" for x in anodes if x.attr == "def_vis"}
            via_child = sorted(b for b in dv_bases if b.split(".")[0] == r.value.id)
            if {"vis", "def_vis"} <= srcs and via_child:
                R.violation("C05.R1", g.short, key(g, r), loc(g, r), f"the default accessibility is read from `{via_child[0]}.def_vis` (the child's own parent) instead of the scope being searched (`{sorted(cont)[0] if cont else '?'}`): declarations shared between scopes by INCLUDE carry the parent that was resolved last, so a module's PRIVATE default is applied to, or missing from, another module's look-up")
            elif {"vis", "def_vis"} <= srcs and dv_bases and not all(b.split(".")[0] in cont for b in dv_bases):
                R.undecided("C05.R1", g.short, key(g, r), loc(g, r), f"default accessibility read from {sorted(dv_bases)}; searched container {sorted(cont)}")
            elif {"vis", "def_vis"} <= srcs:
                R.ok("C05.R1", g.short, key(g, r), loc(g, r), "match dominated by the skip `filter_public and is_private` (own vis + container default)")
            else:
                R.violation("C05.R1", g.short, key(g, r), loc(g, r), f"privacy is decided from {sorted(srcs)} only: " + ("a module-wide PRIVATE default is ignored" if "def_vis" not in srcs else "an entity's own PRIVATE attribute is ignored"))
        else:
            R.violation("C05.R1", g.short, key(g, r), loc(g, r), "a matching child is returned without passing the `filter_public and is_private` skip")
    # recursion into unnamed interface blocks forwards the filter
    for c in calls_in(g.node):
        k_, tg = ctx.r.resolve_call(g, c)
        if g.qual in tg:
            fwd = any(isinstance(a, ast.Name) and a.id == "filter_public" for a in list(c.args) + [kw.value for kw in c.keywords])
            st = ctx.m.enclosing_stmt(c)
            if fwd:
                R.ok("C05.R1", g.short, key(g, st), loc(g, c), "filter forwarded into nested interface blocks")
            else:
                R.violation("C05.R1", g.short, key(g, st), loc(g, c), "the public filter is not forwarded into unnamed interface blocks: private procedures declared in them leak")


def r2(ctx, R):
    R.rule("C05.R2", "in the USE loop the ONLY list is consulted before, and the rename map applied to, the look-up in the used module", floor=2, confirmed=2)
    f = lookup_func(ctx)
    F = ctx.facts(f, interproc=False)
    for c in calls_in(f.node):
        if ctx.m.enclosing_func(c) is not f or not c.args:
            continue
        if not _is_foreign(ctx, f, c.args[0], c):
            continue
        k_, tg = ctx.r.resolve_call(f, c)
        if k_ != "nested":
            continue
        st = ctx.m.enclosing_stmt(c)
        facts = F.at(c) or set()
        # some dominating condition must imply: the ONLY list is empty or the name is in it
        is_only = lambda t: t.split(".")[-1] == "only_list"

        def atom(e):
            return membership_atom(e, is_only) or emptiness_atom(e, is_only)

        def goal(a):
            return any(v for k_, v in a.items() if k_.startswith("in:")) or any(v for k_, v in a.items() if k_.startswith("empty:"))

        only = [fa for fa in facts if fa[0] == "in" and "only_list" in fa[2]]
        for fa in facts:
            if fa[0] == "cond" and "only_list" in fa[1]:
                try:
                    ex = ast.parse(fa[1], mode="eval").body
                except SyntaxError:
                    continue
                if cond_implies(ex, fa[2], goal, atom):
                    only.append(fa)
        k = key(f, st)[:90]
        if only:
            R.ok("C05.R2", f.short, k + " :: ONLY", loc(f, c), "dominated by the ONLY membership test")
        else:
            R.violation("C05.R2", f.short, k + " :: ONLY", loc(f, c), "the used module is searched without consulting the ONLY list: names not imported are found")
        name_arg = c.args[1] if len(c.args) > 1 else None
        v = name_arg
        if isinstance(v, ast.Name):
            rd = [x for x in reaching_defs(ctx, f, c, v.id) if x is not None and x != "param"]
            v = rd[0] if len(rd) == 1 else v
        renamed = isinstance(v, ast.Call) and isinstance(v.func, ast.Attribute) and v.func.attr == "get" and "rename_map" in unparse(v.func.value)
        if renamed:
            R.ok("C05.R2", f.short, k + " :: rename", loc(f, c), "the remote name is taken from the rename map")
        else:
            R.violation("C05.R2", f.short, k + " :: rename", loc(f, c), f"the used module is searched for `{unparse(name_arg)}`, the local spelling: `use m, only: local => remote` never resolves")


def r3(ctx, R):
    R.rule("C05.R3", "search order: own scope, then INCLUDE/USE, then the host, then submodule ancestors", floor=1, confirmed=1)
    f = lookup_func(ctx)
    pos = {}
    for st in f.node.body:
        txt = unparse(st)
        for c in calls_in(st):
            k_, tg = ctx.r.resolve_call(f, c)
            if k_ == "nested" and c.args and isinstance(c.args[0], ast.Name) and c.args[0].id == f.params[0] and "local" not in pos:
                pos["local"] = st.lineno
            if isinstance(c.func, ast.Name) and c.func.id == "get_use_tree" and "use" not in pos:
                pos["use"] = st.lineno
            if f.qual in tg and c.args and "parent" in unparse(c.args[0]) and "host" not in pos:
                pos["host"] = st.lineno
            if isinstance(c.func, ast.Attribute) and c.func.attr == "get_ancestors" and "ancestors" not in pos:
                pos["ancestors"] = st.lineno
        if "include_statements" in txt and "include" not in pos and isinstance(st, ast.If):
            pos["include"] = st.lineno
    order = ["local", "include", "use", "host", "ancestors"]
    have = [o for o in order if o in pos]
    if len(have) < 4:
        R.undecided("C05.R3", f.short, "search stages", loc(f, f.node), f"found only {have}")
        return
    ok = [pos[o] for o in have] == sorted(pos[o] for o in have)
    # the local stage returns early
    local_ret = any(isinstance(st, ast.If) and pos["local"] <= st.lineno <= pos["local"] + 3 and any(isinstance(x, ast.Return) for x in ast.walk(st)) for st in f.node.body)
    if ok and local_ret:
        R.ok("C05.R3", f.short, "stage order " + " < ".join(have), loc(f, f.node), str({o: pos[o] for o in have}))
    else:
        R.violation("C05.R3", f.short, "stage order " + " < ".join(have), loc(f, f.node), f"stages run in the order {sorted(have, key=lambda o: pos[o])}: a host or USE-associated declaration wins over a local one")


def r4(ctx, R):
    R.rule("C05.R4", "USE traversal is cycle-cut; derived types expose inherited members, transitively (parent resolved first, its full member list copied)", floor=4, confirmed=4)
    # cycle cut = C20.R1 instance on get_use_tree
    from .c20 import call_guard, LinkFields

    g = ctx.m.fn("get_use_tree")
    rec = [c for c in calls_in(g.node) if g.qual in ctx.r.resolve_call(g, c)[1]]
    LF = None
    for c in rec:
        gd = call_guard(ctx, g, c, LF)
        st = ctx.m.enclosing_stmt(c)
        if gd:
            R.ok("C05.R4", g.short, key(g, st)[:90], loc(g, c), gd)
        else:
            R.violation("C05.R4", g.short, key(g, st)[:90], loc(g, c), "transitive USE traversal without a visited test: modules that USE each other never finish resolving")
    t = ctx.m.cname.get("Type")
    gc = ctx.m.classes[t].methods.get("get_children") if t else None
    if gc:
        h = ctx.m.funcs[gc]
        if any("in_children" in unparse(n) for n in ctx.m.walk_own(h.node)):
            R.ok("C05.R4", h.short, "inherited members included", loc(h, h.node))
        else:
            R.violation("C05.R4", h.short, "inherited members included", loc(h, h.node), "Type.get_children omits the components inherited through EXTENDS: a%inherited_component does not resolve")
    from .shared import inherited_member_sites

    for f, node, ok, what, why in inherited_member_sites(ctx):
        if ok:
            R.ok("C05.R4", f.short, what, loc(f, node))
        else:
            R.violation("C05.R4", f.short, what, loc(f, node), why)


def r5(ctx, R):
    from . import linebase

    funcs = {ctx.m.fn("LangServer.get_definition").qual, ctx.m.fn("LangServer._create_ref_link").qual, ctx.m.fn("LangServer.serve_definition").qual}
    linebase.check(ctx, R, "C05.R5", funcs, "line bases on the definition path: request line + 1 into the scope look-ups, entity line - 1 into the answer", floor=3)


def _slice_values(ctx, f, e, at, depth=0, seen=None):
    """Expressions in the backward slice of e at statement `at`: e itself, the
    reaching definitions of its locals, and - for a field of `self` - every
    value any method of the class (or its bases) stores into that field."""
    seen = seen if seen is not None else set()
    out = [e]
    if depth > 5:
        return out
    for x in ast.walk(e):
        if isinstance(x, ast.Name) and isinstance(x.ctx, ast.Load):
            for d in reaching_def_nodes(ctx, f, at, x.id):
                if d == "param" or id(d) in seen:
                    continue
                seen.add(id(d))
                val = d.iter if isinstance(d, ast.For) else getattr(d, "value", None)
                if val is not None:
                    out += _slice_values(ctx, f, val, d, depth + 1, seen)
        elif isinstance(x, ast.Attribute) and isinstance(x.value, ast.Name) and x.value.id == "self" and f.cls:
            # `self` may be an instance of a subclass: its stores into the field count as well
            def runs_f(c_):
                q_ = ctx.m.method(c_, f.name)
                if q_ == f.qual:
                    return True  # inherited as is
                g_ = ctx.m.funcs.get(q_)
                return g_ is not None and any(isinstance(c2.func, ast.Attribute) and c2.func.attr == f.name and isinstance(c2.func.value, ast.Call) and isinstance(c2.func.value.func, ast.Name) and c2.func.value.func.id == "super" for c2 in calls_in(g_.node))

            for cq in list(ctx.m.mro(f.cls)) + [c_ for c_ in ctx.m.cone(f.cls) if c_ != f.cls and runs_f(c_)]:
                fld = ctx.m.classes[cq].fields.get(x.attr)
                if not fld:
                    continue
                for fq, val, st in fld.assigns:
                    if val is None or id(st) in seen:
                        continue
                    seen.add(id(st))
                    g = ctx.m.funcs.get(fq)
                    if g is not None:
                        out += _slice_values(ctx, g, val, st, depth + 1, seen)
    return out


def r6(ctx, R, rule="C05.R6"):
    """Type-spec names are not component names.  `type(t) :: x`, `procedure(p) ::
    b` and a type-bound `procedure :: b` inside `type :: s ... end type` name
    entities of the scope that *contains* the type definition; the members of s
    (own and inherited) form a separate name space."""
    from .scopekind import ScopeKinds

    R.rule(rule, "a name taken from a declaration's type-spec is looked up starting outside the enclosing derived type, never among that type's members", floor=1, confirmed=2)
    lf = lookup_func(ctx)
    obj = ctx.m.cname.get("FortranObj")
    cone = set(ctx.m.cone(obj)) if obj else set()
    if not cone:
        raise AnalysisError("FortranObj class cone not found")
    n = 0
    for f in ctx.m.funcs.values():
        if f.cls not in cone:
            continue
        own = [c for c in calls_in(f.node) if ctx.m.enclosing_func(c) is f and isinstance(c.func, ast.Name) and lf.qual in ctx.r.resolve_call(f, c)[1] and len(c.args) >= 2]
        if not own:
            continue
        ids = {id(c) for c in own}
        SK = None
        for c in own:
            st = ctx.m.enclosing_stmt(c)
            vals = _slice_values(ctx, f, c.args[1], st)
            spec = any(isinstance(v, ast.Call) and isinstance(v.func, ast.Name) and v.func.id == "get_paren_substring" for e in vals for v in ast.walk(e))
            # `TYPE(name)` / `REAL(kind)`: the parenthesised word of the declaration pattern is a type name or a kind name
            kind_or_type = not spec and any(isinstance(v, ast.Attribute) and v.attr == "DEF_KIND" for e in vals for v in ast.walk(e))
            if not spec and not kind_or_type:
                continue
            if SK is None:
                SK = ScopeKinds(f.node, want=lambda call: id(call) in ids)
            rec = [r_ for r_ in SK.calls if r_[0] is c]
            if not rec:
                R.undecided(rule, f.short, key(f, st)[:100], loc(f, c), "call not reached by the scope-kind walk")
                continue
            n += 1
            _, kinds, env = rec[0]
            sp = env.canon(access_path(c.args[0]) or "?")
            roots = {access_path(v) or "" for v in _slice_values(ctx, f, c.args[0], st)}
            if not sp.startswith("self.parent") and not any(r_.startswith("self.parent") for r_ in roots):
                R.undecided(rule, f.short, key(f, st)[:100], loc(f, c), f"search starts at `{sp}`, not at the entity's own parent chain")
            elif kinds[0] != "N" and kind_or_type:
                # a kind name may be a parameter of the enclosing parameterised type, a type name never is a component:
                # the step to the type's host has to exist, under the class test, for the type-name case
                sv = c.args[0].id if isinstance(c.args[0], ast.Name) else None
                hop = None
                for iff in (x for x in ctx.m.walk_own(f.node) if isinstance(x, ast.If) and x.lineno < c.lineno):
                    if "CLASS_TYPE_ID" not in unparse(iff.test):
                        continue
                    for s2 in iff.body:
                        if isinstance(s2, ast.Assign) and len(s2.targets) == 1 and isinstance(s2.targets[0], ast.Name) and s2.targets[0].id == sv and isinstance(s2.value, ast.Attribute) and s2.value.attr == "parent":
                            hop = iff
                if hop is not None:
                    R.ok(rule, f.short, key(f, st)[:100], loc(f, c), f"type names are looked up from the host of the enclosing derived type (step under `{unparse(hop.test)[:70]}`)")
                else:
                    R.violation(rule, f.short, key(f, st)[:100], loc(f, c), f"`{unparse(c.args[1])}` is the parenthesised word of the declaration (for TYPE(..)/CLASS(..) a type name) and the search starts at `{unparse(c.args[0])}`, which may be the enclosing derived type, with no step to its host for the type-name case: `type(vec) :: vec` inside a derived type finds the component instead of the type, so a type that is defined elsewhere but not imported goes unreported for every component of that type")
            elif kinds[0] == "N":
                R.ok(rule, f.short, key(f, st)[:100], loc(f, c), f"`{unparse(c.args[0])}` is not a derived-type definition here (class test / hop to its parent on every path)")
            else:
                R.violation(rule, f.short, key(f, st)[:100], loc(f, c), f"`{unparse(c.args[1])}` comes from the declaration's type-spec, and the search starts at `{unparse(c.args[0])}`, which may be the enclosing derived type: for a component or binding the name is then looked up among the type's own and inherited members first, so `type(vec) :: vec`, a binding named like its procedure, or a component named like the type of a sibling resolves to the member instead of the entity in the host scope")
    if n == 0:
        raise AnalysisError("C05.R6: no look-up of a type-spec name from an entity's parent found")


def r7(ctx, R, rule="C05.R7"):
    """`use m, only:` imports nothing; `use m` imports everything.  Every consumer
    (find_in_scope, get_use_tree, completion) reads an *empty* ONLY collection as
    "no ONLY clause", so the reader must record something for every item of a
    present ONLY list - also for a blank one.  A filter in the loop that fills the
    collection makes the two statements indistinguishable."""
    R.rule(rule, "the USE reader records an entry for every item of a present ONLY list (no filter between the split and the add): an empty ONLY list must not look like an absent one", floor=1, confirmed=1)
    use_cls = ctx.m.cname.get("Use")
    n = 0
    for f in sorted(ctx.m.funcs.values(), key=lambda g: g.qual):
        if not f.rel.startswith("fortls/parsers/"):
            continue
        for c in calls_in(f.node):
            if ctx.m.enclosing_func(c) is not f or not (isinstance(c.func, ast.Name) and ctx.m.resolve_class_name(f.rel, c.func.id) == use_cls):
                continue
            only = c.args[1] if len(c.args) > 1 else next((kw.value for kw in c.keywords if kw.arg == "only_list"), None)
            if not isinstance(only, ast.Name):
                continue
            # how is the collection filled?
            fills = [x for x in ctx.m.walk_own(f.node) if isinstance(x, ast.Call) and isinstance(x.func, ast.Attribute) and x.func.attr in ("add", "append") and isinstance(x.func.value, ast.Name) and x.func.value.id == only.id]
            comps = [v for _, v in defs_of_local(ctx, f, only.id) if isinstance(v, (ast.SetComp, ast.ListComp)) or (isinstance(v, ast.Call) and v.args and isinstance(v.args[0], (ast.GeneratorExp, ast.ListComp, ast.SetComp)))]
            if not fills and not comps:
                continue
            n += 1
            for x in fills:
                lp = ctx.m.parent.get(x)
                path = [x]
                while lp is not None and not isinstance(lp, (ast.For, ast.While)):
                    path.append(lp)
                    lp = ctx.m.parent.get(lp)
                k = key(f, ctx.m.enclosing_stmt(x))[:90]
                if lp is None:
                    R.undecided(rule, f.short, k, loc(f, x), "the ONLY collection is not filled in a loop")
                    continue
                st = path[-1]  # the direct child of the loop body that holds the add
                cond = any(isinstance(p_, (ast.If, ast.Try)) for p_ in path[1:])
                idx = lp.body.index(st) if st in lp.body else -1
                early = [s_ for s_ in lp.body[: max(idx, 0)] if any(isinstance(y, (ast.Continue, ast.Break)) for y in ast.walk(s_))]
                if cond or early:
                    R.violation(rule, f.short, k, loc(f, early[0] if early else x), "an item of the ONLY list can be skipped before it is recorded: for `use m, only:` (or a list of blanks) the collection stays empty, and every consumer reads an empty ONLY collection as 'no ONLY clause' - the whole module becomes accessible where nothing of it should be")
                else:
                    R.ok(rule, f.short, k, loc(f, x), "every split item is recorded")
            for v in comps:
                comp = v if isinstance(v, (ast.SetComp, ast.ListComp)) else v.args[0]
                k = key(f, ctx.m.enclosing_stmt(comp))[:90]
                if any(g_.ifs for g_ in comp.generators):
                    R.violation(rule, f.short, k, loc(f, comp), "the ONLY collection is built with a filter: an empty ONLY list becomes indistinguishable from an absent one")
                else:
                    R.ok(rule, f.short, k, loc(f, comp), "every split item is recorded")
    if n == 0:
        raise AnalysisError(f"{rule}: no reader that builds a Use record from an ONLY list found")


def defs_of_local(ctx, f, name):
    from .shared import defs_of

    return defs_of(ctx, f, name)


def run(ctx, R):
    r1(ctx, R)
    r2(ctx, R)
    r3(ctx, R)
    r4(ctx, R)
    r5(ctx, R)
    r6(ctx, R)
    r7(ctx, R)
