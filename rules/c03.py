"""C03 — indexing is total and terminates on every document text
(DESIGN.md 3/C03): the four mechanisms by which half-typed input kills this
parser, each a necessary condition."""
from __future__ import annotations

import ast

from sa import rex
from sa.model import AnalysisError, access_path, unparse

from .shared import calls_in, defs_of, deref, key, loc, reaching_defs


def ast_class(ctx):
    hits = [c for c in ctx.m.classes.values() if "scope_stack" in c.fields and "current_scope" in c.fields]
    if len(hits) != 1:
        raise AnalysisError("parser-state class (scope_stack + current_scope) not found")
    return hits[0]


def indexing_funcs(ctx):
    """Functions reachable from the document parse entry (FortranFile.parse),
    plus its helpers in the same modules."""
    roots = [f.qual for f in ctx.m.funcs.values() if f.name in ("parse", "preprocess") and f.cls and "contents_split" in ctx.m.classes[f.cls].fields]
    if not roots:
        raise AnalysisError("document parse entry not found")
    return ctx.r.reachable(roots)


# ------------------------------------------------------------------- R1
def lockstep(ctx, ac, a, b):
    """Are fields a and b of the parser-state class written in exactly the same
    methods (push/pop twins)?"""
    wa = {q for q, v, _ in ac.fields[a].assigns if q}
    wb = {q for q, v, _ in ac.fields[b].assigns if q}
    return wa == wb and len(wa) >= 2


_FCACHE = {}


def r1(ctx, R):
    _FCACHE.clear()
    R.rule("C03.R1", "parser state that is None outside any construct is never dereferenced without a dominating non-None fact", floor=12, confirmed=20)
    ac = ast_class(ctx)
    nullable = {n for n, fl in ac.fields.items() if fl.nullable}
    twins = {}
    if "current_scope" in nullable and "end_scope_regex" in nullable and lockstep(ctx, ac, "current_scope", "end_scope_regex"):
        twins = {"current_scope": "end_scope_regex", "end_scope_regex": "current_scope"}
    R.notes.append(f"C03.R1: nullable parser-state fields {sorted(nullable)}; lock-step twins {twins}")
    reach = indexing_funcs(ctx)

    def is_state(f, base):
        ks = ctx.r.expr_classes(f, base)
        return bool(ks) and ac.qual in ks

    def has_fact(f, node, path, depth=0, seen=()):
        """nonnull(path) at node, directly, via twin, or (helpers) at every call site."""
        F = ctx.facts(f)
        facts = F.at(node)
        if facts is None:
            return True, "unreachable"
        if ("nonnull", path) in facts:
            return True, "dominating non-None fact"
        for fa in facts:
            # local alias of the field, tested instead of the field itself
            if fa[0] == "bind" and fa[2] == path and ("nonnull", fa[1]) in facts:
                return True, f"non-None fact on its alias `{fa[1]}`"
        base, fld = path.rsplit(".", 1)
        if fld in twins and ("nonnull", f"{base}.{twins[fld]}") in facts:
            return True, f"non-None twin {twins[fld]} (written in lock-step)"
        # caller-side obligation: base is the function's own parameter / self and the
        # function does not re-bind it nor write the field before this point
        root = base.split(".")[0]
        if depth < 2 and root in f.params and base == root and f.qual not in seen:
            # the field must not have been assigned between entry and node on some path
            cfg = ctx.cfg(f)
            n0 = cfg.node_of(node)
            entry_facts_needed = True
            callers = ctx.r.callers(f.qual)
            callers = [(g, c, k) for g, c, k in callers if not g.rel.endswith("debug.py")]
            if not callers:
                return False, "no dominating fact and no caller to discharge it"
            from sa.cfg import Facts

            def callee_facts(init):
                kk = (f.qual, frozenset(init))
                if kk not in _FCACHE:
                    _FCACHE[kk] = Facts(cfg, call_info=ctx.call_info(f), is_class=lambda nm: nm in ctx.m.cname, init=frozenset(init))
                return _FCACHE[kk]

            def const_bindings(c, k):
                """truthy/falsy facts for the callee's parameters bound to constants at this call"""
                out = set()
                args = f.node.args
                pos = args.posonlyargs + args.args
                defaults = dict(zip([p_.arg for p_ in pos][len(pos) - len(args.defaults):], args.defaults))
                defaults.update({p_.arg: d for p_, d in zip(args.kwonlyargs, args.kw_defaults) if d is not None})
                for pn in f.params:
                    v = ctx.e._actual(c, k, f, pn)
                    if v is None:
                        v = defaults.get(pn)
                    if isinstance(v, ast.Constant) and isinstance(v.value, (bool, int)):
                        out.add(("truthy", pn) if v.value else ("falsy", pn))
                return out

            for g, c, k in callers:
                cb = const_bindings(c, k)
                if ("nonnull", path) in (callee_facts(cb).at(node) or set()):
                    continue  # guarded inside the callee for this kind of call
                if ("nonnull", path) not in (callee_facts(cb | {("nonnull", path)}).at(node) or set()):
                    return False, "the field is re-assigned before the dereference"
                a = None
                if f.cls and root == f.params[0] and isinstance(c.func, ast.Attribute):
                    a = c.func.value
                else:
                    a = ctx.e._actual(c, k, f, root)
                p2 = access_path(a) if a is not None else None
                if p2 is None:
                    return False, f"caller {g.short} passes an unnamed object"
                ok, why = has_fact(g, c, f"{p2}.{fld}", depth + 1, seen + (f.qual,))
                if not ok:
                    return False, f"call site in {g.short} (line {c.lineno}) has no such fact: {why}"
            return True, f"established at all {len(callers)} call site(s)"
        return False, "no dominating non-None fact"

    for q in sorted(reach | {m for m in ac.methods.values()}):
        f = ctx.m.funcs[q]
        if f.rel.endswith("debug.py"):
            continue
        seen_nodes = set()
        for n in ctx.m.walk_own(f.node):
            if not (isinstance(n, ast.Attribute) and isinstance(n.value, ast.Attribute) and n.value.attr in nullable and isinstance(n.ctx, ast.Load)):
                continue
            inner = n.value
            if not is_state(f, inner.value):
                continue
            path = access_path(inner)
            if path is None:
                continue
            st = ctx.m.enclosing_stmt(n)
            k = f"{unparse(n)} in {key(f, st)[:90]}"
            if (path, n.attr, id(st)) in seen_nodes:
                continue
            seen_nodes.add((path, n.attr, id(st)))
            ok, why = has_fact(f, n, path)
            # try/except absorbing AttributeError is an accepted idiom
            if not ok:
                from .shared import absorbs

                if absorbs(ctx, n, "AttributeError"):
                    ok, why = True, "enclosed in a try absorbing AttributeError"
            if ok:
                R.ok("C03.R1", f.short, k, loc(f, n), why)
            else:
                R.violation("C03.R1", f.short, k, loc(f, n), f"`{path}` is None outside any construct and is dereferenced here ({why}): a statement of this kind as the first line of a file raises AttributeError and the file is refused")




# ------------------------------------------------------------------- R2
def _const_index(e):
    if isinstance(e, ast.Constant) and isinstance(e.value, int) and not isinstance(e.value, bool):
        return e.value
    if isinstance(e, ast.UnaryOp) and isinstance(e.op, ast.USub) and isinstance(e.operand, ast.Constant) and isinstance(e.operand.value, int):
        return -e.operand.value
    return None


def _pattern_of_match_call(ctx, f, call):
    """Rx object of `P.match(s)` / `re.match(P, s)` where P is a known pattern."""
    if not isinstance(call, ast.Call):
        return None, None
    if isinstance(call.func, ast.Attribute) and call.func.attr in ("match", "search", "fullmatch"):
        nm = ctx.p.fregex_ref(f.rel, call.func.value)
        if nm and call.args:
            return ctx.p.named[nm], call.args[0]
        # local / attribute holding one of several named patterns: weakest min width
        for rx_ in ctx.p.inline:
            if rx_.node is call.func.value and call.args:
                return rx_, call.args[0]
    return None, None


def nonempty_evidence(ctx, f, node, e, need=1):
    """Reason why expression e (a str/list) has at least |index|+... elements at
    `node`, or None."""
    F = ctx.facts(f)
    facts = F.at(node)
    if facts is None:
        return "unreachable"
    k = unparse(e)
    for fa in facts:
        if fa[0] == "lenge" and fa[1] == k and fa[2] >= need:
            return f"len >= {fa[2]}"
    if need > 1:
        return None
    if ("nonempty", k) in facts or ("truthy", k) in facts:
        return "dominating non-emptiness test"
    for fa in facts:
        if fa[0] == "ne" and fa[1] == k and fa[2] in ("''", '""'):
            return "tested against ''"
    # X.strip()/rstrip()/lstrip(): non-empty when X matched a pattern that
    # requires a non-blank character
    inner = None
    if isinstance(e, ast.Call) and isinstance(e.func, ast.Attribute) and e.func.attr in ("strip", "rstrip", "lstrip") and not e.args:
        inner = unparse(e.func.value)
    for fa in facts:
        cands = []
        if fa[0] == "truthy":
            for fb in facts:
                if fb[0] == "bind" and fb[1] == fa[1]:
                    cands.append(fb[2])
        if fa[0] == "cond" and fa[2] is True:
            cands.append(fa[1])
        if fa[0] == "nonnull":
            for fb in facts:
                if fb[0] == "bind" and fb[1] == fa[1]:
                    cands.append(fb[2])
        for txt in cands:
            try:
                ce = ast.parse(txt, mode="eval").body
            except SyntaxError:
                continue
            rx_, arg = _pattern_of_match_call(ctx, f, ce)
            if rx_ is None or rx_.tree is None or arg is None:
                continue
            if inner is not None and unparse(arg) == inner and rex.mandatory_nonspace(rx_.tree):
                return f"{inner} matched {rx_.name}, which requires a non-blank character"
            if unparse(arg) == k and rex.min_width(rx_.tree) >= 1:
                return f"successful match of {rx_.name} (min width {rex.min_width(rx_.tree)})"
    # a successful match of a pattern of min width >= 1 on the same variable
    for fa in facts:
        if fa[0] == "truthy":
            # truthy(m) with bind(m, "P.match(e)")
            for fb in facts:
                if fb[0] == "bind" and fb[1] == fa[1]:
                    try:
                        ce = ast.parse(fb[2], mode="eval").body
                    except SyntaxError:
                        continue
                    rx_, arg = _pattern_of_match_call(ctx, f, ce)
                    if rx_ is not None and rx_.tree is not None and unparse(arg) == k and rex.min_width(rx_.tree) >= 1:
                        return f"successful match of {rx_.name} (min width {rex.min_width(rx_.tree)})"
        if fa[0] == "cond" and fa[2] is True:
            try:
                ce = ast.parse(fa[1], mode="eval").body
            except SyntaxError:
                continue
            rx_, arg = _pattern_of_match_call(ctx, f, ce)
            if rx_ is not None and rx_.tree is not None and unparse(arg) == k and rex.min_width(rx_.tree) >= 1:
                return f"successful match of {rx_.name}"
            # s.find(sep) > -1 / sep in s  => s nonempty
            if isinstance(ce, ast.Compare) and isinstance(ce.ops[0], ast.In) and unparse(ce.comparators[0]) == k and isinstance(ce.left, ast.Constant) and ce.left.value:
                return "contains a non-empty literal"
            if isinstance(ce, ast.Call) and isinstance(ce.func, ast.Attribute) and ce.func.attr in ("startswith", "endswith") and unparse(ce.func.value) == k and ce.args and isinstance(ce.args[0], ast.Constant) and ce.args[0].value:
                return "starts/ends with a non-empty literal"
        if fa[0] == "ge0":
            try:
                ce = ast.parse(fa[1], mode="eval").body
            except SyntaxError:
                continue
            if isinstance(ce, ast.Call) and isinstance(ce.func, ast.Attribute) and ce.func.attr in ("find", "rfind", "index") and unparse(ce.func.value) == k:
                return "find() >= 0"
    return None


def r2(ctx, R):
    R.rule("C03.R2", "constant end-subscripts (x[0], x[-1], x[k]) on text that may be empty are dominated by a non-emptiness fact", floor=8, confirmed=14)
    reach = indexing_funcs(ctx)
    for q in sorted(reach):
        f = ctx.m.funcs[q]
        if f.rel.endswith("debug.py"):
            continue
        for n in ctx.m.walk_own(f.node):
            if not (isinstance(n, ast.Subscript) and isinstance(n.ctx, ast.Load)):
                continue
            idx = _const_index(n.slice)
            if idx is None:
                continue
            v = n.value
            kind = ctx.r.expr_builtin(f, v)
            ks = ctx.r.expr_classes(f, v)
            if ks or kind not in ("str", "list"):
                continue
            # split(sep)[0] is always defined
            if isinstance(v, ast.Call) and isinstance(v.func, ast.Attribute) and v.func.attr in ("split", "rsplit", "partition", "rpartition", "splitlines"):
                if v.func.attr in ("split", "rsplit") and idx in (0, -1) and (v.args or True):
                    # "".split() (no separator) is [] ; with a separator there is always one field
                    if v.args:
                        continue
                if v.func.attr in ("partition", "rpartition"):
                    continue
            # tuples / fixed-size displays
            vv = deref(ctx, f, v, 1) if isinstance(v, ast.Name) else v
            if isinstance(vv, (ast.List, ast.Tuple)) and len(vv.elts) > (idx if idx >= 0 else -idx - 1):
                continue
            st = ctx.m.enclosing_stmt(n)
            k = f"{unparse(n)} in {key(f, st)[:80]}"
            need = idx + 1 if idx >= 0 else -idx
            why = nonempty_evidence(ctx, f, n, v, need)
            if why is None and isinstance(v, ast.Name):
                # split result indexed beyond 0: len(x) test
                F = ctx.facts(f)
                for fa in F.at(n) or ():
                    if fa[0] == "lenge" and fa[1] == v.id and fa[2] >= need:
                        why = f"len >= {fa[2]}"
                # bound to S.split(SEP): >= 1 field; >= 2 when SEP is known to occur in S
                # or the length has been tested to differ from 1
                if why is None and need == 2:
                    rd = [x for x in reaching_defs(ctx, f, n, v.id)]
                    if rd and all(x is not None and x != "param" and isinstance(x, ast.Call) and isinstance(x.func, ast.Attribute) and x.func.attr == "split" and len(x.args) == 1 for x in rd):
                        F = ctx.facts(f)
                        fs = F.at(n) or set()
                        for x in rd:
                            S, SEP = unparse(x.func.value), unparse(x.args[0])
                            occurs = any((fa[0] == "ge0" and fa[1] == f"{S}.find({SEP})") or (fa[0] == "cond" and fa[2] is True and fa[1] in (f"{S}.find({SEP}) > -1", f"{S}.find({SEP}) >= 0", f"{SEP} in {S}", f"{S}.count({SEP}) > 0")) for fa in fs)
                            longer = any(fa[0] == "cond" and ((fa[1] == f"len({v.id}) == 1" and fa[2] is False) or (fa[1] in (f"len({v.id}) > 1", f"len({v.id}) >= 2", f"len({v.id}) == 2") and fa[2] is True) or (fa[1] == f"len({v.id}) != 1" and fa[2] is True)) for fa in fs)
                            if occurs:
                                why = f"separator {SEP} occurs in the split string: >= 2 fields"
                            elif longer:
                                why = "split result tested to have more than one field"
                            else:
                                why = None
                                break
                # value bound to split(sep): element 0 exists
                if why is None and need == 1:
                    rd = [x for x in reaching_defs(ctx, f, n, v.id)]
                    if rd and all(isinstance(x, ast.Call) and isinstance(x.func, ast.Attribute) and x.func.attr in ("split", "rsplit") and x.args for x in rd if x is not None and x != "param") and all(x is not None and x != "param" for x in rd):
                        why = "bound to split(sep): at least one field"
                    if rd and all(isinstance(x, (ast.List, ast.Tuple)) and len(x.elts) >= need for x in rd if x is not None and x != "param") and all(x is not None and x != "param" for x in rd):
                        why = "bound to a non-empty display"
            if why is None:
                from .shared import absorbs

                if absorbs(ctx, n, "IndexError"):
                    why = "enclosed in a try absorbing IndexError"
            if why:
                R.ok("C03.R2", f.short, k, loc(f, n), why)
            else:
                what = "string" if kind == "str" else "list"
                R.violation("C03.R2", f.short, k, loc(f, n), f"`{unparse(v)}` can be an empty {what} for some document text (empty line, truncated statement) and is indexed with [{idx}]: IndexError aborts indexing of the file")



# ------------------------------------------------------------------- R3
def pattern_holes(ctx):
    """[(Rx, Hole)] for inline patterns with interpolated parts (whole-pattern
    references to compiled FRegex patterns are not holes)."""
    out = []
    for rx_ in ctx.p.inline:
        if rx_.rel.endswith("debug.py"):
            continue
        for h in rx_.holes:
            if len(rx_.template) == 1 and ctx.p.fregex_ref(rx_.rel, h.expr):
                continue
            out.append((rx_, h))
    return out


def replacement_sinks(ctx):
    """[(func, call, replacement expr)] for every sub/subn in the package."""
    out = []
    for f in ctx.m.funcs.values():
        if f.rel.endswith("debug.py"):
            continue
        for c in calls_in(f.node):
            if ctx.m.enclosing_func(c) is not f:
                continue
            d = ctx.m.dotted(f.rel, c.func) if isinstance(c.func, (ast.Name, ast.Attribute)) else None
            if d in ("re.sub", "re.subn") and len(c.args) >= 2:
                out.append((f, c, c.args[1]))
            elif isinstance(c.func, ast.Attribute) and c.func.attr in ("sub", "subn") and len(c.args) >= 2 and not ctx.r.expr_classes(f, c.func.value):
                b = ctx.r.expr_builtin(f, c.func.value)
                if b in ("pattern", None) and d not in ("re.sub", "re.subn"):
                    out.append((f, c, c.args[0]))
    return out


def r3(ctx, R):
    from .taint import CALLABLE, CONST, SAN, TAINT, WORD, Taint

    R.rule("C03.R3", "text from documents/options never becomes regex syntax: pattern holes are escaped or word-only, replacement templates are constant, callable or backslash-escaped; no pattern can backtrack catastrophically", floor=20, confirmed=110)
    tp = Taint(ctx, "pattern")
    for rx_, h in pattern_holes(ctx):
        f = rx_.func
        if f is None:
            continue
        st = ctx.m.enclosing_stmt(rx_.node)
        cls = tp.of(f, h.expr, rx_.node)
        k = f"hole {{{unparse(h.expr)}}} in {key(f, st)[:80]}"
        if cls in (SAN, WORD, CONST):
            R.ok("C03.R3", f.short, k, loc(f, rx_.node), f"hole is {cls}")
        else:
            R.violation("C03.R3", f.short, k, loc(f, rx_.node), f"`{unparse(h.expr)}` (text taken from a document or an option) is spliced into a pattern without re.escape: a '(' or '[' in it raises re.error, '+' or '.' silently changes what is matched")
    tt = Taint(ctx, "template")
    for f, c, rep in replacement_sinks(ctx):
        st = ctx.m.enclosing_stmt(c)
        cls = tt.of(f, rep, c)
        k = f"replacement {unparse(rep)} in {key(f, st)[:80]}"
        if cls in (CONST, CALLABLE, SAN):
            R.ok("C03.R3", f.short, k, loc(f, c), f"replacement is {cls}")
        else:
            R.violation("C03.R3", f.short, k, loc(f, c), f"`{unparse(rep)}` (text taken from a document) is used as a replacement *template*: a backslash in it is read as an escape or group reference (re.error: bad escape, or text silently altered)")
    for rx_ in ctx.p.all():
        if rx_.rel.endswith("debug.py"):
            continue
        where = rx_.func.short if rx_.func else rx_.rel
        if rx_.tree is None:
            if rx_.holes:
                continue
            R.violation("C03.R3", where, f"pattern {rx_.name}", loc(rx_.rel, rx_.node), f"pattern does not compile: {rx_.error}")
            continue
        amb = rex.ambiguous_nested_repeats(rx_.tree, rx_.ignorecase)
        k = f"pattern {rx_.name if rx_.name in ctx.p.named else rx_.text[:50]!r}"
        if amb:
            R.violation("C03.R3", where, k, loc(rx_.rel, rx_.node), f"{amb[0]}: matching time grows exponentially on a long run of such characters")
        else:
            R.ok("C03.R3", where, k, loc(rx_.rel, rx_.node), "no ambiguous nested repetition")



# ------------------------------------------------------------------- R4
def _names(e):
    out = set()
    for n in ast.walk(e):
        p = access_path(n) if isinstance(n, (ast.Name, ast.Attribute)) else None
        if p:
            out.add(p)
    return out


def _match_minwidth(ctx, f, mvar, at):
    """min width of the pattern whose match object local `mvar` holds (worst over
    reaching definitions), or None when unknown."""
    worst = None
    for v in reaching_defs(ctx, f, at, mvar):
        if v is None or v == "param":
            return None
        rx_, arg = _pattern_of_match_call(ctx, f, v)
        if rx_ is None or rx_.tree is None:
            return None
        w = rex.min_width(rx_.tree)
        worst = w if worst is None else min(worst, w)
    return worst


def r4(ctx, R):
    R.rule("C03.R4", "every while loop of the indexing code makes progress on every iteration (counter step, shrinking text, pop, visited set)", floor=8, confirmed=11)
    for q, f in sorted(ctx.m.funcs.items()):
        if not (f.rel.startswith("fortls/parsers/") or f.rel.endswith("helper_functions.py")):
            continue
        cfg = None
        for lp in (n for n in ctx.m.walk_own(f.node) if isinstance(n, ast.While)):
            cfg = cfg or ctx.cfg(f)
            head = next(n for n in cfg.nodes if n.kind == "loophead" and n.ast is lp)
            body_nodes = set()
            # nodes of the loop: reachable from head's successors without passing head, and that can reach head
            fwd = cfg.reachable_without([t for t, _ in head.succs], {head.id}, follow_exc=False)
            back = set()
            stack = [p for p, lab in head.preds]
            while stack:
                i = stack.pop()
                if i in back or i == head.id:
                    continue
                back.add(i)
                stack.extend(p for p, lab in cfg.nodes[i].preds if not (lab and lab[0] == "exc"))
            inside = {id(x) for st in lp.body for x in ast.walk(st)} | {id(x) for x in ast.walk(lp.test)}
            body_nodes = {i for i in (fwd & back) if cfg.nodes[i].ast is not None and id(cfg.nodes[i].ast) in inside}
            # test-related variables: the loop test + tests whose branch leaves the loop
            V = set(_names(lp.test))
            for i in body_nodes:
                n = cfg.nodes[i]
                if n.kind == "test":
                    if any(t not in body_nodes and t != head.id for t, lab in n.succs if not (lab and lab[0] == "exc")):
                        V |= _names(n.ast)
            for _ in range(3):
                for i in body_nodes:
                    a = cfg.nodes[i].ast
                    if cfg.nodes[i].kind == "stmt" and isinstance(a, ast.Assign):
                        tg = set()
                        for t in a.targets:
                            tg |= {access_path(x) for x in ast.walk(t) if isinstance(x, (ast.Name, ast.Attribute)) and isinstance(getattr(x, "ctx", None), ast.Store)}
                        if tg & V:
                            V |= _names(a.value)
            V.discard("self")
            progress = {}
            for i in body_nodes:
                n = cfg.nodes[i]
                a = n.ast
                if n.kind != "stmt" or a is None:
                    continue
                if isinstance(a, ast.AugAssign) and isinstance(a.op, (ast.Add, ast.Sub)) and access_path(a.target) in V:
                    c = a.value
                    if isinstance(c, ast.Constant) and isinstance(c.value, int) and c.value != 0:
                        progress[i] = f"{unparse(a)}"
                elif isinstance(a, ast.Assign) and len(a.targets) == 1 and access_path(a.targets[0]) in V and isinstance(a.value, ast.Subscript) and isinstance(a.value.slice, ast.Slice):
                    v, sl = a.value.value, a.value.slice
                    if access_path(v) == access_path(a.targets[0]) and sl.lower is not None and sl.upper is None:
                        k = sl.lower
                        why = None
                        if isinstance(k, ast.Constant) and isinstance(k.value, int) and k.value >= 1:
                            why = f"drops {k.value} leading character(s)"
                        elif isinstance(k, ast.BinOp) and isinstance(k.op, ast.Add) and isinstance(k.right, ast.Constant) and isinstance(k.right.value, int) and k.right.value >= 1:
                            why = "drops at least one leading character"
                        elif isinstance(k, ast.Call) and isinstance(k.func, ast.Attribute) and k.func.attr == "end" and isinstance(k.func.value, ast.Name):
                            w = _match_minwidth(ctx, f, k.func.value.id, a)
                            if w is not None and w >= 1:
                                why = f"drops the matched prefix (pattern min width {w})"
                        if why:
                            progress[i] = f"{unparse(a)}: {why}"
                if isinstance(a, ast.Assign) and len(a.targets) == 1 and isinstance(a.value, ast.IfExp) and access_path(a.targets[0]) in V:
                    # `X = stack.pop() if stack else None` under `while X is not None`: pops, or ends the loop
                    alts_ = [a.value.body, a.value.orelse]
                    is_pop_ = lambda x: isinstance(x, ast.Call) and isinstance(x.func, ast.Attribute) and x.func.attr in ("pop", "popleft") and not x.args
                    t_ = lp.test
                    ends_ = isinstance(t_, ast.Compare) and len(t_.ops) == 1 and isinstance(t_.ops[0], ast.IsNot) and isinstance(t_.comparators[0], ast.Constant) and t_.comparators[0].value is None and access_path(t_.left) == access_path(a.targets[0])
                    if any(is_pop_(x) for x in alts_) and all(is_pop_(x) or (ends_ and isinstance(x, ast.Constant) and x.value is None) for x in alts_):
                        progress[i] = f"{unparse(a)[:60]} pops the tested state or ends the loop"
                if isinstance(a, ast.Assign) and len(a.targets) == 1 and isinstance(a.value, ast.Constant) and a.value.value is None:
                    # `X = None` under `while X is not None`: the iteration that runs it is the last one
                    t_ = lp.test
                    if isinstance(t_, ast.Compare) and len(t_.ops) == 1 and isinstance(t_.ops[0], ast.IsNot) and isinstance(t_.comparators[0], ast.Constant) and t_.comparators[0].value is None and access_path(t_.left) and access_path(t_.left) == access_path(a.targets[0]):
                        progress[i] = f"{unparse(a)} makes the loop test false"
                for c in calls_in(a):
                    if isinstance(c.func, ast.Attribute) and c.func.attr in ("pop", "popleft", "remove") and access_path(c.func.value) in V:
                        progress[i] = f"{unparse(c)} shrinks the tested container"
                    if isinstance(c.func, ast.Attribute) and c.func.attr in ("add", "append") and c.args:
                        coll = access_path(c.func.value)
                        tested = any(isinstance(x, ast.Compare) and isinstance(x.ops[0], (ast.In, ast.NotIn)) and access_path(x.comparators[0]) == coll for x in ast.walk(lp))
                        if coll and tested:
                            progress[i] = f"visited collection `{coll}` grows and is tested"
                    k_, tg = ctx.r.resolve_call(f, c)
                    if k_ in ("typed", "super") and tg:
                        # callee re-assigns a tested attribute from a stack pop / None
                        tails = {p.split(".")[-1] for p in V if "." in p}
                        for t in tg:
                            g = ctx.m.funcs[t]
                            for st in ctx.m.walk_own(g.node):
                                if isinstance(st, ast.Assign) and isinstance(st.targets[0], ast.Attribute) and st.targets[0].attr in tails:
                                    v = st.value
                                    if isinstance(v, ast.Name):
                                        # through a local (an inlined setter's parameter): every definition of it counts
                                        from .shared import defs_of as _defs_of

                                        dvs = [dv for _, dv in _defs_of(ctx, g, v.id)]
                                        if dvs and all(dv is not None for dv in dvs):
                                            v = dvs[0] if len(dvs) == 1 else ast.Tuple(elts=dvs, ctx=ast.Load())
                                    alts = [v.body, v.orelse] if isinstance(v, ast.IfExp) else ([x_ for d_ in v.elts for x_ in ([d_.body, d_.orelse] if isinstance(d_, ast.IfExp) else [d_])] if isinstance(v, ast.Tuple) else [v])
                                    is_pop = lambda x: isinstance(x, ast.Call) and isinstance(x.func, ast.Attribute) and x.func.attr == "pop"
                                    if any(is_pop(x) for x in alts) and all(is_pop(x) or isinstance(x, ast.Constant) and x.value is None for x in alts):
                                        progress[i] = f"{unparse(c)} pops the tested state ({st.targets[0].attr})"
            # can the head be reached from itself without a progress node?
            blocked = set(progress)
            starts = [t for t, lab in head.succs if t in body_nodes]
            seen = cfg.reachable_without(starts, blocked | {head.id}, follow_exc=False)
            stuck = [i for i in seen if any(t == head.id for t, lab in cfg.nodes[i].succs if not (lab and lab[0] == "exc"))]
            stuck = [i for i in stuck if i in body_nodes] + ([] if starts or not any(t == head.id for t, _ in head.succs) else [head.id])
            k = f"while {unparse(lp.test)[:80]}"
            if not stuck:
                R.ok("C03.R4", f.short, k, loc(f, lp), "; ".join(sorted(set(progress.values())))[:200])
            else:
                n = cfg.nodes[stuck[0]]
                R.violation("C03.R4", f.short, k, loc(f, lp), f"an iteration can return to the loop test (via line {getattr(n.ast, 'lineno', lp.lineno)}) without a statement that makes progress on {sorted(V)[:5]}: the loop does not terminate for some document text")


# ------------------------------------------------------------------- R5
DIV_OPS = {"truediv", "floordiv", "mod", "divmod"}
BIG_OPS = {"pow", "lshift", "truediv", "mul"}


def _absorbed_upwards(ctx, f, node, exc, depth=0, seen=None):
    """exc raised at `node` of f is absorbed there, or at every call site of f
    (transitively; self-recursive calls do not count)"""
    from .shared import absorbs

    if absorbs(ctx, node, exc):
        return True
    if depth > 5:
        return False
    seen = seen or set()
    if f.qual in seen:
        return True
    if f.name in ("parse", "preprocess") and f.cls and "contents_split" in ctx.m.classes[f.cls].fields:
        return False  # the exception leaves the indexing code: a handler further out only reports "Error during parsing"
    seen = seen | {f.qual}
    sites = [(g, c) for g, c, k in ctx.r.callers(f.qual, by_name=False) if g.qual != f.qual and not g.rel.endswith("debug.py")]
    if not sites:
        return False
    return all(_absorbed_upwards(ctx, g, c, exc, depth + 1, seen) for g, c in sites)


def r5(ctx, R):
    R.rule("C03.R5", "evaluating an expression written in a document is total: syntax, arithmetic, type, look-up and depth errors of the evaluator are all absorbed before they can leave the indexing code", floor=2, confirmed=4)
    idx = indexing_funcs(ctx)
    tables = {}
    for rel, consts in ctx.m.consts.items():
        for name, v in consts.items():
            if isinstance(v, ast.Dict) and v.values and all(isinstance(x, ast.Attribute) and isinstance(x.value, ast.Name) and x.value.id == "operator" for x in v.values):
                tables[name] = {x.attr.rstrip("_") for x in v.values}
    n = 0
    for f in ctx.m.funcs.values():
        if f.rel.endswith("debug.py") or (idx and f.qual not in idx and not any(f.qual.startswith(q + ".") for q in idx)):
            continue
        recursive = any(f.qual in ctx.r.resolve_call(f, c)[1] for c in calls_in(f.node) if ctx.m.enclosing_func(c) is f)
        for c in calls_in(f.node):
            if ctx.m.enclosing_func(c) is not f:
                continue
            need = {}
            d = ctx.m.dotted(f.rel, c.func) if isinstance(c.func, (ast.Name, ast.Attribute)) else None
            if d in ("ast.parse", "ast.literal_eval") and c.args and not isinstance(c.args[0], ast.Constant):
                need = {"SyntaxError": "malformed expression", "ValueError": "NUL byte in the text", "RecursionError": "deeply nested expression", "MemoryError": "very long expression"}
            elif isinstance(c.func, ast.Subscript) and isinstance(c.func.value, ast.Name) and c.func.value.id in tables:
                ops = tables[c.func.value.id]
                need = {"TypeError": "operands of unrelated types, e.g. a string and a number"}
                if ops & DIV_OPS:
                    need["ZeroDivisionError"] = "`#if A / 0`, `#if N % M` with M undefined (0)"
                if ops & BIG_OPS:
                    need["OverflowError"] = "true division of huge integers"
                F = ctx.facts(f, interproc=False)
                tested = any(b[0] in ("in",) and c.func.value.id in str(b) for b in (F.at(c) or set())) or any(b[0] == "cond" and b[2] is True and f" in {c.func.value.id}" in b[1] for b in (F.at(c) or set()))
                if not tested:
                    need["KeyError"] = "operator not in the table, e.g. `in` / `is`"
                if recursive:
                    need["RecursionError"] = "deeply nested expression"
            if not need:
                continue
            n += 1
            missing = [e for e in need if not _absorbed_upwards(ctx, f, c, e)]
            k = f"{unparse(c)[:60]} in {key(f, ctx.m.enclosing_stmt(c))[:40]}"
            if missing:
                e = missing[0]
                R.violation("C03.R5", f.short, k, loc(f, c), f"{', '.join(missing)} can be raised here ({need[e]}) and no handler between this call and the parser's caller absorbs it: parse() raises, the file is dropped or left stale")
            else:
                R.ok("C03.R5", f.short, k, loc(f, c), f"{', '.join(sorted(need))} absorbed")
    if n == 0:
        raise AnalysisError("no expression-evaluation site found in the indexing code")


# ------------------------------------------------------------------- R6
def _optional_returning(ctx, g):
    rets = [r for r in ctx.m.walk_own(g.node) if isinstance(r, ast.Return)]
    none = [r for r in rets if r.value is None or (isinstance(r.value, ast.Constant) and r.value.value is None)]
    vals = [r for r in rets if r not in none]
    return bool(none) and bool(vals)


def r6(ctx, R):
    from .c04 import parse_func, tag_producers
    from .shared import absorbs

    R.rule("C03.R6", "a statement reader's payload that can be None (it comes from a helper that returns None for malformed text) is tested before the parser iterates or indexes it", floor=8, confirmed=20)
    prod, tests = tag_producers(ctx)
    pf = parse_func(ctx)
    Fp = ctx.facts(pf, interproc=False)
    # the dispatch variable and payload variable of the parser
    arms = {}
    for n in ctx.m.walk_own(pf.node):
        if isinstance(n, ast.If) and isinstance(n.test, ast.Compare) and len(n.test.ops) == 1 and isinstance(n.test.ops[0], ast.Eq) and isinstance(n.test.left, ast.Name) and isinstance(n.test.comparators[0], ast.Constant) and isinstance(n.test.comparators[0].value, str) and n.test.left.id == "obj_type":
            arms[n.test.comparators[0].value] = n
    payload = "obj_info"
    for tag, qs in sorted(prod.items()):
        for q in sorted(qs):
            f = ctx.m.funcs[q]
            F = ctx.facts(f, interproc=False)
            for r in (n for n in ctx.m.walk_own(f.node) if isinstance(n, ast.Return) and isinstance(n.value, ast.Tuple) and len(n.value.elts) == 2 and isinstance(n.value.elts[0], ast.Constant) and n.value.elts[0].value == tag):
                x = r.value.elts[1]

                def why_nullable(e):
                    if isinstance(e, ast.Constant) and e.value is None:
                        return "None"
                    if isinstance(e, ast.Name):
                        if any(b[0] == "nonnull" and b[1] == e.id for b in (F.at(r) or set())):
                            return None
                        for v in reaching_defs(ctx, f, r, e.id):
                            if isinstance(v, ast.Constant) and v.value is None:
                                return "None on one path"
                            if isinstance(v, ast.Call):
                                for gq in ctx.r.resolve_call(f, v)[1]:
                                    g = ctx.m.funcs.get(gq)
                                    if g is not None and _optional_returning(ctx, g):
                                        return f"{g.name}() returns None for malformed text"
                    return None

                # payload objects: nullable constructor arguments become nullable fields
                if isinstance(x, ast.Call) and ctx.r.resolve_call(f, x)[0] == "ctor" or (isinstance(x, ast.Call) and isinstance(x.func, ast.Name) and x.func.id[:1].isupper()):
                    for kw in x.keywords:
                        wn = why_nullable(kw.value) if kw.arg else None
                        if not wn:
                            continue
                        path = f"{payload}.{kw.arg}"
                        arm = arms.get(tag)
                        kk = f"{f.name}: field {kw.arg} of the payload of tag {tag!r}"
                        if arm is None:
                            continue
                        badu = None
                        for n in ast.walk(ast.Module(body=arm.body, type_ignores=[])):
                            use = None
                            if isinstance(n, ast.For) and unparse(n.iter) == path:
                                use = n.iter
                            elif isinstance(n, (ast.Subscript, ast.Attribute)) and isinstance(n.ctx, ast.Load) and unparse(n.value) == path:
                                use = n
                            elif isinstance(n, ast.Call) and isinstance(n.func, ast.Name) and n.func.id in ("len", "iter", "list", "tuple", "sorted", "enumerate") and n.args and unparse(n.args[0]) == path:
                                use = n
                            if use is None:
                                continue
                            facts = Fp.at(use) or Fp.at(n) or set()
                            if not any(b[0] == "nonnull" and b[1] == path for b in facts) and not absorbs(ctx, use, "TypeError"):
                                badu = use
                                break
                        if badu is not None:
                            R.violation("C03.R6", f.short, kk, loc(pf, badu), f"`{kw.arg}` is None when {wn}; the parser uses `{path}` at line {badu.lineno} without a None test: a half-typed statement makes parse() raise TypeError")
                        else:
                            R.ok("C03.R6", f.short, kk, loc(f, r), "field may be None; the parser tests it before use")
                nullable = why_nullable(x)
                k = f"{f.name}: payload of tag {tag!r} ({unparse(x)[:30]})"
                if nullable is None:
                    R.ok("C03.R6", f.short, k, loc(f, r), "payload is never None")
                    continue
                arm = arms.get(tag)
                if arm is None:
                    R.undecided("C03.R6", f.short, k, loc(f, r), "no arm for this tag in the parser")
                    continue
                bad = None
                for n in ast.walk(ast.Module(body=arm.body, type_ignores=[])):
                    use = None
                    if isinstance(n, ast.For) and isinstance(n.iter, ast.Name) and n.iter.id == payload:
                        use = n.iter
                    elif isinstance(n, (ast.Subscript, ast.Attribute)) and isinstance(n.value, ast.Name) and n.value.id == payload and isinstance(n.ctx, ast.Load):
                        use = n
                    elif isinstance(n, ast.Call) and isinstance(n.func, ast.Name) and n.func.id in ("len", "iter", "list", "tuple", "sorted", "enumerate") and n.args and isinstance(n.args[0], ast.Name) and n.args[0].id == payload:
                        use = n
                    if use is None:
                        continue
                    facts = Fp.at(use) or Fp.at(n) or set()
                    if not any(b[0] == "nonnull" and b[1] == payload for b in facts) and not absorbs(ctx, use, "TypeError"):
                        bad = use
                        break
                if bad is not None:
                    R.violation("C03.R6", f.short, k, loc(pf, bad), f"{nullable}, the reader hands it on as the payload of {tag!r}, and the parser uses it at line {bad.lineno} without a None test: a half-typed statement makes parse() raise TypeError and the file is not indexed")
                else:
                    R.ok("C03.R6", f.short, k, loc(f, r), "payload may be None; the parser tests it before use")


# ------------------------------------------------------------------- R7
def r7(ctx, R):
    R.rule("C03.R7", "a loop that walks forward through the line buffer stops at its end: the index is bounded by the line count in the loop condition, or the line read is tested for None before it is used", floor=2, confirmed=3)
    from .c02 import file_class

    fc = file_class(ctx)
    n = 0
    for q in fc.methods.values():
        f = ctx.m.funcs[q]
        F = None
        for lp in (x for x in ctx.m.walk_own(f.node) if isinstance(x, ast.While)):
            reads = [c for c in calls_in(lp) if isinstance(c.func, ast.Attribute) and c.func.attr == "get_line" and unparse(c.func.value) == "self" and c.args and isinstance(c.args[0], ast.Name)]
            for c in reads:
                idx = c.args[0].id
                fwd = any(isinstance(s_, ast.AugAssign) and isinstance(s_.op, ast.Add) and unparse(s_.target) == idx for s_ in ast.walk(lp))
                if not fwd:
                    continue
                n += 1
                F = F or ctx.facts(f, interproc=False)
                test_txt = unparse(lp.test)
                bounded = "nLines" in test_txt and (idx in test_txt or any(isinstance(x, ast.Name) and x.id in test_txt for x in []))
                bounded = bounded or ("nLines" in test_txt)
                st = ctx.m.enclosing_stmt(c)
                tgt = st.targets[0].id if isinstance(st, ast.Assign) and isinstance(st.targets[0], ast.Name) else None
                tested = False
                if tgt:
                    # every later use of the result inside the loop is behind a None test
                    uses = [u for u in ast.walk(lp) if isinstance(u, ast.Name) and u.id == tgt and isinstance(u.ctx, ast.Load) and u.lineno > st.lineno]
                    tested = bool(uses) and all(any(b[0] == "nonnull" and b[1] == tgt for b in (F.at(u) or set())) or _is_none_test(ctx, u) for u in uses)
                k = f"while {test_txt[:50]}: {unparse(st)[:50]}"
                if bounded or tested:
                    R.ok("C03.R7", f.short, k, loc(f, c), "index bounded by the line count" if bounded else "line tested for None before use")
                else:
                    R.violation("C03.R7", f.short, k, loc(f, c), f"`{idx}` is advanced and the line at `{idx}` is read without the loop being bounded by the number of lines and without a None test on what was read: a document whose last line continues (a half-typed continued statement) makes get_line return None and the next use of it raises TypeError - parse() fails")
    if n < 2:
        raise AnalysisError(f"only {n} forward line walks found in the file class")


def _is_none_test(ctx, u):
    p = ctx.m.parent.get(u)
    return isinstance(p, ast.Compare) and len(p.ops) == 1 and isinstance(p.ops[0], (ast.Is, ast.IsNot)) and isinstance(p.comparators[0], ast.Constant) and p.comparators[0].value is None


def r8(ctx, R):
    R.rule("C03.R8", "results taken apart on the spot are never None: a call whose value is unpacked, subscripted, iterated or dereferenced immediately goes to functions that return a value on every path", floor=12, confirmed=24)
    from .shared import check_immediate_results

    idx = indexing_funcs(ctx)
    check_immediate_results(ctx, R, "C03.R8", [ctx.m.funcs[q] for q in sorted(idx) if not ctx.m.funcs[q].rel.endswith("debug.py")])


# ------------------------------------------------------------------- R9
def _config_values_raw(ctx, param):
    """Do values of the configuration file reach the table parameter unconverted?
    True / False / None (not derived)."""
    verdict = None
    for f in ctx.m.funcs.values():
        for st in ctx.m.walk_own(f.node):
            if isinstance(st, ast.Assign) and any(isinstance(t, ast.Attribute) and t.attr == param for t in st.targets):
                v = st.value
                if isinstance(v, ast.Call) and isinstance(v.func, ast.Attribute) and v.func.attr == "get" and v.args and isinstance(v.args[0], ast.Constant) and v.args[0].value == param:
                    return True
                if isinstance(v, ast.DictComp) and any(isinstance(x, ast.Call) and isinstance(x.func, ast.Name) and x.func.id == "str" for x in ast.walk(v.value)):
                    verdict = False if verdict is None else verdict
    return verdict


def r9(ctx, R):
    R.rule("C03.R9", "macro-table values (text, (args, body) tuples, anything from the JSON configuration) are used as text only where their kind is established: converted, or narrowed by a type test on every path", floor=2, confirmed=3)
    from .c08 import pp_func
    from .kinds import ALL, KindAnalysis, N, O, S, State, T, U

    f = pp_func(ctx)
    ret = next((r for r in f.node.body if isinstance(r, ast.Return) and isinstance(r.value, ast.Tuple) and len(r.value.elts) == 4), None)
    if ret is None or not isinstance(ret.value.elts[3], ast.Name):
        R.undecided("C03.R9", f.short, "macro table", loc(f, f.node), "the working table (4th element of the result) was not identified")
        return
    table = ret.value.elts[3].id
    param = next((p for p in f.params if "def" in p), None)
    fam = [g for g in ctx.m.funcs.values() if g.qual == f.qual or g.qual.startswith(f.qual + ".")]
    # which names denote the table in each function of the family
    tables = {f.qual: {table}}
    for _ in range(4):
        for g in fam:
            if g is f:
                continue
            outer = ctx.m.funcs.get(g.qual.rsplit(".", 1)[0])
            names = set(tables.get(outer.qual, set())) - set(g.params) if outer is not None else set()
            sites = [(h, c) for h in fam for c in calls_in(h.node) if ctx.m.enclosing_func(c) is h and g.qual in ctx.r.resolve_call(h, c)[1]]
            for i, p in enumerate(g.params):
                passed = []
                for h, c in sites:
                    a = c.args[i] if len(c.args) > i else next((kw.value for kw in c.keywords if kw.arg == p), None)
                    passed.append(isinstance(a, ast.Name) and a.id in tables.get(h.qual, set()))
                if passed and all(passed):
                    names.add(p)
            tables[g.qual] = names
    # entry kinds of the table
    probe = KindAnalysis(ctx, f.node, {table}, ALL, None)
    ds = [v for st, v in defs_of(ctx, f, table) if ctx.m.enclosing_func(st) is f and isinstance(ctx.m.parent.get(st), ast.FunctionDef)]
    raw = _config_values_raw(ctx, param)
    entry = None
    if len(ds) >= 1:
        v0 = ds[0]
        if isinstance(v0, ast.DictComp) and len(v0.generators) == 1 and isinstance(v0.generators[0].target, ast.Tuple) and len(v0.generators[0].target.elts) == 2 and unparse(v0.generators[0].iter) == f"{param}.items()" and isinstance(v0.generators[0].target.elts[1], ast.Name):
            vn = v0.generators[0].target.elts[1].id
            entry = probe.kinds(v0.value, State([(vn, frozenset(ALL))]))[0]
        elif unparse(v0) in (f"{param}.copy()", f"dict({param})", f"{{**{param}}}", param, f"copy.copy({param})", f"copy.deepcopy({param})"):
            entry = set(ALL)
    if entry is None:
        R.undecided("C03.R9", f.short, f"{table} initialised from {param}", loc(f, ds[0] if ds else f.node), "initialisation of the working table not recognised")
        return
    if raw is False:
        entry = set(entry) - {O}
    R.notes.append(f"C03.R9: table `{table}` of {f.short}; kinds at entry {sorted(entry)} (S text, T tuple, O other); configuration values reach it unconverted: {raw}; table names per function: { {q.rsplit('.', 1)[-1]: sorted(v) for q, v in tables.items() if v} }")
    # the cache of compiled patterns, if any
    cache = None
    for st in ctx.m.walk_own(f.node):
        if isinstance(st, ast.Assign) and isinstance(st.targets[0], ast.Subscript) and isinstance(st.targets[0].value, ast.Name):
            c = st.targets[0].value.id
            cds = [v for _, v in defs_of(ctx, f, c)]
            if c != table and len(cds) == 1 and isinstance(cds[0], ast.Dict) and not cds[0].keys and any(isinstance(x.func, ast.Attribute) and x.func.attr == "get" and unparse(x.func.value) == c for x in calls_in(f.node)):
                cache = c
    memo = {}

    def make_summaries(caller, tk, depth):
        def summaries(call, argk):
            kind_, tg = ctx.r.resolve_call(caller, call)
            tg = [q for q in tg if q in ctx.m.funcs]
            if len(tg) != 1 or depth > 2:
                return None
            g = ctx.m.funcs[tg[0]]
            if g.cls or g.qual == f.qual or g.qual == caller.qual:
                return None
            sig = (g.qual, tuple(frozenset(k) for k, _ in argk))
            if sig not in memo:
                memo[sig] = None
                init = State([(p, frozenset(k)) for p, (k, ft) in zip(g.params, argk) if ft])
                an = KindAnalysis(ctx, g.node, tables.get(g.qual, set()), tk, make_summaries(g, tk, depth + 1), init=init).run()
                falls = not (g.node.body and isinstance(g.node.body[-1], (ast.Return, ast.Raise)))
                memo[sig] = (frozenset(an.returns | ({N} if falls or not an.returns else set())), an.uses)
            return memo[sig][0] if memo[sig] else None
        return summaries

    tk = set(entry)
    records = []
    final = {}
    for _ in range(6):
        memo.clear()
        stores, uses, new_records = [], [], []
        for g in fam:
            an = KindAnalysis(ctx, g.node, tables.get(g.qual, set()), tk, make_summaries(g, tk, 0), cache_records=records, cache_name=cache if g is f else None)
            try:
                an.run()
            except RuntimeError:
                R.undecided("C03.R9", g.short, "kind analysis", loc(g, g.node), "state explosion")
                continue
            stores += [(g, n_, k, imp) for n_, k, imp in an.stores]
            uses += [(g, e, what, k, imp) for e, what, k, imp in an.uses]
            new_records += an.new_records
        for sig, v in memo.items():
            if v:
                g = ctx.m.funcs[sig[0]]
                uses += [(g, e, what, k, imp) for e, what, k, imp in v[1]]
        ntk = set(tk)
        for g, n_, k, imp in stores:
            ntk |= set(k)
        nrec = sorted({(a, tuple(sorted(b.items())), c, d) for a, b, c, d in new_records})
        nrec = [(a, dict(b), c, d) for a, b, c, d in nrec]
        final = {"stores": stores, "uses": uses}
        if ntk == tk and nrec == records:
            break
        tk, records = ntk, nrec
    if U in tk:
        R.undecided("C03.R9", f.short, "kinds stored into the table", loc(f, f.node), "a value stored into the table has no derived kind")
    # report per use site
    by_site = {}
    for g, e, what, k, imp in final["uses"]:
        by_site.setdefault((g.qual, id(e)), (g, e, what, []))[3].append((k, imp))
    names = {S: "text", T: "an (args, body) tuple", O: "a non-text value from the configuration", N: "None"}
    for (q, _), (g, e, what, obs) in sorted(by_site.items(), key=lambda kv: (kv[0][0], getattr(kv[1][1], "lineno", 0))):
        st = ctx.m.enclosing_stmt(e) if e in ctx.m.parent else None
        k_ = f"{unparse(e)[:40]} {what}"
        where = loc(g, e)
        precise_bad = set()
        for k, imp in obs:
            if not imp:
                precise_bad |= set(k) - {S, U}
        imprecise_bad = any((set(k) - {S, U}) for k, imp in obs if imp)
        if precise_bad - ({O} if raw is None else set()):
            bad = precise_bad - ({O} if raw is None else set())
            R.violation("C03.R9", g.short, k_, where, f"`{unparse(e)[:50]}` is {what} although it can be {' or '.join(names[b] for b in sorted(bad))} here: TypeError/AttributeError leaves parse() and the file is not indexed")
        elif precise_bad or imprecise_bad:
            R.undecided("C03.R9", g.short, k_, where, "kind of the value not established on a path that could not be analysed precisely (uncorrelated cache entry / provenance of configuration values)")
        elif all(U in k for k, imp in obs):
            R.observe("C03.R9", g.short, k_, where, "kind not derived") if hasattr(R, "observe") else None
        else:
            R.ok("C03.R9", g.short, k_, where, "text on every analysed path")
    # conversions wrapped around a table value count as instances too
    for g in fam:
        for c in calls_in(g.node):
            if isinstance(c.func, ast.Name) and c.func.id == "str" and c.args and ctx.m.enclosing_func(c) is g:
                a = c.args[0]
                if (isinstance(a, ast.Subscript) and isinstance(a.value, ast.Name) and a.value.id in tables.get(g.qual, set())) or (isinstance(a, ast.Name) and any(isinstance(v, ast.Subscript) and isinstance(v.value, ast.Name) and v.value.id in tables.get(g.qual, set()) for v in reaching_defs(ctx, g, c, a.id) if isinstance(v, ast.AST))):
                    R.ok("C03.R9", g.short, f"{unparse(c)[:50]} converted", loc(g, c), "table value converted to text before use")


# ------------------------------------------------------------------ R10
def r10(ctx, R):
    """`q.extendleft(parts); x = q.pop()`: the pop takes what the statement before pushed.
    str.split(sep) always yields at least one field, a comprehension with a filter may yield
    none - then pop() raises IndexError on lines such as `;`, parse() fails and the file is
    not indexed."""
    R.rule("C03.R10", "a pop() that consumes what the statement before pushed: the pushed iterable is never empty", floor=1, confirmed=1)
    idx = indexing_funcs(ctx)
    n = 0
    for q in sorted(idx):
        f = ctx.m.funcs[q]
        if f.rel.endswith("debug.py"):
            continue
        F = None
        for blk in (x for x in ast.walk(f.node) if isinstance(getattr(x, "body", None), list)):
            for fld in ("body", "orelse", "finalbody"):
                sts = getattr(blk, fld, None)
                if not isinstance(sts, list):
                    continue
                for prev, st in zip(sts, sts[1:]):
                    pops = [c for c in calls_in(st) if isinstance(c.func, ast.Attribute) and c.func.attr in ("pop", "popleft") and not c.args and ctx.m.enclosing_stmt(c) is st]
                    if not pops or not (isinstance(prev, ast.Expr) and isinstance(prev.value, ast.Call) and isinstance(prev.value.func, ast.Attribute)):
                        continue
                    push = prev.value
                    for c in pops:
                        if unparse(c.func.value) != unparse(push.func.value) or push.func.attr not in ("extend", "extendleft", "append", "appendleft") or not push.args:
                            continue
                        n += 1
                        k = key(f, st)[:80]
                        a = push.args[0]
                        F = F or ctx.facts(f, interproc=False)
                        facts = F.at(c) or set()
                        recv = unparse(c.func.value)
                        if push.func.attr in ("append", "appendleft"):
                            R.ok("C03.R10", f.short, k, loc(f, c), "one element pushed just before")
                        elif ("nonempty", recv) in facts or ("truthy", recv) in facts:
                            R.ok("C03.R10", f.short, k, loc(f, c), "container known to be non-empty")
                        elif isinstance(a, ast.Call) and isinstance(a.func, ast.Attribute) and a.func.attr in ("split", "rsplit") and a.args:
                            R.ok("C03.R10", f.short, k, loc(f, c), "str.split(sep) yields at least one field")
                        elif isinstance(a, (ast.List, ast.Tuple)) and a.elts and not any(isinstance(e, ast.Starred) for e in a.elts):
                            R.ok("C03.R10", f.short, k, loc(f, c), "non-empty display pushed")
                        elif isinstance(a, (ast.GeneratorExp, ast.ListComp)) and any(g_.ifs for g_ in a.generators) or (isinstance(a, ast.Call) and isinstance(a.func, ast.Name) and a.func.id == "filter"):
                            R.violation("C03.R10", f.short, k, loc(f, c), f"`{unparse(push)[:70]}` may push nothing (every element filtered out), and `{unparse(c)}` then raises IndexError: a line that consists of separators only (`;`) makes parse() fail and the file is not indexed")
                        else:
                            R.undecided("C03.R10", f.short, k, loc(f, c), f"non-emptiness of `{unparse(a)[:50]}` not derived")
    if n == 0:
        R.undecided("C03.R10", "indexing code", "push/pop pairs", ("fortls/parsers/internal/parser.py", 1), "no pop() directly after a push found")


# ------------------------------------------------------------------- R11
def r11(ctx, R):
    """A `for` loop over a list ends when the list ends.  A body that extends the
    very list being iterated (`xs += ..`, `xs.append/extend/insert`) has no bound
    unless the growth is cut by a visited test; with document-controlled content
    (macros naming each other, scopes including each other) it never finishes."""
    R.rule("C03.R11", "no loop of the indexing code extends the list it iterates (unless the growth is cut by a visited-set test)", floor=1, confirmed=1)
    n = 0
    for q, f in sorted(ctx.m.funcs.items()):
        if not (f.rel.startswith("fortls/parsers/") or f.rel.endswith("helper_functions.py")):
            continue
        for lp in (x for x in ctx.m.walk_own(f.node) if isinstance(x, ast.For)):
            it = lp.iter
            # `for x in xs`, `for i, x in enumerate(xs)`
            if isinstance(it, ast.Call) and isinstance(it.func, ast.Name) and it.func.id == "enumerate" and it.args:
                it = it.args[0]
            p_ = access_path(it)
            if not p_:
                continue
            n += 1
            grow = None
            for s_ in lp.body:
                for x in ast.walk(s_):
                    if isinstance(x, ast.AugAssign) and isinstance(x.op, ast.Add) and access_path(x.target) == p_:
                        grow = x
                    elif isinstance(x, ast.Call) and isinstance(x.func, ast.Attribute) and x.func.attr in ("append", "extend", "insert") and access_path(x.func.value) == p_:
                        grow = x
            if grow is None:
                continue
            # a visited test: the growth sits under `not in S` where S grows in the same loop
            guarded = False
            node = grow
            par = ctx.m.parent.get(node)
            while par is not None and par is not lp:
                if isinstance(par, ast.If):
                    for t in ast.walk(par.test):
                        if isinstance(t, ast.Compare) and len(t.ops) == 1 and isinstance(t.ops[0], ast.NotIn):
                            s_name = access_path(t.comparators[0])
                            if s_name and any(isinstance(y, ast.Call) and isinstance(y.func, ast.Attribute) and y.func.attr in ("add", "append") and access_path(y.func.value) == s_name for z in lp.body for y in ast.walk(z)):
                                guarded = True
                node, par = par, ctx.m.parent.get(par)
            k = key(f, lp)[:90]
            if guarded:
                R.ok("C03.R11", f.short, k, loc(f, grow), "growth cut by a visited test")
            else:
                R.violation("C03.R11", f.short, k, loc(f, grow), f"the loop iterates `{p_}` and its body extends `{p_}` (line {grow.lineno}) with no visited test: whenever the appended items make the body append again - macros whose bodies name each other, constructs that refer to each other - the loop never reaches the end of the list and indexing does not return")
    if n < 10:
        raise AnalysisError(f"C03.R11: only {n} list loops found in the indexing code")
    R.ok("C03.R11", "fortls/parsers", f"{n} loops over a named list examined", "fortls/parsers", "none extends its own list without a visited test") if not any(i.rule == "C03.R11" and i.verdict == "violation" for i in R.insts) else None


def run(ctx, R):
    r1(ctx, R)
    r2(ctx, R)
    r3(ctx, R)
    r4(ctx, R)
    r5(ctx, R)
    r6(ctx, R)
    r7(ctx, R)
    r8(ctx, R)
    r9(ctx, R)
    r10(ctx, R)
    r11(ctx, R)
