"""C02 — server-side text equals the client's after any edit sequence
(DESIGN.md 3/C02): structural necessary conditions, not the splice arithmetic."""
from __future__ import annotations

import ast

from sa import rex
from sa.model import AnalysisError, access_path, unparse

from .shared import calls_in, defs_of, deref, dispatch_table, key, loc, reaching_defs, single_def


def file_class(ctx):
    hits = [c for c in ctx.m.classes.values() if "contents_split" in c.fields and "load_from_disk" in c.methods]
    if len(hits) != 1:
        raise AnalysisError("document class (contents_split + load_from_disk) not found")
    return hits[0]


def edit_routine(ctx):
    """The method that reads 'range' / 'text' of a change dict."""
    fc = file_class(ctx)
    for q in fc.methods.values():
        f = ctx.m.funcs[q]
        consts = {n.value for n in ast.walk(f.node) if isinstance(n, ast.Constant) and isinstance(n.value, str)}
        if {"range", "text"} <= consts:
            return f
    raise AnalysisError("edit routine (reads change['range'] and change['text']) not found")


def splitter_of(ctx, f, value):
    """(kind, detail) of the line splitter used in expression `value`:
    ('regex', Rx) | ('str.splitlines', call) | ('other', text)"""
    v = deref(ctx, f, value)
    if isinstance(v, ast.Call):
        if isinstance(v.func, ast.Attribute) and v.func.attr == "splitlines" and not ctx.r.expr_classes(f, v.func.value):
            return "str.splitlines", v, f
        k, tg = ctx.r.resolve_call(f, v)
        if k in ("module", "import", "nested", "typed") and len(tg) == 1:
            g = ctx.m.funcs[next(iter(tg))]
            rets = [n for n in ctx.m.walk_own(g.node) if isinstance(n, ast.Return) and n.value is not None]
            if len(rets) == 1:
                return splitter_of(ctx, g, rets[0].value)
        d = ctx.m.dotted(f.rel, v.func) if isinstance(v.func, (ast.Name, ast.Attribute)) else None
        if d == "re.split":
            for rx_ in ctx.p.inline:
                if rx_.node is v:
                    return "regex", rx_, f
        if isinstance(v.func, ast.Attribute) and v.func.attr == "split":
            # compiled pattern .split(text)
            nm = ctx.p.fregex_ref(f.rel, v.func.value)
            if nm:
                return "regex", ctx.p.named[nm], f
            if not v.args or (isinstance(v.args[0], ast.Constant)):
                return "str.split", v, f
    return "other", v, f


def first_match_on(tree, s):
    """What a leftmost-first regex made of finite alternatives matches at the
    start of string s (computed on the syntax tree, nothing is executed)."""
    for alt in rex.top_alternatives(tree):
        lang = rex.language(alt)
        if lang is None:
            return None
        cands = [w for w in lang if w and s.startswith(w)]
        if cands:
            lazy = any(op is rex.C.MIN_REPEAT for op, av in rex.walk(alt))
            return min(cands, key=len) if lazy else max(cands, key=len)
    return ""


def splitter_calls(ctx, f):
    """[(statement, call)] of the calls in f that split text into lines: the value of an
    assignment, or an argument handed straight on (`self.set_contents(splitlines(text))`)"""
    out = []
    for c in calls_in(f.node):
        if ctx.m.enclosing_func(c) is not f:
            continue
        k = splitter_of(ctx, f, c)
        if k[0] in ("regex", "str.splitlines", "str.split"):
            st = ctx.m.enclosing_stmt(c)
            if isinstance(st, ast.Assign) and st.value is c or isinstance(ctx.m.parent.get(c), ast.Call):
                out.append((st, c))
    return out


def r1_r2(ctx, R):
    R.rule("C02.R1", "the line splitter recognises exactly LF, CRLF and CR, and never splits a CRLF in two", floor=2, confirmed=2)
    R.rule("C02.R2", "trailing-newline handling agrees with the splitter (no extra / missing last line)", floor=1, confirmed=1)
    fc = file_class(ctx)
    ed = edit_routine(ctx)
    ld = ctx.m.funcs[fc.methods["load_from_disk"]]
    # ingestion 1: load_from_disk -> contents_split = X(contents)
    sites = []
    for f in (ld, ed):
        for st, call in splitter_calls(ctx, f):
            k = splitter_of(ctx, f, call)
            sites.append((f, st, k))
    if len(sites) < 2:
        raise AnalysisError(f"line splitter use sites: found {len(sites)} (expected both ingestion paths)")
    kinds = set()
    # the list of lines becomes the file's own, mutable buffer (single-line edits write into it):
    # the splitter must hand out a fresh list on every call
    memo = ("lru_cache", "cache", "cached", "memoize", "memoise", "cached_property")
    seen_g = set()
    for f, st, (kind, obj, g) in sites:
        chain = [g]
        c0 = next((c for c in calls_in(st) if ctx.r.resolve_call(f, c)[1]), None)
        if c0 is not None:
            chain += [ctx.m.funcs[q] for q in ctx.r.resolve_call(f, c0)[1] if q in ctx.m.funcs]
        for h in chain:
            if h is None or h.qual in seen_g or h is f:
                continue
            seen_g.add(h.qual)
            decs = [unparse(d) for d in h.node.decorator_list]
            bad = [d for d in decs if any(m in d.split("(")[0].split(".")[-1] for m in memo)]
            if bad:
                R.violation("C02.R1", h.short, "splitter returns a fresh list", loc(h, h.node), f"`{h.name}` is memoised (@{bad[0]}): every document with the same text shares one list of lines, and a single-line edit of one buffer (written in place) changes what the next split of that text returns - the server's copy of a re-opened or re-sent document is the edited one")
            else:
                R.ok("C02.R1", h.short, "splitter returns a fresh list", loc(h, h.node), "not memoised")
    for f, st, (kind, obj, g) in sites:
        where = f.short
        if kind == "regex":
            rx_ = obj
            lang = rex.language(rx_.tree) if rx_.tree is not None else None
            kinds.add(("regex", rx_.text))
            if lang is None:
                R.violation("C02.R1", where, key(f, st), loc(f, st), f"the splitter pattern {rx_.text!r} does not denote a finite set of line breaks")
                continue
            want = {"\n", "\r\n", "\r"}
            if lang != want:
                miss = sorted(repr(x) for x in want - lang)
                extra = sorted(repr(x) for x in lang - want)
                R.violation("C02.R1", where, key(f, st), loc(f, st), f"splitter {rx_.text!r}: " + (f"does not split on {', '.join(miss)}" if miss else "") + (f"; also splits on {', '.join(extra)}" if extra else "") + " (an LSP client counts exactly LF, CRLF, CR as line breaks)")
                continue
            m = first_match_on(rx_.tree, "\r\n")
            if m != "\r\n":
                R.violation("C02.R1", where, key(f, st), loc(f, st), f"splitter {rx_.text!r} matches {m!r} at a CRLF: one Windows line break yields two lines")
            else:
                R.ok("C02.R1", where, key(f, st), loc(f, st), f"language of {rx_.text!r} = LF, CRLF, CR; CRLF consumed as one")
        elif kind == "str.splitlines":
            kinds.add(("str.splitlines", ""))
            R.violation("C02.R1", where, key(f, st), loc(f, st), "str.splitlines() also splits on FF, VT, FS/GS/RS, NEL, U+2028/2029: server lines no longer equal the client's lines")
        else:
            kinds.add((kind, unparse(obj)))
            R.violation("C02.R1", where, key(f, st), loc(f, st), f"text is split with {unparse(obj)}: CR and CRLF are not handled like an LSP client does")
    if len(kinds) > 1:
        f, st, _ = sites[-1]
        R.violation("C02.R1", f.short, "one splitter for both ingestion paths", loc(f, st), f"file loading and change application split lines differently: {sorted(k[0] + ' ' + k[1] for k in kinds)}")
    # ---- R2: the trailing-newline fix-up in the edit routine
    f = ed
    # local holding the split change text
    split_local = None
    for ff, st, k in sites:
        if ff is f and isinstance(st, ast.Assign) and isinstance(st.targets[0], ast.Name):
            split_local = st.targets[0].id
            split_kind = k[0]
    if split_local is None:
        R.undecided("C02.R2", f.short, "split change text", loc(f, f.node), "the split change text is not bound to a local")
        return
    fix = None
    for c in calls_in(f.node):
        if isinstance(c.func, ast.Attribute) and c.func.attr == "append" and isinstance(c.func.value, ast.Name) and c.func.value.id == split_local and c.args and isinstance(c.args[0], ast.Constant) and c.args[0].value == "":
            fix = c
    for st in ctx.m.walk_own(f.node):
        if isinstance(st, (ast.AugAssign, ast.Assign)) and isinstance(getattr(st, "target", None) or st.targets[0], ast.Name) and (getattr(st, "target", None) or st.targets[0]).id == split_local:
            v = st.value
            if isinstance(v, ast.List) and len(v.elts) == 1 and isinstance(v.elts[0], ast.Constant) and v.elts[0].value == "" and isinstance(st, ast.AugAssign):
                fix = st
            if isinstance(v, ast.BinOp) and isinstance(v.op, ast.Add) and isinstance(v.right, ast.List) and len(v.right.elts) == 1 and isinstance(v.right.elts[0], ast.Constant) and v.right.elts[0].value == "":
                fix = st
    keeps_empty_tail = split_kind in ("regex", "str.split")
    if fix is not None:
        F = ctx.facts(f, interproc=False)
        facts = F.at(fix) or set()
        tail_test = any(fa[0] == "cond" and ("[-1]" in fa[1] or "endswith" in fa[1]) for fa in facts)
        st = ctx.m.enclosing_stmt(fix) if not isinstance(fix, ast.stmt) else fix
        if keeps_empty_tail and tail_test:
            R.violation("C02.R2", f.short, key(f, st), loc(f, fix), "the splitter already yields an empty last field for text ending in a line break; appending another empty line inserts one line too many (e.g. inserting '\\n' adds two lines)")
        elif not keeps_empty_tail and tail_test:
            R.ok("C02.R2", f.short, key(f, st), loc(f, fix), "splitter drops the final empty field; fix-up restores it")
        else:
            R.undecided("C02.R2", f.short, key(f, st), loc(f, fix), "an empty line is appended but not under a test of the text's last character")
    else:
        if keeps_empty_tail:
            R.ok("C02.R2", f.short, "no trailing-newline fix-up", loc(f, f.node), "splitter keeps the final empty field; nothing to add")
        else:
            R.violation("C02.R2", f.short, "no trailing-newline fix-up", loc(f, f.node), "str.splitlines() drops the final empty field of text ending in a line break and nothing restores it: the cursor line after an inserted newline is lost")


def r3(ctx, R):
    R.rule("C02.R3", "every mutation of the line buffer keeps contents_pp / nLines in step and invalidates the disk hash", floor=4, confirmed=6)
    fc = file_class(ctx)
    ed = edit_routine(ctx)
    companions = {"contents_pp", "nLines"}
    setters = set()
    for q in fc.methods.values():
        f = ctx.m.funcs[q]
        if f.name == "__init__":
            continue
        whole = []
        items = []
        for st in ctx.m.walk_own(f.node):
            if isinstance(st, (ast.Assign, ast.AugAssign)):
                tg = st.targets if isinstance(st, ast.Assign) else [st.target]
                for t in tg:
                    if isinstance(t, ast.Attribute) and t.attr == "contents_split":
                        whole.append(st)
                    elif isinstance(t, ast.Subscript) and isinstance(t.value, ast.Attribute) and t.value.attr == "contents_split":
                        items.append((st, t))
        assigned = {t.attr for st in ctx.m.walk_own(f.node) if isinstance(st, (ast.Assign, ast.AnnAssign)) for t in (st.targets if isinstance(st, ast.Assign) else [st.target]) if isinstance(t, ast.Attribute)}
        for st in whole:
            recv = unparse(st.targets[0].value) if isinstance(st, ast.Assign) else ""
            # companions may be set on the same receiver by a call to a setter afterwards (copy())
            via_setter = any(isinstance(c.func, ast.Attribute) and c.func.attr == "set_contents" and unparse(c.func.value) == recv for c in calls_in(f.node))
            miss = sorted(companions - assigned)
            if not miss or via_setter:
                R.ok("C02.R3", f.short, key(f, st), loc(f, st), "contents_pp and nLines assigned alongside")
                setters.add(q)
            else:
                R.violation("C02.R3", f.short, key(f, st), loc(f, st), f"the line buffer is replaced but {', '.join(miss)} keep(s) the old value: positions and preprocessed text go out of step")
        for st, t in items:
            idx = unparse(t.slice)
            mirrored = any(isinstance(s2, ast.Assign) and isinstance(s2.targets[0], ast.Subscript) and isinstance(s2.targets[0].value, ast.Attribute) and s2.targets[0].value.attr == "contents_pp" and unparse(s2.targets[0].slice) == idx for s2 in ctx.m.walk_own(f.node))
            if mirrored:
                R.ok("C02.R3", f.short, key(f, st), loc(f, st), "mirrored on contents_pp for the same index")
            else:
                R.violation("C02.R3", f.short, key(f, st), loc(f, st), "a line is replaced in contents_split but not in contents_pp")
    # hash invalidation dominates every mutation in the edit routine
    f = ed
    cfg = ctx.cfg(f)
    dom = cfg.dominators(follow_exc=False)
    inval = [n for n in cfg.nodes if n.kind == "stmt" and isinstance(n.ast, ast.Assign) and isinstance(n.ast.targets[0], ast.Attribute) and n.ast.targets[0].attr == "hash" and isinstance(n.ast.value, ast.Constant) and n.ast.value.value is None]
    muts = []
    for n in cfg.nodes:
        if n.kind != "stmt" or n.ast is None:
            continue
        a = n.ast
        if isinstance(a, ast.Assign) and any(isinstance(t, ast.Subscript) and isinstance(t.value, ast.Attribute) and t.value.attr == "contents_split" for t in a.targets):
            muts.append(n)
        elif any(isinstance(c.func, ast.Attribute) and c.func.attr == "set_contents" for c in calls_in(a)):
            muts.append(n)
    if not muts:
        R.undecided("C02.R3", f.short, "buffer mutations", loc(f, f.node), "no mutation found in the edit routine")
    for n in muts:
        if any(i.id in dom.get(n.id, set()) for i in inval):
            R.ok("C02.R3", f.short, key(f, n.ast) + " :: hash invalidated", loc(f, n.ast))
        else:
            R.violation("C02.R3", f.short, key(f, n.ast) + " :: hash invalidated", loc(f, n.ast), "the buffer is edited without resetting the disk hash: a later save of identical disk content is skipped as 'unchanged' and the edited buffer survives")


def r4(ctx, R):
    R.rule("C02.R4", "content changes are applied in the order sent, once each; a failing change aborts without partial re-parse", floor=2, confirmed=3)
    ed = edit_routine(ctx)
    for q in dispatch_table(ctx).get("textDocument/didChange", ()):
        g = ctx.m.funcs[q]
        loops = []
        for lp in (n for n in ctx.m.walk_own(g.node) if isinstance(n, ast.For)):
            cs = [c for c in calls_in(lp) if ed.qual in ctx.r.resolve_call(g, c)[1]]
            if cs:
                loops.append((lp, cs))
        # every notification reaches the edit routine, or the failure is reported: no path from
        # entry to a normal exit avoids both (a silently dropped change leaves the mirror stale)
        cfg = ctx.cfg(g)
        blocked = set()
        for n in cfg.nodes:
            a = n.ast
            if a is None:
                continue
            if n.kind in ("for", "loophead") and isinstance(a, ast.For):
                if any(ed.qual in ctx.r.resolve_call(g, c)[1] for c in calls_in(a)):
                    blocked.add(n.id)
                continue
            if n.kind not in ("stmt", "test"):
                continue
            roots = [a] if not isinstance(a, (ast.With,)) else [i.context_expr for i in a.items]
            for r_ in roots:
                if isinstance(r_, (ast.For, ast.While, ast.If, ast.Try, ast.FunctionDef)):
                    continue
                for c in [x for x in ast.walk(r_) if isinstance(x, ast.Call)]:
                    if ed.qual in ctx.r.resolve_call(g, c)[1] or (isinstance(c.func, ast.Attribute) and c.func.attr == "post_message"):
                        blocked.add(n.id)
                if isinstance(r_, ast.Raise):
                    blocked.add(n.id)
        reach = cfg.reachable_without([cfg.entry.id], blocked, follow_exc=False)
        if cfg.exit.id in reach:
            last = max((cfg.nodes[i] for i in reach if cfg.nodes[i].ast is not None and any(t == cfg.exit.id for t, _ in cfg.nodes[i].succs)), key=lambda n: getattr(n.ast, "lineno", 0), default=None)
            at = last.ast if last is not None else g.node
            R.violation("C02.R4", g.short, "every change notification is applied or reported", loc(g, at), f"a path leaves the handler (via `{unparse(at)[:60]}`) without applying the content changes and without a message: the server's copy of the document silently stays behind the client's")
        else:
            R.ok("C02.R4", g.short, "every change notification is applied or reported", loc(g, g.node), f"{len(blocked)} applying/reporting nodes cut every entry-exit path")
        if not loops:
            R.undecided("C02.R4", g.short, "change loop", loc(g, g.node), "no loop applying the edit routine")
            continue
        for lp, cs in loops:
            it = lp.iter
            fwd = isinstance(it, ast.Subscript) and isinstance(it.slice, ast.Constant) and it.slice.value == "contentChanges"
            if not fwd and isinstance(it, ast.Name):
                v = deref(ctx, g, it)
                fwd = isinstance(v, ast.Subscript) and isinstance(v.slice, ast.Constant) and v.slice.value == "contentChanges"
            if fwd:
                R.ok("C02.R4", g.short, key(g, lp), loc(g, lp), "iterates contentChanges forwards")
            else:
                R.violation("C02.R4", g.short, key(g, lp), loc(g, lp), f"changes are not applied in the order sent (iterates {unparse(it)})")
            if len(cs) == 1 and isinstance(cs[0].args[0] if cs[0].args else None, ast.Name) and cs[0].args[0].id == (lp.target.id if isinstance(lp.target, ast.Name) else None):
                R.ok("C02.R4", g.short, key(g, ctx.m.enclosing_stmt(cs[0])), loc(g, cs[0]), "each change applied exactly once")
            else:
                R.violation("C02.R4", g.short, key(g, ctx.m.enclosing_stmt(cs[0])), loc(g, cs[0]), "a change is applied more than once, or something other than the loop element is applied")
            # abort on failure
            from .shared import enclosing_handlers

            hs = enclosing_handlers(ctx, lp)
            if hs and any(any(isinstance(x, ast.Return) for s_ in h.body for x in ast.walk(s_)) for h in hs[0]):
                R.ok("C02.R4", g.short, "failing change aborts the notification", loc(g, lp))
            else:
                R.violation("C02.R4", g.short, "failing change aborts the notification", loc(g, lp), "a change that raises does not stop the handler: later changes are applied to a buffer that is already out of step")


def r5(ctx, R):
    R.rule("C02.R5", "splice provenance: kept prefix ends at the range start, kept suffix begins at the range end, untouched lines are those strictly outside the range", floor=3, confirmed=5)
    f = edit_routine(ctx)
    # the four range coordinates
    coord = {}
    for st in ctx.m.walk_own(f.node):
        if isinstance(st, ast.Assign) and isinstance(st.targets[0], ast.Name) and isinstance(st.value, ast.Subscript):
            chain = []
            e = st.value
            while isinstance(e, ast.Subscript):
                if isinstance(e.slice, ast.Constant):
                    chain.append(e.slice.value)
                e = e.value
            chain.reverse()
            if len(chain) >= 2 and chain[-2] in ("start", "end") and chain[-1] in ("line", "character"):
                coord[st.targets[0].id] = (chain[-2], chain[-1])
    if len(coord) != 4:
        R.undecided("C02.R5", f.short, "range coordinates", loc(f, f.node), f"found {len(coord)} of 4 coordinate locals")
        return
    inv = {v: k for k, v in coord.items()}
    sl, sc, el, ec = inv[("start", "line")], inv[("start", "character")], inv[("end", "line")], inv[("end", "character")]
    F = ctx.facts(f, interproc=False)
    enum = {}  # line var -> counter var for `for i, line in enumerate(...contents_split)`
    for lp in (n for n in ctx.m.walk_own(f.node) if isinstance(n, ast.For)):
        if isinstance(lp.iter, ast.Call) and isinstance(lp.iter.func, ast.Name) and lp.iter.func.id == "enumerate" and lp.iter.args and "contents_split" in unparse(lp.iter.args[0]) and isinstance(lp.target, ast.Tuple) and len(lp.target.elts) == 2:
            enum[lp.target.elts[1].id] = lp.target.elts[0].id

    def line_index(e, at):
        """which buffer line does expression e denote: 'start' | 'end' | 'both' | None"""
        facts = F.at(at) or set()
        same = ("eq", sl, el) in facts or ("eq", el, sl) in facts
        idx = None
        if isinstance(e, ast.Name) and e.id in enum:
            i = enum[e.id]
            if ("eq", i, sl) in facts:
                idx = "start"
            if ("eq", i, el) in facts:
                idx = "end" if idx is None else "both"
        else:
            v = e
            if isinstance(e, ast.Name):
                rd = [x for x in reaching_defs(ctx, f, at, e.id) if x is not None and x != "param"]
                v = rd[0] if len(rd) == 1 else None
            if isinstance(v, ast.Subscript) and "contents_split" in unparse(v.value):
                ix = unparse(v.slice)
                idx = "start" if ix == sl else ("end" if ix == el else None)
        if idx in ("start", "end") and same:
            idx = "both"
        return idx

    # a coordinate re-bound after it was read from the range: only a clamp to the length of
    # the line the coordinate belongs to leaves the addressed position unchanged
    own_line = {sc: sl, ec: el}
    for st in ctx.m.walk_own(f.node):
        tgts = []
        if isinstance(st, ast.Assign):
            tgts = [t.id for t in st.targets if isinstance(t, ast.Name)]
        elif isinstance(st, ast.AugAssign) and isinstance(st.target, ast.Name):
            tgts = [st.target.id]
        for c in tgts:
            if c not in own_line or (isinstance(st, ast.Assign) and isinstance(st.value, ast.Subscript) and coord.get(c) and "character" in unparse(st.value)):
                continue
            facts = F.at(st) or set()
            same = ("eq", sl, el) in facts or ("eq", el, sl) in facts
            lens = [x for x in ast.walk(st.value) if isinstance(x, ast.Call) and isinstance(x.func, ast.Name) and x.func.id == "len" and x.args and isinstance(x.args[0], ast.Subscript) and "contents_split" in unparse(x.args[0].value)]
            is_min = isinstance(st, ast.Assign) and isinstance(st.value, ast.Call) and isinstance(st.value.func, ast.Name) and st.value.func.id == "min" and any(isinstance(a, ast.Name) and a.id == c for a in st.value.args) and len(st.value.args) == 2
            if is_min and len(lens) == 1:
                k = unparse(lens[0].args[0].slice)
                if k == own_line[c] or same and k in (sl, el):
                    R.ok("C02.R5", f.short, key(f, st) + " :: clamp", loc(f, st), f"{c} clamped to the length of its own line")
                elif k in (sl, el):
                    R.violation("C02.R5", f.short, key(f, st) + " :: clamp", loc(f, st), f"{c} addresses line `{own_line[c]}` but is clamped to the length of line `{k}`: a multi-line range whose {coord[c][0]} character exceeds the length of the other line keeps or drops the wrong text")
                else:
                    R.undecided("C02.R5", f.short, key(f, st) + " :: clamp", loc(f, st), f"{c} clamped against line `{k}`")
            else:
                R.undecided("C02.R5", f.short, key(f, st) + " :: coordinate re-bound", loc(f, st), f"{c} is re-bound after it was read from the range")
    n = 0
    for s_ in ast.walk(f.node):
        if not (isinstance(s_, ast.Subscript) and isinstance(s_.slice, ast.Slice)):
            continue
        lo, hi = s_.slice.lower, s_.slice.upper
        names = {x.id for x in ast.walk(s_.slice) if isinstance(x, ast.Name)}
        if not names & {sc, ec}:
            continue
        st = ctx.m.enclosing_stmt(s_)
        n += 1
        which = line_index(s_.value, s_)
        if lo is None and hi is not None:  # kept prefix  X[:c]
            c = unparse(hi)
            if c == sc and which in ("start", "both"):
                R.ok("C02.R5", f.short, key(f, st) + " :: prefix", loc(f, s_), "prefix of the start line up to the start character")
            elif which is None:
                R.undecided("C02.R5", f.short, key(f, st) + " :: prefix", loc(f, s_), "line of the kept prefix not identified")
            else:
                R.violation("C02.R5", f.short, key(f, st) + " :: prefix", loc(f, s_), f"the kept prefix is {unparse(s_)} of the {which} line; the protocol keeps old[:start] i.e. the start line up to the start character")
        elif hi is None and lo is not None:  # kept suffix X[c:]
            c = unparse(lo)
            if c == ec and which in ("end", "both"):
                R.ok("C02.R5", f.short, key(f, st) + " :: suffix", loc(f, s_), "suffix of the end line from the end character")
            elif which is None:
                R.undecided("C02.R5", f.short, key(f, st) + " :: suffix", loc(f, s_), "line of the kept suffix not identified")
            else:
                R.violation("C02.R5", f.short, key(f, st) + " :: suffix", loc(f, s_), f"the kept suffix is {unparse(s_)} of the {which} line; the protocol keeps old[end:] i.e. the end line from the end character")
        else:
            R.undecided("C02.R5", f.short, key(f, st), loc(f, s_), "slice with both bounds")
    # copy condition: strictly outside [start line, end line]
    for lp in (x for x in ctx.m.walk_own(f.node) if isinstance(x, ast.For)):
        if not (isinstance(lp.target, ast.Tuple) and isinstance(lp.target.elts[0], ast.Name) and lp.target.elts[0].id in enum.values()):
            continue
        i = lp.target.elts[0].id
        for t in (x for x in ast.walk(lp) if isinstance(x, ast.If)):
            cmps = [c for c in ast.walk(t.test) if isinstance(c, ast.Compare) and len(c.ops) == 1 and isinstance(c.left, ast.Name) and c.left.id == i and isinstance(c.comparators[0], ast.Name) and c.comparators[0].id in (sl, el) and isinstance(c.ops[0], (ast.Lt, ast.LtE, ast.Gt, ast.GtE))]
            if len(cmps) < 2:
                continue
            copies = any(isinstance(c.func, ast.Attribute) and c.func.attr == "append" and c.args and isinstance(c.args[0], ast.Name) and c.args[0].id in enum for s2 in t.body for c in calls_in(s2))
            if not copies:
                continue
            n += 1
            bad = []
            for c in cmps:
                tgt = c.comparators[0].id
                if isinstance(c.ops[0], ast.Lt) and tgt == sl or isinstance(c.ops[0], ast.Gt) and tgt == el:
                    continue
                bad.append(unparse(c))
            if bad:
                R.violation("C02.R5", f.short, f"if {unparse(t.test)} :: copy unchanged", loc(f, t), f"lines are copied unchanged under {' / '.join(bad)}; only lines strictly before the start line or strictly after the end line are outside the edit")
            else:
                R.ok("C02.R5", f.short, f"if {unparse(t.test)} :: copy unchanged", loc(f, t), "lines strictly outside [start line, end line] are copied")
    if n == 0:
        R.undecided("C02.R5", f.short, "ranged edit", loc(f, f.node), "no recognised splice shape")


def r6(ctx, R):
    R.rule("C02.R6", "the raw change text is written into one existing line only when the splitter found exactly one line in it (the shortcut and the splitter agree on what a line break is)", floor=1, confirmed=1)
    f = edit_routine(ctx)
    F = ctx.facts(f, interproc=False)
    raw = None
    for st in ctx.m.walk_own(f.node):
        if isinstance(st, ast.Assign) and isinstance(st.targets[0], ast.Name) and isinstance(st.value, ast.Call) and isinstance(st.value.func, ast.Attribute) and st.value.func.attr == "get" and st.value.args and isinstance(st.value.args[0], ast.Constant) and st.value.args[0].value == "text":
            raw = st.targets[0].id
        elif isinstance(st, ast.Assign) and isinstance(st.targets[0], ast.Name) and isinstance(st.value, ast.Subscript) and isinstance(st.value.slice, ast.Constant) and st.value.slice.value == "text":
            raw = st.targets[0].id
    if raw is None:
        raise AnalysisError(f"{f.short}: variable holding change['text'] not found")
    split_vars = set()
    for st in ctx.m.walk_own(f.node):
        if isinstance(st, ast.Assign) and isinstance(st.targets[0], ast.Name) and isinstance(st.value, ast.Call) and any(isinstance(a, ast.Name) and a.id == raw for a in st.value.args) and splitter_of(ctx, f, st.value)[0] != "other":
            split_vars.add(st.targets[0].id)
    n = 0
    for st in ctx.m.walk_own(f.node):
        if not (isinstance(st, ast.Assign) and isinstance(st.targets[0], ast.Subscript) and "contents" in unparse(st.targets[0].value)):
            continue
        v = st.value
        # follow one level of locals
        names = {x.id for x in ast.walk(v) if isinstance(x, ast.Name)}
        if raw not in names:
            continue
        n += 1
        facts = F.at(st) or set()
        ok = any(b[0] == "cond" and b[2] is True and any(b[1] == f"len({sv}) == 1" for sv in split_vars) for b in facts) or any(b[0] == "eq" and any(f"len({sv})" in (str(b[1]), str(b[2])) and "1" in (str(b[1]), str(b[2])) for sv in split_vars) for b in facts if len(b) > 2)
        k = key(f, st)[:90]
        if ok:
            R.ok("C02.R6", f.short, k, loc(f, st), f"under len({sorted(split_vars)[0] if split_vars else '?'}) == 1")
        else:
            R.violation("C02.R6", f.short, k, loc(f, st), f"`{raw}` is spliced into a single buffer line without the fact that the line splitter found exactly one line in it: text containing a line break the shortcut's own test does not know (a lone CR, CRLF) stays inside one server line while the client has two")
    if n == 0:
        R.ok("C02.R6", f.short, "no single-line shortcut", loc(f, f.node), "the raw text is never written into a line directly")


def r7(ctx, R):
    """Every line of the inserted text ends up in the buffer.  A splice that takes a
    proper slice of the inserted lines (`new[:-1]`, `new[1:]`) must use the element
    it leaves out in the same branch (it is glued to the kept prefix / suffix);
    otherwise that piece of the client's text silently disappears."""
    R.rule("C02.R7", "the inserted text is used whole: a splice that slices the inserted lines also uses the element the slice leaves out", floor=1, confirmed=1)
    f = edit_routine(ctx)
    names = [st.targets[0].id for st, c in splitter_calls(ctx, f) if isinstance(st, ast.Assign) and len(st.targets) == 1 and isinstance(st.targets[0], ast.Name)]
    if not names:
        R.undecided("C02.R7", f.short, "inserted lines", loc(f, f.node), "no local holds the split inserted text")
        return
    for nm in names:
        uses = [x for x in ctx.m.walk_own(f.node) if isinstance(x, ast.Subscript) and isinstance(x.value, ast.Name) and x.value.id == nm]
        slices = [x for x in uses if isinstance(x.slice, ast.Slice)]
        if not slices:
            R.ok("C02.R7", f.short, f"{nm}: never sliced", loc(f, f.node), f"{len(uses)} element reads, whole-list iteration otherwise")
            continue
        for sl_ in slices:
            st = ctx.m.enclosing_stmt(sl_)
            lo, hi = sl_.slice.lower, sl_.slice.upper
            def const(e):
                try:
                    return ast.literal_eval(e) if e is not None else None
                except Exception:
                    return "?"
            lo_v, hi_v = const(lo), const(hi)
            dropped = []
            if hi_v == -1:
                dropped.append(-1)
            elif hi_v is not None:
                dropped.append("?")
            if lo_v == 1:
                dropped.append(0)
            elif lo_v not in (None, 0):
                dropped.append("?")
            # the block the statement sits in (the branch that is executed together with it)
            par = ctx.m.parent.get(st)
            block = None
            for fld_ in ("body", "orelse", "finalbody"):
                b = getattr(par, fld_, None)
                if isinstance(b, list) and st in b:
                    block = b
            block = block or [st]
            idx_used = set()
            for s2 in block:
                for x in ast.walk(s2):
                    if isinstance(x, ast.Subscript) and isinstance(x.value, ast.Name) and x.value.id == nm and not isinstance(x.slice, ast.Slice):
                        v = const(x.slice)
                        idx_used.add(v)
            k = key(f, st)[:90]
            if "?" in dropped:
                R.undecided("C02.R7", f.short, k, loc(f, sl_), f"slice `{unparse(sl_)}` of the inserted lines with non-constant bounds")
            elif all(d in idx_used for d in dropped):
                R.ok("C02.R7", f.short, k, loc(f, sl_), f"`{unparse(sl_)}`: the left-out element(s) {dropped} are used in the same branch")
            else:
                miss = [d for d in dropped if d not in idx_used]
                R.violation("C02.R7", f.short, k, loc(f, sl_), f"the buffer is rebuilt from `{unparse(sl_)}` and element {miss} of the inserted lines is used nowhere in that branch: when the inserted text does not end in a line break (or does not start with one) that piece of the client's text is lost and the two buffers diverge")



def run(ctx, R):
    r1_r2(ctx, R)
    r3(ctx, R)
    r4(ctx, R)
    r5(ctx, R)
    r6(ctx, R)
    r7(ctx, R)
