"""C04 — outline and workspace symbols mirror the block structure
(DESIGN.md 3/C04): the tables END matching rests on, not END matching itself."""
from __future__ import annotations

import ast
import re

from sa import rex
from sa.model import AnalysisError, access_path, unparse

from .shared import calls_in, deref, dispatch_table, key, loc, server_class

PROGRAM_UNITS = {"Module", "Submodule", "Program", "Subroutine", "Function"}
# LSP SymbolKind values acceptable for each notion (deliberately loose: the two
# tables of the repository already differ inside these sets)
KINDS = {
    "module": {2}, "submodule": {2}, "subroutine": {6, 12}, "function": {6, 12}, "type": {5, 23},
    "interface": {11}, "variable": {13, 8, 7}, "method": {6},
}


def parse_func(ctx):
    from .c02 import file_class

    fc = file_class(ctx)
    return ctx.m.funcs[fc.methods["parse"]]


def pattern_words(rx_):
    """maximal runs of literal letters in a pattern (upper-cased)"""
    return {w.upper() for w in re.findall(r"[A-Za-z_]{2,}", re.sub(r"\\[a-zA-Z]", " ", rx_.text))}


def tag_producers(ctx):
    """tag -> set of producer functions (quals) among def_tests and their callees"""
    pf = parse_func(ctx)
    tests = ctx.r.module_func_list(pf.rel, ast.Name(id="def_tests", ctx=ast.Load()))
    if len(tests) < 10:
        raise AnalysisError("def_tests registry not found")
    out = {}
    for q in tests:
        f = ctx.m.funcs[q]
        for r in (n for n in ctx.m.walk_own(f.node) if isinstance(n, ast.Return) and n.value is not None):
            v = r.value
            if isinstance(v, ast.Tuple) and v.elts and isinstance(v.elts[0], ast.Constant) and isinstance(v.elts[0].value, str):
                out.setdefault(v.elts[0].value, set()).add(q)
    return out, tests


def producer_patterns(ctx, q):
    f = ctx.m.funcs[q]
    out = []
    for c in calls_in(f.node):
        if isinstance(c.func, ast.Attribute) and c.func.attr in ("match", "search"):
            nm = ctx.p.fregex_ref(f.rel, c.func.value)
            if nm:
                out.append(nm)
        elif isinstance(c.func, ast.Name) and c.func.id == "get_procedure_modifiers" and len(c.args) > 1:
            nm = ctx.p.fregex_ref(f.rel, c.args[1])
            if nm:
                out.append(nm)
    return out


def r1_r2(ctx, R):
    R.rule("C04.R1", "opener/closer pairing: each construct is closed by its own keyword, every closer keyword is a recognised END word, non-unit constructs require a container", floor=30, confirmed=48)
    R.rule("C04.R2", "statement-tag dispatch is exhaustive: tags produced by the statement readers = tags handled by the parser", floor=15, confirmed=21)
    pf = parse_func(ctx)
    prod, tests = tag_producers(ctx)
    # tags handled in parse: obj_type == "<tag>"
    handled = {}
    for n in ctx.m.walk_own(pf.node):
        if isinstance(n, ast.If) and isinstance(n.test, ast.Compare) and len(n.test.ops) == 1 and isinstance(n.test.ops[0], ast.Eq) and isinstance(n.test.comparators[0], ast.Constant) and isinstance(n.test.comparators[0].value, str) and isinstance(n.test.left, ast.Name) and "type" in n.test.left.id:
            handled[n.test.comparators[0].value] = n
    for tag in sorted(set(prod) | set(handled)):
        if tag in prod and tag in handled:
            R.ok("C04.R2", pf.short, f"tag {tag!r}", loc(pf, handled[tag]), "produced by " + ", ".join(sorted(q.split(":")[1] for q in prod[tag])))
        elif tag in prod:
            q = sorted(prod[tag])[0]
            R.violation("C04.R2", ctx.m.funcs[q].short, f"tag {tag!r}", loc(ctx.m.funcs[q], ctx.m.funcs[q].node), f"statements read as {tag!r} have no branch in the parser: the construct is silently dropped from the index")
        else:
            R.violation("C04.R2", pf.short, f"tag {tag!r}", loc(pf, handled[tag]), f"the parser handles {tag!r} but no statement reader produces it (dead branch or a misspelt tag)")
    # add_scope calls
    end_word = ctx.p.named.get("END_WORD")
    if end_word is None or end_word.tree is None:
        raise AnalysisError("END_WORD pattern not found")
    g = rex.group_node(end_word.tree, 1)
    seq, i = g
    end_alts = set(rex.keyword_alternatives(seq[i][1][3]))
    closers_by_class = {}
    n_calls = 0
    for tag, br in sorted(handled.items()):
        for c in (x for st in br.body for x in calls_in(st)):
            if not (isinstance(c.func, ast.Attribute) and c.func.attr == "add_scope" and len(c.args) >= 2):
                continue
            n_calls += 1
            obj = c.args[0]
            if isinstance(obj, ast.Name):
                from .shared import reaching_defs

                rd = [v for v in reaching_defs(ctx, pf, c, obj.id) if v is not None and v != "param"]
                if len(rd) == 1:
                    obj = rd[0]
            cls = obj.func.id if isinstance(obj, ast.Call) and isinstance(obj.func, ast.Name) else None
            closer = ctx.p.fregex_ref(pf.rel, c.args[1])
            st = ctx.m.enclosing_stmt(c)
            k = f"{cls or '?'} closed by {closer or unparse(c.args[1])[:30]} (tag {tag!r})"
            if closer is None or cls is None:
                R.undecided("C04.R1", pf.short, k, loc(pf, c), "class or closer not a direct constructor / FRegex reference")
                continue
            rx_ = ctx.p.named[closer]
            cw = pattern_words(rx_)
            # (a) closer keywords are END words
            notend = sorted(w for w in cw if w not in end_alts)
            if notend:
                R.violation("C04.R1", pf.short, k + " :: END word", loc(pf, c), f"closer {closer} = {rx_.text!r} uses {notend}, which END_WORD does not list: 'END {notend[0]}' is not recognised as an END statement, so the construct is only closed by a bare END")
            else:
                R.ok("C04.R1", pf.short, k + " :: END word", loc(pf, c), f"{sorted(cw)} listed in END_WORD")
            # (b) opener keywords
            ow = set()
            for q in prod.get(tag, ()):
                for nm in producer_patterns(ctx, q):
                    ow |= pattern_words(ctx.p.named[nm])
                # constants compared against (module procedure -> "procedure")
                ow |= {x.value.upper() for x in ast.walk(ctx.m.funcs[q].node) if isinstance(x, ast.Constant) and isinstance(x.value, str) and x.value.isalpha() and len(x.value) > 3}
            self_closing = any(isinstance(x.func, ast.Attribute) and x.func.attr == "end_scope" and x.lineno > c.lineno for st_ in br.body for x in calls_in(st_))
            if self_closing:
                R.ok("C04.R1", pf.short, k + " :: own keyword", loc(pf, c), "one-statement construct: closed by the same branch")
            elif cw & ow:
                R.ok("C04.R1", pf.short, k + " :: own keyword", loc(pf, c), f"opener and closer share {sorted(cw & ow)}")
            else:
                R.violation("C04.R1", pf.short, k + " :: own keyword", loc(pf, c), f"a {cls} is opened by {sorted(ow)[:4]} but closed by {sorted(cw)}: 'END {sorted(ow)[0] if ow else '?'}' does not close it and an END of another construct does")
            closers_by_class.setdefault(cls, set()).add(closer)
            # (d) container requirement
            req = any(kw.arg == "req_container" and isinstance(kw.value, ast.Constant) and kw.value.value is True for kw in c.keywords)
            if cls in PROGRAM_UNITS or cls == "Scope":
                if req:
                    R.violation("C04.R1", pf.short, k + " :: container", loc(pf, c), f"a {cls} is a program unit / procedure but is forced below an implicit main program")
                else:
                    R.ok("C04.R1", pf.short, k + " :: container", loc(pf, c), "may stand at top level")
            else:
                if req:
                    R.ok("C04.R1", pf.short, k + " :: container", loc(pf, c), "requires a containing scope")
                else:
                    R.violation("C04.R1", pf.short, k + " :: container", loc(pf, c), f"a {cls} at top level is registered as a global program unit (req_container missing): it shows up in the outline and workspace symbols as a unit")
    for cls, cs in sorted(closers_by_class.items()):
        if len(cs) > 1:
            R.violation("C04.R1", pf.short, f"{cls} has one closer", loc(pf, pf.node), f"{cls} objects are closed by different patterns {sorted(cs)}")
    if n_calls < 12:
        raise AnalysisError(f"only {n_calls} add_scope calls found in the parser")


def eval_map_types(fn):
    """{type id: set of returned kinds} for the explicit arms and the set of the
    catch-all arm, from an if/elif chain on the first parameter"""
    p0 = fn.args.args[0].arg
    arms, default = {}, set()

    def consts_of(node):
        out = set()
        for r in ast.walk(node):
            if isinstance(r, ast.Return) and isinstance(r.value, ast.Constant) and isinstance(r.value.value, int):
                out.add(r.value.value)
            elif isinstance(r, ast.Return) and isinstance(r.value, ast.Name) and r.value.id == p0:
                out.add("identity")
        return out

    def walk(stmts):
        nonlocal default
        for st in stmts:
            if isinstance(st, ast.If):
                t = st.test
                ids = []
                if isinstance(t, ast.Compare) and isinstance(t.left, ast.Name) and t.left.id == p0:
                    if isinstance(t.ops[0], ast.Eq) and isinstance(t.comparators[0], ast.Constant):
                        ids = [t.comparators[0].value]
                    elif isinstance(t.ops[0], ast.In) and isinstance(t.comparators[0], (ast.Tuple, ast.List, ast.Set)):
                        ids = [x.value for x in t.comparators[0].elts if isinstance(x, ast.Constant)]
                ks = set()
                for s2 in st.body:
                    ks |= consts_of(s2)
                for i in ids:
                    arms.setdefault(i, set()).update(ks)
                if st.orelse:
                    walk(st.orelse)
            elif isinstance(st, ast.Return):
                default |= consts_of(st)
    walk(fn.body)
    return arms, default


def r3(ctx, R):
    R.rule("C04.R3", "kind tables: every entity type that reaches a symbol table has an explicit arm, and the SymbolKind lies in the set the protocol offers for that notion", floor=10, confirmed=15)
    # type-id constants by notion
    consts = ctx.m.consts.get("fortls/constants.py", {})
    ids = {k: v.value for k, v in consts.items() if k.endswith("_TYPE_ID") and isinstance(v, ast.Constant)}
    notion = {ids.get("MODULE_TYPE_ID"): "module", ids.get("SUBMODULE_TYPE_ID"): "submodule", ids.get("SUBROUTINE_TYPE_ID"): "subroutine", ids.get("FUNCTION_TYPE_ID"): "function", ids.get("CLASS_TYPE_ID"): "type", ids.get("INTERFACE_TYPE_ID"): "interface", ids.get("VAR_TYPE_ID"): "variable", ids.get("METH_TYPE_ID"): "method"}
    notion.pop(None, None)
    for meth, needs in (("textDocument/documentSymbol", {"module", "submodule", "subroutine", "function", "type", "interface", "variable", "method"}), ("workspace/symbol", {"module", "subroutine", "function", "type", "interface", "variable", "method"})):
        for q in dispatch_table(ctx).get(meth, ()):
            f = ctx.m.funcs[q]
            mt = [g for g in ctx.m.nested_funcs(f) if g.name == "map_types"]
            if not mt:
                R.undecided("C04.R3", f.short, "kind table", loc(f, f.node), "no nested map_types")
                continue
            arms, default = eval_map_types(mt[0].node)
            for tid, nm in sorted(notion.items()):
                if nm not in needs:
                    continue
                k = f"{nm} (type id {tid})"
                if tid not in arms:
                    R.violation("C04.R3", mt[0].short, k, loc(mt[0], mt[0].node), f"no explicit arm for {nm}s: they fall through to the catch-all kind {sorted(default)}")
                    continue
                ks = arms[tid]
                if ks <= KINDS[nm]:
                    R.ok("C04.R3", mt[0].short, k, loc(mt[0], mt[0].node), f"SymbolKind {sorted(ks)}")
                else:
                    R.violation("C04.R3", mt[0].short, k, loc(mt[0], mt[0].node), f"a {nm} is reported with SymbolKind {sorted(ks - KINDS[nm])}, which the protocol defines as a different notion (expected one of {sorted(KINDS[nm])})")


def r4(ctx, R):
    from . import linebase

    funcs = set()
    for meth in ("textDocument/documentSymbol", "workspace/symbol"):
        for q in dispatch_table(ctx).get(meth, ()):
            funcs |= {q} | {g.qual for g in ctx.m.nested_funcs(ctx.m.funcs[q])}
    funcs |= {q for q, f in ctx.m.funcs.items() if f.rel.endswith("json_templates.py")}
    linebase.check(ctx, R, "C04.R4", funcs, "line bases: 1-based entity lines reach the symbol ranges through exactly one `- 1`", floor=6)


def r5(ctx, R):
    R.rule("C04.R5", "workspace query: case-insensitive containment, results sorted by name, only indexed units", floor=3, confirmed=4)
    fw = ctx.m.fn("find_in_workspace")
    from .c13 import explicit_norm

    finds = [c for c in calls_in(fw.node) if isinstance(c.func, ast.Attribute) and c.func.attr == "find"] + [n for n in ast.walk(fw.node) if isinstance(n, ast.Compare) and isinstance(n.ops[0], ast.In)]
    if not finds:
        R.undecided("C04.R5", fw.short, "containment test", loc(fw, fw.node), "no find()/in test")
    for c in finds:
        if isinstance(c, ast.Call):
            hay, needle = c.func.value, c.args[0]
        else:
            needle, hay = c.left, c.comparators[0]
        enc = ctx.m.enclosing_func(c) or fw
        hay_ok = explicit_norm(hay)
        needle_ok = explicit_norm(needle, ctx, enc, c) or (isinstance(needle, ast.Name) and any(isinstance(st, ast.Assign) and isinstance(st.targets[0], ast.Name) and st.targets[0].id == needle.id and explicit_norm(st.value) for st in ctx.m.walk_own(fw.node)))
        k = unparse(c)[:80]
        if hay_ok and needle_ok:
            R.ok("C04.R5", enc.short, k, loc(enc, c), "both operands lower-cased")
        else:
            R.violation("C04.R5", enc.short, k, loc(enc, c), "the containment test is case-sensitive on " + ("the symbol name" if not hay_ok else "the query"))
    # only entries with a file
    uri_guard = any(isinstance(n, ast.Compare) and isinstance(n.ops[0], ast.IsNot) and isinstance(n.comparators[0], ast.Constant) and n.comparators[0].value is None for n in ast.walk(fw.node))
    if uri_guard:
        R.ok("C04.R5", fw.short, "entries without a file are skipped", loc(fw, fw.node))
    else:
        R.violation("C04.R5", fw.short, "entries without a file are skipped", loc(fw, fw.node), "intrinsic modules (no file) are offered as workspace symbols")
    for q in dispatch_table(ctx).get("workspace/symbol", ()):
        f = ctx.m.funcs[q]
        rets = [r for r in ctx.m.walk_own(f.node) if isinstance(r, ast.Return) and r.value is not None]
        srt = [r for r in rets if isinstance(r.value, ast.Call) and isinstance(r.value.func, ast.Name) and r.value.func.id == "sorted" and any(kw.arg == "key" and "name" in unparse(kw.value) for kw in r.value.keywords)]
        presorted = any(isinstance(c.func, ast.Attribute) and c.func.attr == "sort" and any(kw.arg == "key" and "name" in unparse(kw.value) for kw in c.keywords) for c in calls_in(f.node))
        if rets and (len(srt) == len(rets) or presorted):
            R.ok("C04.R5", f.short, key(f, rets[-1]), loc(f, rets[-1]), "sorted by name")
        else:
            R.violation("C04.R5", f.short, key(f, rets[-1]) if rets else "return", loc(f, rets[-1] if rets else f.node), "the result is returned in table order, not sorted by name")


def r6(ctx, R):
    """A statement reader decides what kind of statement a line *is*: its opener pattern is
    applied at the start of the line (match(), or a pattern that is anchored itself).  With
    search() an unanchored keyword pattern recognises the construct in the middle of other
    statements (`WHERE (` inside `ELSEWHERE (mask)`), which opens a scope nothing closes."""
    R.rule("C04.R6", "statement readers recognise their statement at the start of the line: the opener pattern is applied to the whole line with match() (or is anchored)", floor=15, confirmed=22)
    _, tests = tag_producers(ctx)
    for q in sorted(tests):
        f = ctx.m.funcs[q]
        if not f.params:
            continue
        line = f.params[0]
        first = None
        for c in sorted(calls_in(f.node), key=lambda c: (c.lineno, c.col_offset)):
            if ctx.m.enclosing_func(c) is not f:
                continue
            if isinstance(c.func, ast.Attribute) and c.func.attr in ("match", "search", "fullmatch") and c.args and isinstance(c.args[0], ast.Name):
                nm = ctx.p.fregex_ref(f.rel, c.func.value)
                if nm:
                    first = (c, nm)
                    break
        if first is None:
            continue
        c, nm = first
        rx_ = ctx.p.named.get(nm)
        k = f"FRegex.{nm}.{c.func.attr}({unparse(c.args[0])})"
        if c.func.attr in ("match", "fullmatch"):
            R.ok("C04.R6", f.short, k, loc(f, c), "applied at the start of the line")
            continue
        anchored = False
        if rx_ is not None and rx_.tree is not None:
            its = list(rex.items(rx_.tree))
            anchored = bool(its) and its[0][0] is rex.C.AT and its[0][1] in (rex.C.AT_BEGINNING, rex.C.AT_BEGINNING_STRING)
        if anchored:
            R.ok("C04.R6", f.short, k, loc(f, c), "search() with a pattern anchored at the start")
        else:
            R.violation("C04.R6", f.short, k, loc(f, c), f"the reader looks for its opener anywhere in the line (search() with the unanchored pattern {rx_.text if rx_ is not None else nm!r}): other statements that contain the keyword (an ELSEWHERE with a mask, a name ending in the keyword) open this construct too, and the scope they open is never closed - the enclosing procedure runs to the end of the file and later units vanish from the outline")


def run(ctx, R):
    r1_r2(ctx, R)
    r3(ctx, R)
    r4(ctx, R)
    r5(ctx, R)
    r6(ctx, R)
