"""C01 — one response per request, in order; the server outlives handler failure.
DESIGN.md section 3/C01."""
from __future__ import annotations

import ast

from sa.cfg import forward_states
from sa.model import AnalysisError, access_path, unparse

from .shared import (
    defs_of,
    calls_in,
    connection_class,
    dispatch_table,
    dispatcher,
    key,
    loc,
    low_level_sender,
    response_writers,
    server_class,
    server_loop,
)

METHOD_NOT_FOUND = -32601
INTERNAL_ERROR = -32603


def _int_const(e):
    if isinstance(e, ast.Constant) and isinstance(e.value, int):
        return e.value
    if isinstance(e, ast.UnaryOp) and isinstance(e.op, ast.USub) and isinstance(e.operand, ast.Constant):
        return -e.operand.value
    return None


def _ctor_field_const(ctx, f, at, e):
    """`err.code` where `err` is bound (on every reaching definition) to a constructor call that
    passes `code=<int constant>`: that constant"""
    if not (isinstance(e, ast.Attribute) and isinstance(e.value, ast.Name)):
        return None
    from .shared import reaching_defs

    vals = set()
    for v in reaching_defs(ctx, f, at, e.value.id):
        if not isinstance(v, ast.Call):
            return None
        kw = next((k.value for k in v.keywords if k.arg == e.attr), None)
        c = _int_const(kw) if kw is not None else None
        if c is None:
            return None
        vals.add(c)
    return vals.pop() if len(vals) == 1 else None


def rpc_error_classes(ctx):
    """Repo exception classes caught by name in the dispatcher."""
    f, _ = dispatcher(ctx)
    out = set()
    for n in ctx.m.walk_own(f.node):
        if isinstance(n, ast.ExceptHandler) and n.type is not None:
            ts = n.type.elts if isinstance(n.type, ast.Tuple) else [n.type]
            for t in ts:
                q = ctx.m.resolve_class_name(f.rel, unparse(t))
                if q:
                    out.add(q)
    return out


def _arg(call, pos, name):
    for kw in call.keywords:
        if kw.arg == name:
            return kw.value
    if len(call.args) > pos:
        return call.args[pos]
    return None


# ------------------------------------------------------------------- R1
def r1(ctx, R):
    R.rule("C01.R1", "dispatch is total: lookup has a default whose every path raises MethodNotFound (-32601)", floor=3, confirmed=25)
    f, d = dispatcher(ctx)
    par = ctx.m.parent.get(d)
    default = None
    shape = None
    # {...}.get(k, D)
    if isinstance(par, ast.Attribute) and par.attr == "get" and isinstance(ctx.m.parent.get(par), ast.Call):
        call = ctx.m.parent[par]
        shape = "get"
        if len(call.args) >= 2:
            default = call.args[1]
        else:
            for kw in call.keywords:
                if kw.arg == "default":
                    default = kw.value
        if default is None:
            R.violation("C01.R1", f.short, "dispatch lookup", loc(f, d), "dispatch .get() has no default: an unknown method yields None and the call fails outside any MethodNotFound mapping")
            return
    elif isinstance(par, ast.Subscript) and par.value is d:
        R.violation("C01.R1", f.short, "dispatch lookup", loc(f, d), "dispatch table is subscripted without a default: an unknown method raises KeyError before any response is written")
        return
    else:
        # table bound to a name and consulted later: accept `if m in T: ... else: D`
        st = ctx.m.enclosing_stmt(d)
        tname = st.targets[0].id if isinstance(st, ast.Assign) and isinstance(st.targets[0], ast.Name) else None
        if tname:
            for n in ctx.m.walk_own(f.node):
                if isinstance(n, ast.Call) and isinstance(n.func, ast.Attribute) and n.func.attr == "get" and isinstance(n.func.value, ast.Name) and n.func.value.id == tname and len(n.args) >= 2:
                    default = n.args[1]
                    shape = "get"
        if default is None:
            R.undecided("C01.R1", f.short, "dispatch lookup", loc(f, d), "dispatch shape not recognised")
            return
    R.ok("C01.R1", f.short, "dispatch lookup", loc(f, d), "lookup with default " + unparse(default))
    # entries resolve to callables
    for k, v in zip(d.keys, d.values):
        tg = ctx.r.func_value_targets(f, v)
        kn = k.value if isinstance(k, ast.Constant) else unparse(k)
        if tg:
            R.ok("C01.R1", f.short, f"entry {kn!r}", loc(f, v), "-> " + ", ".join(sorted(t.split(":")[1] for t in tg)))
        else:
            R.undecided("C01.R1", f.short, f"entry {kn!r}", loc(f, v), "value is not a resolvable function reference")
    # default raises the RPC error with -32601 on every path
    rpc = rpc_error_classes(ctx)
    targets = ctx.r.func_value_targets(f, default)
    if not targets:
        R.undecided("C01.R1", f.short, "dispatch default", loc(f, default), "default is not a resolvable function")
        return
    for q in sorted(targets):
        g = ctx.m.funcs[q]
        cfg = ctx.cfg(g)
        normal_exit = cfg.exit.id in cfg.reachable_without([cfg.entry.id], set(), follow_exc=False)
        raises = [n for n in ctx.m.walk_own(g.node) if isinstance(n, ast.Raise)]
        bad = None
        if normal_exit:
            bad = "default handler can return normally: an unknown method is answered with a result, not MethodNotFound"
        elif not raises:
            bad = "default handler never raises"
        else:
            for r in raises:
                e = r.exc
                cq = None
                if isinstance(e, ast.Call) and isinstance(e.func, ast.Name):
                    cq = ctx.m.resolve_class_name(g.rel, e.func.id)
                if cq not in rpc:
                    bad = f"default handler raises {unparse(e) if e else 'bare'} which the dispatcher does not map to an RPC error with its own code"
                    break
                code = _int_const(_arg(e, 0, "code"))
                if code != METHOD_NOT_FOUND:
                    bad = f"unknown method is answered with code {unparse(_arg(e, 0, 'code')) if _arg(e, 0, 'code') is not None else '?'} instead of -32601 (MethodNotFound)"
                    break
        if bad:
            R.violation("C01.R1", g.short, "default handler raises MethodNotFound", loc(g, g.node), bad)
        else:
            R.ok("C01.R1", g.short, "default handler raises MethodNotFound", loc(g, g.node))


# ------------------------------------------------------------------- R2 + R5
def _is_request_id(e, req):
    """request["id"] or request.get("id")"""
    if isinstance(e, ast.Subscript) and isinstance(e.value, ast.Name) and e.value.id == req and isinstance(e.slice, ast.Constant) and e.slice.value == "id":
        return True
    if isinstance(e, ast.Call) and isinstance(e.func, ast.Attribute) and e.func.attr == "get" and isinstance(e.func.value, ast.Name) and e.func.value.id == req and e.args and isinstance(e.args[0], ast.Constant) and e.args[0].value == "id":
        return True
    return False


def _notif_test(e, req):
    """Truth value of `e` that means "this is a notification" or None."""
    if isinstance(e, ast.Compare) and len(e.ops) == 1:
        l, op, r = e.left, e.ops[0], e.comparators[0]
        if isinstance(l, ast.Constant) and l.value == "id" and isinstance(r, ast.Name) and r.id == req:
            if isinstance(op, ast.NotIn):
                return True
            if isinstance(op, ast.In):
                return False
        if _is_request_id(l, req) and isinstance(r, ast.Constant) and r.value is None:
            if isinstance(op, (ast.Is, ast.Eq)):
                return True
            if isinstance(op, (ast.IsNot, ast.NotEq)):
                return False
    return None


def _plain_ctor(ctx, cq):
    """the class's __init__ (if any) consists of plain stores of its parameters / constants"""
    q = ctx.m.method(cq, "__init__")
    if not q:
        return True
    g = ctx.m.funcs[q]
    for st in g.node.body:
        if isinstance(st, ast.Expr) and isinstance(st.value, ast.Constant):
            continue
        if isinstance(st, (ast.Assign, ast.AnnAssign)) and not any(isinstance(x, (ast.Call, ast.Subscript, ast.Await)) for x in ast.walk(st)):
            continue
        if isinstance(st, ast.Pass):
            continue
        return False
    return True


def _benign_raise_site(ctx, f, node, req, facts_at):
    """Raise sites of the dispatcher that the premises exclude (DESIGN C01.R5):
    logging, traceback formatting, str(), reads of the message dict."""
    a = node.ast
    roots = [a] if not isinstance(a, ast.With) else [i.context_expr for i in a.items]
    for r in roots:
        for n in ast.walk(r):
            # request["id"] / ["method"] exist for every well-formed request; any other member
            # ("params" is optional in JSON-RPC) may be missing: the subscript raises KeyError
            if isinstance(n, ast.Subscript) and isinstance(n.ctx, ast.Load) and isinstance(n.value, ast.Name) and n.value.id == req and isinstance(n.slice, ast.Constant) and n.slice.value not in ("id", "method", "jsonrpc"):
                return False
            if isinstance(n, ast.Call):
                d = ctx.m.dotted(f.rel, n.func) if isinstance(n.func, (ast.Name, ast.Attribute)) else None
                if d and (d.split(".")[-1] in ("debug", "info", "warning", "error", "exception", "critical", "log") and ("log" in d.lower())):
                    continue
                if d in ("traceback.format_exc", "str", "repr", "type"):
                    continue
                # building one of the repo's own exception objects whose constructor only stores
                # its arguments (no call, no raise inside): cannot fail
                if isinstance(n.func, ast.Name):
                    cq = ctx.m.resolve_class_name(f.rel, n.func.id)
                    if cq is not None and _plain_ctor(ctx, cq):
                        continue
                if isinstance(n.func, ast.Attribute) and n.func.attr == "get" and isinstance(n.func.value, (ast.Name, ast.Dict)):
                    if isinstance(n.func.value, ast.Dict) or n.func.value.id == req:
                        continue
                    # a local that only ever holds a dict display, or a plain copy of the message
                    vals = [v for _, v in defs_of(ctx, f, n.func.value.id)]
                    if vals and all(isinstance(v, ast.Dict) or isinstance(v, ast.Name) and v.id == req for v in vals):
                        continue
                return False
            if isinstance(n, ast.Raise):
                return False
    return True


def r2(ctx, R):
    R.rule("C01.R2", "every path of the dispatcher: exactly one response with the request's id per request, none per notification; handler failures mapped to error responses", floor=3, confirmed=8)
    R.rule("C01.R5", "no exception escapes the dispatcher except from premise-excluded sites", floor=1, confirmed=8)
    f, d = dispatcher(ctx)
    if len(f.params) < 2:
        raise AnalysisError("dispatcher has no request parameter")
    req = f.params[1]
    cfg = ctx.cfg(f)
    writers = response_writers(ctx)
    rpc = rpc_error_classes(ctx)
    lfv = ctx.r.local_func_values(f)
    table_targets = set()
    for v in dispatch_table(ctx).values():
        table_targets |= v

    def node_events(n):
        ev = []
        if n.ast is None or n.kind not in ("stmt", "test"):
            return ev
        roots = [n.ast] if not isinstance(n.ast, ast.With) else [i.context_expr for i in n.ast.items]
        for r in roots:
            for c in ast.walk(r):
                if not isinstance(c, ast.Call):
                    continue
                kind, tg = ctx.r.resolve_call(f, c)
                if kind == "registry" or (tg and tg & table_targets and kind != "external"):
                    ev.append(("CALL", c))
                wk = {writers[t] for t in tg if t in writers} if kind != "external" else set()
                if wk:
                    ev.append(("RESP", c, "result" if wk == {"result"} else "error"))
        return ev

    events = {n.id: node_events(n) for n in cfg.nodes}
    F = ctx.facts(f, interproc=False)

    # abstract state: (notif, nresp(0,1,2), called, first bad message or None)
    problems = {}
    escapes = {}

    def step(n, s, lab):
        notif, nresp, called, inhandler = s
        is_exc = bool(lab and lab[0] == "exc")
        evs = events[n.id]
        if is_exc:
            # exceptional exit from this node: only the handler call and unknown
            # calls propagate; benign sites are outside the premises
            has_call = any(e[0] == "CALL" for e in evs)
            has_resp = any(e[0] == "RESP" for e in evs)
            if has_resp and not has_call:
                # writers raise only through json.dumps (rule R6) - but their argument expressions
                # are evaluated first: a member of the message that may be missing raises here
                risky = [x for x in ast.walk(n.ast) if isinstance(x, ast.Subscript) and isinstance(x.ctx, ast.Load) and isinstance(x.value, ast.Name) and x.value.id == req and isinstance(x.slice, ast.Constant) and x.slice.value not in ("id", "method", "jsonrpc")]
                if not risky:
                    return []
                escapes[n.id] = "unlisted"
                return [(notif, nresp, called, lab[1])]
            if not has_call:
                if _benign_raise_site(ctx, f, n, req, None):
                    escapes.setdefault(n.id, "benign")
                    return []
                escapes[n.id] = "unlisted"
            if has_call:
                called = True
            # which handler gets it: lab[1] names the handler types
            return [(notif, nresp, called, lab[1])]
        for e in evs:
            if e[0] == "CALL":
                called = True
            elif e[0] == "RESP":
                call = e[1]
                rid = _arg(call, 0, "rid")
                where = key(f, ctx.m.enclosing_stmt(call))
                if rid is None or not _is_request_id(rid, req):
                    problems[(where, "rid")] = (call, f"response id is {unparse(rid) if rid is not None else 'missing'}, not the id of the request being handled")
                if not called:
                    problems[(where, "order")] = (call, "response written before the handler ran")
                if e[2] == "error":
                    code = _arg(call, 1, "code")
                    hnames = inhandler or ()
                    in_rpc = any(ctx.m.resolve_class_name(f.rel, nm) in rpc for nm in hnames)
                    if in_rpc:
                        okc = isinstance(code, ast.Attribute) and code.attr == "code"
                        if not okc:
                            problems[(where, "code")] = (call, f"RPC error answered with code {unparse(code) if code is not None else '?'} instead of the error's own code")
                    else:
                        if _int_const(code) != INTERNAL_ERROR and _ctor_field_const(ctx, f, call, code) != INTERNAL_ERROR:
                            problems[(where, "code")] = (call, f"handler failure answered with code {unparse(code) if code is not None else '?'} instead of -32603 (InternalError)")
                nresp = min(2, nresp + 1)
        if lab and lab[0] in ("T", "F"):
            v = _notif_test(lab[1], req)
            if v is not None:
                notif = v if lab[0] == "T" else (not v)
        if n.kind == "handler":
            pass
        return [(notif, nresp, called, inhandler)]

    IN = forward_states(cfg, (None, 0, False, None), step)
    npaths = 0
    for s in IN.get(cfg.exit.id, ()):
        notif, nresp, called, _ = s
        npaths += 1
        desc = f"exit state notification={notif} responses={nresp} handler_called={called}"
        if notif is None:
            R.violation("C01.R2", f.short, "request/notification split", loc(f, f.node), "a path reaches the end of the dispatcher without ever testing for the presence of an id: requests and notifications are treated alike", state=desc)
        elif notif and nresp != 0:
            R.violation("C01.R2", f.short, "notification path", loc(f, f.node), "a response is written for a notification", state=desc)
        elif notif is False and nresp != 1:
            R.violation("C01.R2", f.short, "request path", loc(f, f.node), f"{'no' if nresp == 0 else 'more than one'} response on a path handling a request", state=desc)
        elif not called:
            R.violation("C01.R2", f.short, "handler call", loc(f, f.node), "a path completes without calling the selected handler", state=desc)
        else:
            R.ok("C01.R2", f.short, f"path class notif={notif} resp={nresp}", loc(f, f.node), desc)
    for s in IN.get(cfg.xexit.id, ()):
        notif, nresp, called, _ = s
        npaths += 1
        R.violation("C01.R2", f.short, f"exceptional exit notif={notif} resp={nresp}", loc(f, f.node),
                    "an exception of the handler (or an unlisted call) can leave the dispatcher: " + ("the notification kills the server loop" if notif else "the request gets no response and the server loop ends"))
    for (where, what), (call, msg) in sorted(problems.items(), key=lambda x: x[0]):
        R.violation("C01.R2", f.short, where, loc(f, call), msg)
    if not problems:
        for n in cfg.nodes:
            for e in events[n.id]:
                if e[0] == "RESP":
                    R.ok("C01.R2", f.short, key(f, ctx.m.enclosing_stmt(e[1])), loc(f, e[1]), "id = request id, after handler, code mapping ok")
    for nid, cls in sorted(escapes.items()):
        n = cfg.nodes[nid]
        st = n.ast
        if cls == "benign":
            R.ok("C01.R5", f.short, key(f, st) if isinstance(st, ast.stmt) else unparse(st), loc(f, st), "raise site excluded by the premises (logging / message-dict read / formatting)")
        else:
            R.violation("C01.R5", f.short, key(f, st) if isinstance(st, ast.stmt) else unparse(st), loc(f, st), "a call outside any catch-all handler can raise out of the dispatcher; the server loop ends")
    # the subscript request["method"] used for dispatch is premise (well-formed message)
    R.notes.append("C01.R2: %d exit states enumerated over the dispatcher CFG (%d nodes)" % (npaths, len(cfg.nodes)))


# ------------------------------------------------------------------- R3
def r3(ctx, R):
    R.rule("C01.R3", "only the dispatcher answers: response writers / raw sender / blocking request senders have no other callers", floor=3, confirmed=9)
    f, _ = dispatcher(ctx)
    cc = connection_class(ctx)
    writers = response_writers(ctx)
    sender = low_level_sender(ctx)
    for wq in sorted(writers):
        for g, call, kind in ctx.r.callers(wq):
            st = ctx.m.enclosing_stmt(call)
            if g.qual == f.qual:
                R.ok("C01.R3", g.short, key(g, st), loc(g, call), "response written by the dispatcher")
            else:
                rid = _arg(call, 0, "rid")
                R.violation("C01.R3", g.short, key(g, st), loc(g, call),
                            f"{wq.split(':')[1]} is called outside the dispatcher (id argument {unparse(rid) if rid is not None else '?'}): a response that pairs with no request, or a second response")
    for g, call, kind in ctx.r.callers(sender.qual):
        st = ctx.m.enclosing_stmt(call)
        owner = g
        while owner.parent:
            owner = ctx.m.funcs[owner.parent]
        if owner.cls == cc.qual:
            R.ok("C01.R3", g.short, key(g, st), loc(g, call), "raw sender used by the connection's own senders")
        else:
            R.violation("C01.R3", g.short, key(g, st), loc(g, call), "the raw frame sender is called from outside the connection class")
    # blocking senders (they read from the wire): unreachable from the server class
    blocking = set()
    for name, q in cc.methods.items():
        g = ctx.m.funcs[q]
        if q == cc.methods.get("read_message"):
            continue
        for c in calls_in(g.node):
            if isinstance(c.func, ast.Attribute) and c.func.attr == "read_message":
                blocking.add(q)
    sc = server_class(ctx)
    roots = [q for q in sc.methods.values()]
    reach = ctx.r.reachable(roots)
    for b in sorted(blocking):
        if b in reach:
            cs = [(g, c) for g, c, k in ctx.r.callers(b) if g.qual in reach]
            for g, c in cs:
                R.violation("C01.R3", g.short, key(g, ctx.m.enclosing_stmt(c)), loc(g, c), f"{b.split(':')[1]} reads from the wire while a request is being handled: later messages are consumed out of order")
        else:
            R.ok("C01.R3", b.split(":")[1], "blocking sender unreachable from the server", loc(ctx.m.funcs[b], ctx.m.funcs[b].node))


# ------------------------------------------------------------------- R4
def r4(ctx, R):
    R.rule("C01.R4", "the server loop ends only on exit / end of input; one synchronous dispatch per message read", floor=4, confirmed=7)
    f, w, readcall = server_loop(ctx)
    disp, d = dispatcher(ctx)
    # loop condition field
    fields = [n.attr for n in ast.walk(w.test) if isinstance(n, ast.Attribute) and isinstance(n.value, ast.Name) and n.value.id == f.params[0]]
    if not fields:
        R.undecided("C01.R4", f.short, "loop condition", loc(f, w), "loop test does not read a field of the server")
        return
    fld = fields[0]
    R.ok("C01.R4", f.short, f"loop condition reads self.{fld}", loc(f, w))
    # writers of the field with a falsy value
    table = dispatch_table(ctx)
    exit_targets = table.get("exit", set())
    stoppers = {}
    for g in ctx.m.funcs.values():
        for n in ctx.m.walk_own(g.node):
            if isinstance(n, (ast.Assign, ast.AnnAssign)):
                tg = n.targets if isinstance(n, ast.Assign) else [n.target]
                for t in tg:
                    if isinstance(t, ast.Attribute) and t.attr == fld and n.value is not None:
                        v = n.value
                        truthy_const = isinstance(v, ast.Constant) and bool(v.value)
                        if not truthy_const:
                            # only stores on a server instance matter
                            ks = ctx.r.expr_classes(g, t.value)
                            if ks is None or server_class(ctx).qual in ks:
                                stoppers.setdefault(g.qual, []).append(n)
    if not exit_targets:
        R.violation("C01.R4", disp.short, "entry 'exit'", loc(disp, d), "no handler registered for 'exit'")
    # every registered method that (transitively) stops the loop must be 'exit'
    for mname, tgs in sorted(table.items()):
        reach = ctx.r.reachable(tgs, by_name=False)
        stops = sorted(q for q in reach if q in stoppers)
        if mname == "exit":
            if stops:
                R.ok("C01.R4", disp.short, "entry 'exit' stops the loop", loc(disp, d), "via " + stops[0].split(":")[1])
            else:
                R.violation("C01.R4", disp.short, "entry 'exit' stops the loop", loc(disp, d), f"the handler registered for 'exit' never clears self.{fld}: the server cannot be stopped")
        elif stops:
            R.violation("C01.R4", disp.short, f"entry {mname!r}", loc(disp, d), f"handling {mname!r} clears self.{fld} (in {stops[0].split(':')[1]}): the server stops serving before it receives exit")
    registered = set()
    for tgs in table.values():
        registered |= ctx.r.reachable(tgs, by_name=False)
    for q, nodes in sorted(stoppers.items()):
        g = ctx.m.funcs[q]
        if q not in registered:
            for n in nodes:
                R.violation("C01.R4", g.short, key(g, n), loc(g, n), f"self.{fld} is cleared outside the 'exit' handler")
    # exits from the loop body
    for n in ast.walk(w):
        if isinstance(n, (ast.Break, ast.Return, ast.Raise)) and ctx.m.enclosing_func(n) is f:
            p = ctx.m.parent.get(n)
            h = None
            while p is not None and p is not w:
                if isinstance(p, ast.ExceptHandler):
                    h = p
                    break
                p = ctx.m.parent.get(p)
            if h is None:
                R.violation("C01.R4", f.short, key(f, n), loc(f, n), "the server loop is left outside an exception handler")
            else:
                names = [unparse(t).split(".")[-1] for t in (h.type.elts if isinstance(h.type, ast.Tuple) else [h.type])] if h.type is not None else []
                if (names and set(names) <= {"EOFError"}) or not names or set(names) <= {"Exception", "BaseException"}:
                    R.ok("C01.R4", f.short, f"{type(n).__name__.lower()} in except {'/'.join(names) or 'all'}", loc(f, n), "end of input, or the documented unexpected-error exit (unreachable from the dispatcher by R2/R5)")
                else:
                    R.violation("C01.R4", f.short, key(f, n), loc(f, n), f"the server loop ends on {'/'.join(names)}")
    # read without predicate; dispatch exactly once per iteration, synchronously, on the message read
    if readcall.args or readcall.keywords:
        R.violation("C01.R4", f.short, key(f, ctx.m.enclosing_stmt(readcall)), loc(f, readcall), "read_message is given a predicate: messages are buffered and handled out of arrival order")
    else:
        R.ok("C01.R4", f.short, "read_message() without predicate", loc(f, readcall))
    st = ctx.m.enclosing_stmt(readcall)
    var = st.targets[0].id if isinstance(st, ast.Assign) and isinstance(st.targets[0], ast.Name) else None
    dcalls = []
    for c in calls_in(w):
        k, tg = ctx.r.resolve_call(f, c)
        if disp.qual in tg:
            dcalls.append(c)
        dn = ctx.m.dotted(f.rel, c.func) if isinstance(c.func, (ast.Name, ast.Attribute)) else ""
        if dn in ("threading.Thread", "multiprocessing.Process") or (isinstance(c.func, ast.Attribute) and c.func.attr in ("apply_async", "submit", "start_new_thread")):
            R.violation("C01.R4", f.short, key(f, ctx.m.enclosing_stmt(c)), loc(f, c), "messages are handed to another thread/process: responses may be written out of arrival order")
    if len(dcalls) != 1:
        R.violation("C01.R4", f.short, "dispatch per iteration", loc(f, w), f"{len(dcalls)} dispatcher calls in the loop body (expected exactly one)")
    else:
        c = dcalls[0]
        a0 = c.args[0] if c.args else None
        in_loop_of_loop = False
        p = ctx.m.parent.get(c)
        while p is not None and p is not w:
            if isinstance(p, (ast.For, ast.While)):
                in_loop_of_loop = True
            p = ctx.m.parent.get(p)
        if var and isinstance(a0, ast.Name) and a0.id == var and not in_loop_of_loop and c.lineno >= readcall.lineno:
            R.ok("C01.R4", f.short, "dispatch(message read) once per iteration", loc(f, c))
        else:
            R.violation("C01.R4", f.short, key(f, ctx.m.enclosing_stmt(c)), loc(f, c), "the dispatcher is not called exactly once on the message just read")


# ------------------------------------------------------------------- R6
NONJSON_CALLS = {"set", "frozenset", "bytes", "bytearray", "map", "filter", "zip", "range", "iter", "reversed", "enumerate", "memoryview", "complex"}


def _nonjson(ctx, f, e, depth=0, seen=None):
    """Reason string if expression e definitely yields a value json.dumps rejects."""
    seen = seen or set()
    if isinstance(e, (ast.Set, ast.SetComp)):
        return "a set"
    if isinstance(e, ast.GeneratorExp):
        return "a generator"
    if isinstance(e, ast.Constant) and isinstance(e.value, (bytes, complex)):
        return "bytes"
    if isinstance(e, ast.Lambda):
        return "a function"
    if isinstance(e, ast.Call):
        fn = e.func
        if isinstance(fn, ast.Name) and fn.id in NONJSON_CALLS:
            return f"a {fn.id} object"
        if isinstance(fn, ast.Attribute) and fn.attr in ("keys", "values", "items") and not e.args:
            ks = ctx.r.expr_classes(f, fn.value)
            if not ks:
                return f"a dict {fn.attr}() view"
        if isinstance(fn, ast.Attribute) and fn.attr in ("match", "search", "fullmatch", "finditer", "encode"):
            if not ctx.r.expr_classes(f, fn.value):
                return "a Match/bytes/iterator object"
        k, tg = ctx.r.resolve_call(f, e)
        if k == "ctor":
            nm = unparse(fn)
            return f"an instance of {nm}"
        return None
    if isinstance(e, (ast.List, ast.Tuple)):
        for x in e.elts:
            r = _nonjson(ctx, f, x.value if isinstance(x, ast.Starred) else x, depth + 1, seen)
            if r:
                return r
        return None
    if isinstance(e, ast.Dict):
        for k, v in zip(e.keys, e.values):
            if k is not None and isinstance(k, (ast.Tuple, ast.Set)):
                return "a dict with non-string keys"
            r = _nonjson(ctx, f, v, depth + 1, seen)
            if r:
                return r
        return None
    if isinstance(e, (ast.ListComp,)):
        return _nonjson(ctx, f, e.elt, depth + 1, seen)
    if isinstance(e, ast.DictComp):
        return _nonjson(ctx, f, e.value, depth + 1, seen)
    if isinstance(e, ast.IfExp):
        return _nonjson(ctx, f, e.body, depth + 1, seen) or _nonjson(ctx, f, e.orelse, depth + 1, seen)
    if isinstance(e, ast.Name) and depth < 4 and e.id not in seen:
        seen = seen | {e.id}
        # every binding of the local and everything put into it
        for n in ctx.m.walk_own(f.node):
            if isinstance(n, ast.Assign):
                for t in n.targets:
                    if isinstance(t, ast.Name) and t.id == e.id:
                        r = _nonjson(ctx, f, n.value, depth + 1, seen)
                        if r:
                            return r
                    if isinstance(t, ast.Subscript) and isinstance(t.value, ast.Name) and t.value.id == e.id:
                        r = _nonjson(ctx, f, n.value, depth + 1, seen)
                        if r:
                            return r
            elif isinstance(n, ast.AnnAssign) and isinstance(n.target, ast.Name) and n.target.id == e.id and n.value is not None:
                r = _nonjson(ctx, f, n.value, depth + 1, seen)
                if r:
                    return r
            elif isinstance(n, ast.Call) and isinstance(n.func, ast.Attribute) and n.func.attr in ("append", "insert", "setdefault") and isinstance(n.func.value, ast.Name) and n.func.value.id == e.id and n.args:
                r = _nonjson(ctx, f, n.args[-1], depth + 1, seen)
                if r:
                    return r
    return None


def r6(ctx, R):
    R.rule("C01.R6", "payloads are JSON: no definite non-serialisable construct reaches a result or notification", floor=15, confirmed=40)
    table = dispatch_table(ctx)
    handlers = set()
    for tgs in table.values():
        handlers |= tgs
    nret = 0
    for q in sorted(handlers):
        g = ctx.m.funcs[q]
        rets = [n for n in ctx.m.walk_own(g.node) if isinstance(n, ast.Return) and n.value is not None]
        for r in rets:
            why = _nonjson(ctx, g, r.value)
            if why:
                R.violation("C01.R6", g.short, key(g, r), loc(g, r), f"the result contains {why}: json.dumps raises while writing the response, outside any handler")
            else:
                R.ok("C01.R6", g.short, key(g, r), loc(g, r))
            nret += 1
        # delegating handlers: return self.other(request)
        for r in rets:
            if isinstance(r.value, ast.Call):
                k, tg = ctx.r.resolve_call(g, r.value)
                for t in tg if k in ("typed", "module", "import", "nested") else ():
                    h = ctx.m.funcs[t]
                    for rr in (n for n in ctx.m.walk_own(h.node) if isinstance(n, ast.Return) and n.value is not None):
                        why = _nonjson(ctx, h, rr.value)
                        if why:
                            R.violation("C01.R6", h.short, key(h, rr), loc(h, rr), f"the value returned into a response contains {why}")
    # notifications
    cc = connection_class(ctx)
    notif = [q for n, q in cc.methods.items() if n == "send_notification"]
    sc = server_class(ctx)
    post = sc.methods.get("post_message")
    for tq in notif + ([post] if post else []):
        for g, call, kind in ctx.r.callers(tq):
            for a in list(call.args) + [k.value for k in call.keywords]:
                why = _nonjson(ctx, g, a)
                if why:
                    R.violation("C01.R6", g.short, key(g, ctx.m.enclosing_stmt(call)), loc(g, call), f"notification payload contains {why}")
                    break
            else:
                R.ok("C01.R6", g.short, key(g, ctx.m.enclosing_stmt(call)), loc(g, call))


def run(ctx, R):
    r1(ctx, R)
    r2(ctx, R)
    r3(ctx, R)
    r4(ctx, R)
    r6(ctx, R)
