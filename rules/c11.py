"""C11 — hover and signature help restate the declaration and its docs
(DESIGN.md 3/C11): keyword tables, documentation hand-over, data flow into hover."""
from __future__ import annotations

import ast
import json
import os

from sa import rex
from sa.model import AnalysisError, unparse

from .shared import calls_in, defs_of, key, loc


def _group_words(ctx, name, k=1):
    rx_ = ctx.p.named.get(name)
    if rx_ is None or rx_.tree is None:
        raise AnalysisError(f"FRegex.{name} not found")
    r = rex.group_node(rx_.tree, k)
    if r is None:
        raise AnalysisError(f"FRegex.{name}: group {k} not found")
    seq, i = r
    body = seq[i][1][3]
    return rx_, rex.top_alternatives(body), rex.keyword_alternatives(body)


def r1(ctx, R):
    R.rule("C11.R1", "attribute tables agree: every attribute the declaration patterns recognise has an id, argument-carrying attributes keep their argument, every constant key exists, every attribute offered by completion is recognised by the parser", floor=40, confirmed=55)
    consts = ctx.m.consts.get("fortls/constants.py", {})
    kl = consts.get("KEYWORD_LIST")
    if not isinstance(kl, ast.List) or not all(isinstance(e, ast.Constant) for e in kl.elts):
        raise AnalysisError("constants.KEYWORD_LIST is not a literal list")
    table = [e.value for e in kl.elts]
    kd = consts.get("KEYWORD_ID_DICT")
    if not (isinstance(kd, ast.DictComp) and "enumerate(KEYWORD_LIST)" in unparse(kd)):
        R.undecided("C11.R1", "fortls/constants.py", "KEYWORD_ID_DICT", "fortls/constants.py:1", "not derived from KEYWORD_LIST by enumerate")
    if len(set(table)) != len(table):
        R.violation("C11.R1", "fortls/constants.py", "KEYWORD_LIST unique", loc("fortls/constants.py", kl), "duplicate entries: two ids for one attribute")
    recognised = set()
    with_arg = set()
    for nm in ("KEYWORD_LIST", "SUB_MOD", "TATTR_LIST"):
        rx_, alts, words = _group_words(ctx, nm)
        for alt, w in zip(alts, words):
            if not w:
                R.undecided("C11.R1", f"FRegex.{nm}", "alternative without a leading word", loc(rx_.rel, rx_.node), "")
                continue
            if nm == "TATTR_LIST" and w == "EXTENDS":
                continue
            recognised.add(w)
            if nm == "KEYWORD_LIST" and any(op is rex.C.LITERAL and chr(av) == "(" for op, av in rex.walk(alt)):
                with_arg.add(w.lower())
            if w.lower() in table:
                R.ok("C11.R1", f"FRegex.{nm}", f"{w} has an id", loc(rx_.rel, rx_.node))
            else:
                R.violation("C11.R1", f"FRegex.{nm}", f"{w} has an id", loc(rx_.rel, rx_.node), f"the declaration parser matches `{w}` but constants.KEYWORD_LIST has no entry for it: map_keywords drops it silently and hover does not show the attribute")
    # map_keywords keeps the argument for exactly the argument-carrying alternatives
    mk = ctx.m.fn("map_keywords")
    keep = None
    for n in ctx.m.walk_own(mk.node):
        if isinstance(n, ast.Compare) and isinstance(n.ops[0], ast.In) and isinstance(n.comparators[0], (ast.Tuple, ast.List, ast.Set)) and all(isinstance(e, ast.Constant) for e in n.comparators[0].elts):
            keep = ({e.value for e in n.comparators[0].elts}, n)
    if keep is None:
        R.undecided("C11.R1", mk.short, "attributes whose argument is kept", loc(mk, mk.node), "membership test not recognised")
    else:
        for w in sorted(with_arg | keep[0]):
            if w in with_arg and w in keep[0]:
                R.ok("C11.R1", mk.short, f"argument of {w.upper()} kept", loc(mk, keep[1]))
            elif w in with_arg:
                R.violation("C11.R1", mk.short, f"argument of {w.upper()} kept", loc(mk, keep[1]), f"the pattern matches `{w.upper()}(...)` but map_keywords does not record the parenthesised argument: hover shows {w.upper()} without it")
            else:
                R.violation("C11.R1", mk.short, f"argument of {w.upper()} kept", loc(mk, keep[1]), f"map_keywords expects an argument for `{w}`, which the pattern never matches with one")
    # constant keys of KEYWORD_ID_DICT[...]
    for f in ctx.m.funcs.values():
        for n in ctx.m.walk_own(f.node):
            if isinstance(n, ast.Subscript) and isinstance(n.value, ast.Name) and n.value.id == "KEYWORD_ID_DICT" and isinstance(n.slice, ast.Constant):
                k = n.slice.value
                if k in table:
                    R.ok("C11.R1", f.short, f"KEYWORD_ID_DICT[{k!r}] in {key(f, ctx.m.enclosing_stmt(n))[:50]}", loc(f, n))
                else:
                    R.violation("C11.R1", f.short, f"KEYWORD_ID_DICT[{k!r}]", loc(f, n), f"{k!r} is not in KEYWORD_LIST: KeyError when this code runs (constructing the entity fails, the file cannot be indexed)")
    # get_keywords indexes the list by id and looks the argument up under the list's own spelling
    gk = ctx.m.fn("get_keywords")
    txt = unparse(gk.node)
    # ... or in a helper it hands each id to (same module, one level)
    for c in calls_in(gk.node):
        k_, tg = ctx.r.resolve_call(gk, c)
        if k_ in ("module", "nested"):
            for t in tg:
                if ctx.m.funcs[t].rel == gk.rel:
                    txt += "\n" + unparse(ctx.m.funcs[t].node)
    if "KEYWORD_LIST[" in txt and ".get(" in txt:
        R.ok("C11.R1", gk.short, "names and arguments read back through the same table", loc(gk, gk.node))
    else:
        R.violation("C11.R1", gk.short, "names and arguments read back through the same table", loc(gk, gk.node), "get_keywords does not map ids back through KEYWORD_LIST / keyword_info")
    # completion's own attribute lists
    jf = os.path.join(ctx.repo, "fortls/parsers/internal/keywords.json")
    try:
        with open(jf, encoding="utf-8") as fh:
            data = json.load(fh)
    except (OSError, ValueError) as e:
        raise AnalysisError(f"keywords.json not readable: {e}")
    offered = {}
    for grp, items in data.items():
        for name in items:
            w = name.split("(")[0].strip().upper()
            offered.setdefault(w, grp)
    for w, grp in sorted(offered.items()):
        if w in recognised:
            R.ok("C11.R1", "keywords.json", f"{w} ({grp}) recognised by the declaration parser", "fortls/parsers/internal/keywords.json:1")
        else:
            R.violation("C11.R1", "keywords.json", f"{w} ({grp}) recognised by the declaration parser", "fortls/parsers/internal/keywords.json:1", f"completion offers the attribute {w}, but FRegex.KEYWORD_LIST does not match it: parse_var_keywords stops there, so {w} and every attribute written after it (INTENT, POINTER, ...) is missing from the entity and from its hover")


def r2(ctx, R):
    R.rule("C11.R2", "a pending documentation block is attached to exactly one entity: attached by both entity producers, reset on every path after attaching, parser buffer emptied after every hand-over", floor=5, confirmed=6)
    ac = ctx.m.cname.get("FortranAST")
    if not ac:
        raise AnalysisError("class FortranAST not found")
    cls = ctx.m.classes[ac]
    producers = []
    for nm, q in cls.methods.items():
        f = ctx.m.funcs[q]
        for st in ctx.m.walk_own(f.node):
            if isinstance(st, ast.Assign) and unparse(st.targets[0]) == "self.last_obj" and not (isinstance(st.value, ast.Constant) and st.value.value is None) and nm != "__init__":
                producers.append((f, st))
    if len(producers) < 2:
        raise AnalysisError(f"{len(producers)} entity producers (stores to last_obj) found, expected add_scope and add_variable")
    for f, st in producers:
        def _pending_arg(a):
            if unparse(a) == "self.pending_doc":
                return True
            if isinstance(a, ast.Name):
                return any("self.pending_doc" in unparse(d_st.value) for d_st, _ in defs_of(ctx, f, a.id) if isinstance(d_st, ast.Assign))
            return False

        def _resets(s_):
            if not isinstance(s_, ast.Assign):
                return False
            for t in s_.targets:
                if unparse(t) == "self.pending_doc" and isinstance(s_.value, ast.Constant) and s_.value.value is None:
                    return True
                if isinstance(t, ast.Tuple) and isinstance(s_.value, ast.Tuple) and len(t.elts) == len(s_.value.elts):
                    for tt, vv in zip(t.elts, s_.value.elts):
                        if unparse(tt) == "self.pending_doc" and isinstance(vv, ast.Constant) and vv.value is None:
                            return True
            return False

        attach = [c for c in calls_in(f.node) if isinstance(c.func, ast.Attribute) and c.func.attr == "add_doc" and any(_pending_arg(a) for a in c.args)]
        if not attach:
            R.violation("C11.R2", f.short, "pending documentation attached", loc(f, st), "this producer makes the new entity the current one without attaching the pending `!>` block: the block is attached to a later entity instead")
            continue
        cfg = ctx.cfg(f)
        for c in attach:
            a = cfg.node_of(c)
            resets = {cfg.node_of(s).id for s in ctx.m.walk_own(f.node) if _resets(s) and cfg.node_of(s) is not None}
            moved = [d_st for arg in c.args if isinstance(arg, ast.Name) for d_st, _ in defs_of(ctx, f, arg.id) if isinstance(d_st, ast.Assign) and "self.pending_doc" in unparse(d_st.value)]
            if moved:
                # the block was moved into a local: the reset must follow (or be) that move on every path
                leak = any(not _resets(d_st) and _reach_exit_without(cfg, cfg.node_of(d_st), resets) for d_st in moved)
            else:
                leak = _reach_exit_without(cfg, a, resets)
            recv_ok = unparse(c.func.value) in ("self.last_obj", unparse(st.value))
            if leak:
                R.violation("C11.R2", f.short, "pending documentation reset after attaching", loc(f, c), "the pending block stays set after it has been attached: the same documentation is attached to the next entity as well")
            elif not recv_ok:
                R.violation("C11.R2", f.short, "pending documentation attached to the new entity", loc(f, c), f"attached to `{unparse(c.func.value)}`, not to the entity being added")
            else:
                R.ok("C11.R2", f.short, "attach, then reset on every path", loc(f, c))
    # add_doc: forward blocks are parked, trailing ones go to the last entity
    ad = ctx.m.funcs.get(cls.methods.get("add_doc", ""))
    if ad is None:
        raise AnalysisError("FortranAST.add_doc not found")
    F = ctx.facts(ad, interproc=False)
    park = [s for s in ctx.m.walk_own(ad.node) if isinstance(s, ast.Assign) and unparse(s.targets[0]) == "self.pending_doc"]
    back = [c for c in calls_in(ad.node) if isinstance(c.func, ast.Attribute) and c.func.attr == "add_doc" and unparse(c.func.value) == "self.last_obj"]
    okp = park and all(any(b[0] in ("truthy",) and b[1] == "forward" or (b[0] == "cond" and b[1] == "forward" and b[2] is True) for b in (F.at(s) or set())) for s in park)
    okb = back and all(any((b[0] == "falsy" and b[1] == "forward") or (b[0] == "cond" and b[1] == "forward" and b[2] is False) for b in (F.at(c) or set())) and any(b[0] == "nonnull" and b[1] == "self.last_obj" for b in (F.at(c) or set())) for c in back)
    if okp and okb:
        R.ok("C11.R2", ad.short, "`!>` blocks wait for the next entity, `!<`/`!!` blocks go to the previous one", loc(ad, ad.node))
    else:
        R.violation("C11.R2", ad.short, "`!>` blocks wait for the next entity, `!<`/`!!` blocks go to the previous one", loc(ad, ad.node), "the forward flag does not select between parking the block and attaching it to the last entity (or the last entity is not None-tested)")
    # parser buffer
    pd = ctx.m.fn("FortranFile.parse_docs")
    scope = [pd] + [g for g in ctx.m.funcs.values() if g.qual.startswith(pd.qual + ".")]
    n = 0
    for f in scope:
        cfg = None
        for c in calls_in(f.node):
            if ctx.m.enclosing_func(c) is not f or not (isinstance(c.func, ast.Attribute) and c.func.attr == "add_doc" and c.args):
                continue
            a0 = c.args[0]
            from_buffer = "docs" in unparse(a0)
            if not from_buffer and isinstance(a0, ast.Name):
                # the formatted text bound to a local first: doc_str = format(docs)
                from_buffer = any(v is not None and "docs" in unparse(v) for _, v in defs_of(ctx, f, a0.id))
            if not from_buffer:
                continue
            n += 1
            cfg = cfg or ctx.cfg(f)
            empt = {cfg.node_of(s).id for s in ctx.m.walk_own(f.node) if isinstance(s, ast.Assign) and unparse(s.targets[0]) in ("docs[:]", "docs") and isinstance(s.value, ast.List) and not s.value.elts and cfg.node_of(s) is not None}
            empt |= {cfg.node_of(s).id for s in calls_in(f.node) if isinstance(s.func, ast.Attribute) and s.func.attr == "clear" and unparse(s.func.value) == "docs" and cfg.node_of(s) is not None}
            if _reach_exit_without(cfg, cfg.node_of(c), empt):
                R.violation("C11.R2", f.short, key(f, ctx.m.enclosing_stmt(c))[:70], loc(f, c), "the documentation buffer is handed to the AST and not emptied on some path: the same text is attached again to a later entity")
            else:
                R.ok("C11.R2", f.short, key(f, ctx.m.enclosing_stmt(c))[:70], loc(f, c), "buffer emptied on every path after the hand-over")
    if n < 2:
        raise AnalysisError(f"parse_docs: {n} documentation hand-overs found")


def _reach_exit_without(cfg, start, blocked_ids):
    """can the normal exit be reached from `start` (after executing it) without passing a node in blocked_ids?"""
    if start is None:
        return True
    seen = set()
    stack = [t for t, lab in start.succs if lab != "exc"]
    while stack:
        i = stack.pop()
        if i in seen or i in blocked_ids:
            continue
        seen.add(i)
        n = cfg.nodes[i]
        if n.kind == "exit":
            return True
        stack.extend(t for t, lab in n.succs if lab != "exc")
    return False


# ------------------------------------------------------------------ R4
class Slice:
    """fields of self that a returned expression depends on (through locals,
    own methods, and one level of field-to-field stores)"""

    def __init__(self, ctx):
        self.ctx = ctx

    def fields(self, f, exprs, depth=0, seen=None):
        ctx = self.ctx
        seen = seen if seen is not None else set()
        out = set()
        work = list(exprs)
        names_done = set()
        # locals that may denote the object itself: `src = self if c else self.link_obj`
        def may_be_self(v):
            if isinstance(v, ast.Name):
                return v.id == "self"
            if isinstance(v, ast.IfExp):
                return may_be_self(v.body) or may_be_self(v.orelse)
            if isinstance(v, ast.BoolOp):
                return any(may_be_self(x) for x in v.values)
            return False
        selfs = {"self"}
        for st in ctx.m.walk_own(f.node):
            if isinstance(st, ast.Assign) and len(st.targets) == 1 and isinstance(st.targets[0], ast.Name) and may_be_self(st.value):
                selfs.add(st.targets[0].id)
        while work:
            e = work.pop()
            for n in ast.walk(e):
                if isinstance(n, ast.Attribute) and isinstance(n.value, ast.Name) and n.value.id in selfs:
                    par = ctx.m.parent.get(n)
                    if isinstance(par, ast.Call) and par.func is n:
                        q = ctx.m.method(f.cls, n.attr) if f.cls else None
                        if q and (q, depth) not in seen and depth < 4:
                            seen.add((q, depth))
                            g = ctx.m.funcs[q]
                            rets = [r.value for r in ctx.m.walk_own(g.node) if isinstance(r, ast.Return) and r.value is not None]
                            out |= self.fields(g, rets, depth + 1, seen)
                    else:
                        out.add(n.attr)
                elif isinstance(n, ast.Name) and isinstance(n.ctx, ast.Load) and n.id not in names_done and n.id not in selfs:
                    names_done.add(n.id)
                    for st, v in defs_of(ctx, f, n.id):
                        if v is not None:
                            work.append(v)
                        elif isinstance(st, ast.For):
                            work.append(st.iter)
                        elif isinstance(st, ast.Assign):
                            work.append(st.value)
                    # in-place growth: x.append(...), x += ...
                    for c in calls_in(f.node):
                        if isinstance(c.func, ast.Attribute) and c.func.attr in ("append", "extend", "insert") and isinstance(c.func.value, ast.Name) and c.func.value.id == n.id:
                            work.extend(c.args)
                    for st in ctx.m.walk_own(f.node):
                        if isinstance(st, ast.AugAssign) and isinstance(st.target, ast.Name) and st.target.id == n.id:
                            work.append(st.value)
                            # the condition under which the text is appended is not a data dependence
        return out


NEED_VAR = {"text": {"desc", "kind", "keywords", "keyword_info", "name", "param_val"}, "docs": {"doc_str"}}


def r4(ctx, R):
    R.rule("C11.R4", "every recorded fact of a declaration flows into its hover: type and kind, attributes and their arguments, name, PARAMETER value, documentation; procedures list their dummy arguments in declared order", floor=8, confirmed=10)
    sl = Slice(ctx)
    vc = ctx.m.cname.get("Variable")
    gh = ctx.m.funcs[ctx.m.method(vc, "get_hover")]
    rets = [r.value for r in ctx.m.walk_own(gh.node) if isinstance(r, ast.Return) and isinstance(r.value, ast.Tuple) and len(r.value.elts) == 2]
    if not rets:
        raise AnalysisError("Variable.get_hover: no 2-tuple return")
    ft = set.intersection(*[sl.fields(gh, [r.elts[0]]) for r in rets])
    fd = set.intersection(*[sl.fields(gh, [r.elts[1]]) for r in rets])
    for fld in sorted(NEED_VAR["text"]):
        if fld in ft:
            R.ok("C11.R4", gh.short, f"hover text depends on {fld}", loc(gh, rets[0]))
        else:
            R.violation("C11.R4", gh.short, f"hover text depends on {fld}", loc(gh, rets[0]), f"nothing of `self.{fld}` reaches the hover text of a variable: that part of the declaration is never shown")
    if "doc_str" in fd:
        R.ok("C11.R4", gh.short, "hover documentation is the entity's doc_str", loc(gh, rets[0]))
    else:
        R.violation("C11.R4", gh.short, "hover documentation is the entity's doc_str", loc(gh, rets[0]), "the documentation part of a variable's hover does not come from its own doc_str")
    # PARAMETER value only under is_parameter
    # procedures: arguments in declared order
    for cname in ("Subroutine", "Function"):
        c = ctx.m.cname.get(cname)
        if not c:
            raise AnalysisError(f"class {cname} not found")
        for mname in ("get_docs_full", "get_signature"):
            q = ctx.m.method(c, mname)
            if not q:
                continue
            g = ctx.m.funcs[q]
            if g.cls != c and cname == "Function":
                continue  # inherited, checked once
            loops = [n for n in ctx.m.walk_own(g.node) if isinstance(n, ast.For) and "arg_objs" in unparse(n.iter)]
            if not loops:
                R.violation("C11.R4", g.short, "dummy arguments listed", loc(g, g.node), "the procedure's hover/signature does not go through its dummy arguments")
                continue
            for lp in loops:
                it = lp.iter
                inner = it.args[0] if isinstance(it, ast.Call) and isinstance(it.func, ast.Name) and it.func.id == "enumerate" and it.args else it
                if unparse(inner) == "self.arg_objs":
                    R.ok("C11.R4", g.short, f"{unparse(it)[:40]}: declared order", loc(g, lp))
                else:
                    R.violation("C11.R4", g.short, f"{unparse(it)[:40]}: declared order", loc(g, lp), "the dummy arguments are not listed in declared order (sorted/reversed/filtered iteration)")
    # each argument line comes from the argument's own hover
    for cname in ("Subroutine",):
        g = ctx.m.funcs[ctx.m.method(ctx.m.cname[cname], "get_docs_full")]
        if any(isinstance(c.func, ast.Attribute) and c.func.attr == "get_hover" and unparse(c.func.value) in ("arg_obj",) for c in calls_in(g.node)):
            R.ok("C11.R4", g.short, "each dummy argument with its own declaration", loc(g, g.node))
        else:
            R.violation("C11.R4", g.short, "each dummy argument with its own declaration", loc(g, g.node), "argument lines are not produced by the argument objects' get_hover")
    # Type: abstract / extends / name
    tc = ctx.m.cname.get("Type")
    th = ctx.m.funcs[ctx.m.classes[tc].methods["get_hover"]]
    rets = [r.value for r in ctx.m.walk_own(th.node) if isinstance(r, ast.Return) and isinstance(r.value, ast.Tuple)]
    ft = set.intersection(*[sl.fields(th, [r.elts[0]]) for r in rets]) if rets else set()
    cond = {n.attr for s in ctx.m.walk_own(th.node) if isinstance(s, ast.If) for n in ast.walk(s.test) if isinstance(n, ast.Attribute) and isinstance(n.value, ast.Name) and n.value.id == "self"}
    for fld in ("name", "inherit", "abstract"):
        if fld in ft or fld in cond:
            R.ok("C11.R4", th.short, f"type hover depends on {fld}", loc(th, th.node))
        else:
            R.violation("C11.R4", th.short, f"type hover depends on {fld}", loc(th, th.node), f"`self.{fld}` does not reach the hover of a derived type")


def r3(ctx, R):
    R.rule("C11.R3", "documentation text reaches the client verbatim: never used as a format template", floor=1, confirmed=3)
    from .c09 import r4 as fmt

    class Proxy:
        def __init__(s, R):
            s.R = R

        def rule(s, *a, **k):
            pass

        def ok(s, rid, *a, **k):
            s.R.ok("C11.R3", *a, **k)

        def violation(s, rid, *a, **k):
            s.R.violation("C11.R3", *a, **k)

        def undecided(s, rid, *a, **k):
            s.R.undecided("C11.R3", *a, **k)

    fmt(ctx, Proxy(R))


MUTATORS = {"append", "extend", "insert", "remove", "pop", "clear", "sort", "reverse", "update", "add", "discard", "setdefault"}


def _inplace_fields(ctx, cone):
    """fields of entity classes that some method changes in place (self.F.append(..), self.F[k] = v, self.F += ..)"""
    out = {}
    for cq in cone:
        for q in ctx.m.classes[cq].methods.values():
            g = ctx.m.funcs[q]
            if not g.params:
                continue
            me = g.params[0]
            for n in ctx.m.walk_own(g.node):
                fld = None
                if isinstance(n, ast.Call) and isinstance(n.func, ast.Attribute) and n.func.attr in MUTATORS and isinstance(n.func.value, ast.Attribute) and isinstance(n.func.value.value, ast.Name) and n.func.value.value.id == me:
                    fld = n.func.value.attr
                elif isinstance(n, ast.Assign) and isinstance(n.targets[0], ast.Subscript) and isinstance(n.targets[0].value, ast.Attribute) and isinstance(n.targets[0].value.value, ast.Name) and n.targets[0].value.value.id == me:
                    fld = n.targets[0].value.attr
                elif isinstance(n, ast.AugAssign) and isinstance(n.target, ast.Attribute) and isinstance(n.target.value, ast.Name) and n.target.value.id == me and isinstance(n.op, ast.Add):
                    fld = n.target.attr
                if fld:
                    out.setdefault(fld, (g, n))
    return out


def _ctor_field_args(ctx, f, call, cq):
    """{field: argument expression} for a constructor call, through `self.F = param` in the
    class's __init__ (and the base class's, when the parameter is handed on by name)"""
    out = {}
    iq = ctx.m.method(cq, "__init__")
    if not iq:
        return out
    init = ctx.m.funcs[iq]
    ps = init.params[1:]
    given = {}
    for p_, a in zip(ps, call.args):
        given[p_] = a
    for kw in call.keywords:
        if kw.arg:
            given[kw.arg] = kw.value

    def stores(fn, pmap, depth=0):
        me = fn.params[0]
        for n in ctx.m.walk_own(fn.node):
            if isinstance(n, (ast.Assign, ast.AnnAssign)) and isinstance(n.value, ast.Name) and n.value.id in pmap:
                for t in (n.targets if isinstance(n, ast.Assign) else [n.target]):
                    if isinstance(t, ast.Attribute) and isinstance(t.value, ast.Name) and t.value.id == me:
                        out[t.attr] = pmap[n.value.id]
            if isinstance(n, ast.Call) and isinstance(n.func, ast.Attribute) and n.func.attr == "__init__" and depth < 2:
                for t in ctx.r.resolve_call(fn, n)[1]:
                    h = ctx.m.funcs[t]
                    sub = {}
                    for p_, a in zip(h.params[1:], n.args):
                        if isinstance(a, ast.Name) and a.id in pmap:
                            sub[p_] = pmap[a.id]
                    for kw in n.keywords:
                        if kw.arg and isinstance(kw.value, ast.Name) and kw.value.id in pmap:
                            sub[kw.arg] = pmap[kw.value.id]
                    if sub:
                        stores(h, sub, depth + 1)

    stores(init, given)
    return out


def r5(ctx, R):
    R.rule("C11.R5", "every entity owns its attribute containers: a list/dict that some entity method changes in place is created anew for each entity built in a loop, not shared by all entities of one statement", floor=2, confirmed=4)
    from .shared import reaching_def_nodes

    fobj = ctx.m.cname.get("FortranObj")
    cone = ctx.m.cone(fobj)
    mut = _inplace_fields(ctx, cone)
    n_inst = 0
    for f in ctx.m.funcs.values():
        if not f.rel.startswith("fortls/parsers/") or f.rel.endswith("debug.py"):
            continue
        for lp in (n for n in ctx.m.walk_own(f.node) if isinstance(n, (ast.For, ast.While))):
            inside = {id(x) for b in lp.body for x in ast.walk(b)}
            for c in calls_in(lp):
                if ctx.m.enclosing_func(c) is not f or not isinstance(c.func, ast.Name):
                    continue
                cq = ctx.m.resolve_class_name(f.rel, c.func.id)
                if cq is None or cq not in cone:
                    continue
                # innermost loop only
                p_ = ctx.m.parent.get(c)
                inner = None
                while p_ is not None and inner is None:
                    if isinstance(p_, (ast.For, ast.While)):
                        inner = p_
                    p_ = ctx.m.parent.get(p_)
                if inner is not lp:
                    continue
                fa = _ctor_field_args(ctx, f, c, cq)

                def shared(e, at, depth=0, seen=None):
                    """is the object denoted by e the same one in every iteration?"""
                    seen = seen or set()
                    if isinstance(e, ast.Constant) or depth > 5:
                        return False
                    if not isinstance(e, ast.Name):
                        return False  # a call, display, slice, comprehension: a new object each time
                    if e.id in f.params:
                        return True
                    ds = reaching_def_nodes(ctx, f, at, e.id)
                    res = False
                    for d in ds:
                        if d == "param":
                            res = True
                            continue
                        if id(d) in seen:
                            continue
                        seen.add(id(d))
                        val = None
                        vals = []
                        if isinstance(d, ast.Assign):
                            tg = d.targets[0]
                            if isinstance(tg, (ast.Tuple, ast.List)):
                                alts = [d.value.body, d.value.orelse] if isinstance(d.value, ast.IfExp) else [d.value]
                                for alt in alts:
                                    if isinstance(alt, (ast.Tuple, ast.List)) and len(tg.elts) == len(alt.elts):
                                        for t_, v_ in zip(tg.elts, alt.elts):
                                            if isinstance(t_, ast.Name) and t_.id == e.id:
                                                vals.append(v_)
                            elif isinstance(tg, ast.Name):
                                vals = [d.value.body, d.value.orelse] if isinstance(d.value, ast.IfExp) else [d.value]
                        if id(d) not in inside:
                            # bound before the loop: one object for all iterations, unless it is a constant
                            if not (isinstance(getattr(d, "value", None), ast.Constant)):
                                res = True
                            continue
                        if any(shared(v_, d, depth + 1, seen) for v_ in vals):
                            res = True
                    return res

                for fld, arg in sorted(fa.items()):
                    if fld not in mut:
                        continue
                    n_inst += 1
                    k = f"{ctx.m.classes[cq].name}.{fld} <- {unparse(arg)[:30]} in {key(f, ctx.m.enclosing_stmt(c))[:50]}"
                    if shared(arg, ctx.m.enclosing_stmt(c)):
                        g, site = mut[fld]
                        R.violation("C11.R5", f.short, k, loc(f, c), f"every {ctx.m.classes[cq].name} built by this loop receives the same `{unparse(arg)}` object as its `{fld}`, and {g.short} changes `{fld}` in place ({unparse(site)[:50]}): an attribute added to one entity (`external :: f` after `real :: f, g`) shows up in the hover of all entities declared on that line")
                    else:
                        R.ok("C11.R5", f.short, k, loc(f, c), "a new container per entity")
    if n_inst == 0:
        R.undecided("C11.R5", "parser", "entities built in loops", "fortls:0", "no constructor call in a loop passes a container that is changed in place")


def r6(ctx, R):
    """map_keywords: each attribute of the list is looked at on its own.  An argument is
    recorded for every occurrence of an argument-carrying attribute, so when an attribute occurs
    twice (statement-level DIMENSION(3) plus the entity's own array-spec, appended last) the
    later one is what the hover shows.  A gate on the membership of what was seen before lets
    only the first occurrence through."""
    R.rule("C11.R6", "the argument of an attribute is recorded for every occurrence in the attribute list (the entity's own array-spec, appended last, overrides the statement-level DIMENSION): the store is not gated on what was mapped before", floor=1, confirmed=1)
    f = ctx.m.fn_opt("map_keywords")
    if f is None:
        R.undecided("C11.R6", "map_keywords", "attribute mapping", ("fortls/helper_functions.py", 1), "map_keywords not found")
        return
    n = 0
    for lp in (x for x in ctx.m.walk_own(f.node) if isinstance(x, ast.For)):
        # accumulators: names bound to an empty display before the loop and changed inside it
        accs = set()
        for st in f.node.body:
            if st is lp:
                break
            if isinstance(st, ast.Assign) and len(st.targets) == 1 and isinstance(st.targets[0], ast.Name) and isinstance(st.value, (ast.List, ast.Dict, ast.Set)) and not getattr(st.value, "elts", getattr(st.value, "keys", [])):
                accs.add(st.targets[0].id)
        stores = [st for st in ast.walk(lp) if isinstance(st, ast.Assign) and any(isinstance(t, ast.Subscript) and isinstance(t.value, ast.Name) and t.value.id in accs for t in st.targets)]
        for st in stores:
            n += 1
            gates, other = [], []
            child, p = st, ctx.m.parent.get(st)
            while p is not None and p is not lp:
                if isinstance(p, ast.If):
                    in_body = any(child is b for b in p.body)
                    for cmp_ in (x for x in ast.walk(p.test) if isinstance(x, ast.Compare) and len(x.ops) == 1 and isinstance(x.ops[0], (ast.In, ast.NotIn))):
                        right = cmp_.comparators[0]
                        if isinstance(right, ast.Name) and right.id in accs or (isinstance(right, ast.Call) and isinstance(right.func, ast.Attribute) and isinstance(right.func.value, ast.Name) and right.func.value.id in accs):
                            # which polarity reaches the store?  (only plain and-chains / single tests are decided)
                            conj = isinstance(p.test, ast.Compare) or (isinstance(p.test, ast.BoolOp) and isinstance(p.test.op, ast.And) and any(v is cmp_ for v in p.test.values))
                            first_only = conj and ((isinstance(cmp_.ops[0], ast.NotIn) and in_body))
                            if first_only:
                                gates.append((p, cmp_))
                            else:
                                other.append((p, cmp_))
                    reads_acc = [x for x in ast.walk(p.test) if isinstance(x, ast.Name) and x.id in accs]
                    if reads_acc and not any(q_ is p for q_, _ in gates + other):
                        other.append((p, p.test))
                child, p = p, ctx.m.parent.get(p)
            k = key(f, st)
            if gates:
                g_, c_ = gates[0]
                R.violation("C11.R6", f.short, k, loc(f, g_), f"the argument is stored only under `{unparse(c_)}`: when an attribute occurs twice in the list (DIMENSION(3) on the statement and the entity's own `mat(3,4)`, appended last) the first argument is kept and the entity's own one is dropped - hover shows DIMENSION(3)")
            elif other:
                R.undecided("C11.R6", f.short, k, loc(f, other[0][0]), f"the store depends on what was mapped before (`{unparse(other[0][1])[:60]}`)")
            else:
                R.ok("C11.R6", f.short, k, loc(f, st), "stored for every occurrence; gated only by tests on the attribute itself")
    if n == 0:
        R.undecided("C11.R6", f.short, "argument store", loc(f, f.node), "no store of an attribute argument found in the mapping loop")


# ------------------------------------------------------------------ R7
def r7(ctx, R):
    """What one declaration statement says (type, kind selector, attribute list) is
    read once into a record and applies to *every* entity of the statement.  A
    store into that record inside the loop over the statement's entity names makes
    the entities after it see a different statement than the ones before it."""
    R.rule("C11.R7", "the per-statement declaration record is not written inside the loop over the statement's entities", floor=1, confirmed=1)
    n = 0
    for f in sorted(ctx.m.funcs.values(), key=lambda g: g.qual):
        if not f.rel.startswith("fortls/parsers/") or f.rel.endswith("debug.py"):
            continue
        for lp in (x for x in ctx.m.walk_own(f.node) if isinstance(x, ast.For)):
            # `for name in REC.<names>`: REC is the shared record
            it = lp.iter
            if not (isinstance(it, ast.Attribute) and isinstance(it.value, ast.Name)):
                continue
            rec = it.value.id
            if rec == (f.params[0] if f.cls and f.params else None):
                continue
            # is it a record read inside the loop as well (its other fields describe each entity)?
            reads = [x for s_ in lp.body for x in ast.walk(s_) if isinstance(x, ast.Attribute) and isinstance(x.value, ast.Name) and x.value.id == rec and isinstance(x.ctx, ast.Load) and x.attr != it.attr]
            if not reads:
                continue
            n += 1
            writes = []
            for s_ in lp.body:
                for x in ast.walk(s_):
                    if isinstance(x, (ast.Assign, ast.AugAssign, ast.AnnAssign)):
                        for t in x.targets if isinstance(x, ast.Assign) else [x.target]:
                            if isinstance(t, ast.Attribute) and isinstance(t.value, ast.Name) and t.value.id == rec:
                                writes.append((x, t.attr))
            k = key(f, lp)[:90]
            if writes:
                x, a = writes[0]
                R.violation("C11.R7", f.short, k, loc(f, x), f"`{rec}.{a}` is re-bound inside the loop over `{unparse(it)}`: the record describes the whole statement, so every entity declared after this one on the same statement is built from the altered value (`character(len=32) :: a, b*80, c` gives `c` the type of a statement without the selector)")
            else:
                R.ok("C11.R7", f.short, k, loc(f, lp), f"`{rec}` is only read ({len(reads)} reads) while the entities are built")
    if n == 0:
        raise AnalysisError("C11.R7: no loop over the entity names of a declaration record found")


def run(ctx, R):
    r1(ctx, R)
    r2(ctx, R)
    r3(ctx, R)
    r4(ctx, R)
    r5(ctx, R)
    r6(ctx, R)
    r7(ctx, R)
