"""C12 — completion offers exactly the accessible names with the typed prefix
(DESIGN.md 3/C12): context tags, prefix filter, accessibility, type mask."""
from __future__ import annotations

import ast
import json
import os
import re

from sa.model import AnalysisError, access_path, unparse

from .shared import calls_in, defs_of, deref, dispatch_table, key, loc, reaching_defs


def handler(ctx):
    qs = dispatch_table(ctx).get("textDocument/completion", set())
    if len(qs) != 1:
        raise AnalysisError("completion handler not found")
    return ctx.m.funcs[next(iter(qs))]


def r1(ctx, R):
    R.rule("C12.R1", "completion context tags: every tag the classifier can return is handled, every tag tested can be produced", floor=10, confirmed=13)
    h = handler(ctx)
    cls = ctx.m.fn("get_line_context")
    produced = {}
    for r in (n for n in ctx.m.walk_own(cls.node) if isinstance(n, ast.Return) and isinstance(n.value, ast.Tuple) and n.value.elts and isinstance(n.value.elts[0], ast.Constant)):
        produced.setdefault(n.value.elts[0].value, r) if False else produced.setdefault(r.value.elts[0].value, r)
    tested = {}
    var = None
    for st in ctx.m.walk_own(h.node):
        if isinstance(st, ast.Assign) and isinstance(st.value, ast.Call) and cls.qual in ctx.r.resolve_call(h, st.value)[1] and isinstance(st.targets[0], ast.Tuple):
            var = st.targets[0].elts[0].id
    if var is None:
        raise AnalysisError("the completion handler does not call the context classifier")
    for n in ctx.m.walk_own(h.node):
        if isinstance(n, ast.Compare) and len(n.ops) == 1 and isinstance(n.ops[0], (ast.Eq, ast.NotEq)) and isinstance(n.left, ast.Name) and n.left.id == var and isinstance(n.comparators[0], ast.Constant):
            tested.setdefault(n.comparators[0].value, n)
    for tag in sorted(set(produced) | set(tested)):
        if tag in produced and tag in tested:
            R.ok("C12.R1", h.short, f"tag {tag!r}", loc(h, tested[tag]))
        elif tag in produced:
            if tag == "default":
                R.ok("C12.R1", h.short, "tag 'default'", loc(cls, produced[tag]), "fall-through context")
            else:
                R.violation("C12.R1", cls.short, f"tag {tag!r}", loc(cls, produced[tag]), f"the classifier returns {tag!r} but the handler never tests for it: that context is completed like an ordinary statement body")
        else:
            R.violation("C12.R1", h.short, f"tag {tag!r}", loc(h, tested[tag]), f"the handler tests for {tag!r}, which the classifier never returns (misspelt tag: the branch is dead)")


def r2(ctx, R):
    R.rule("C12.R2", "every candidate offered has passed the case-insensitive prefix test (unless prefix filtering is switched off)", floor=5, confirmed=7)
    h = handler(ctx)
    from .c13 import entity_name, explicit_norm

    # the typed prefix comes out of the lower-casing line-prefix helper
    lp = ctx.m.fn("get_line_prefix")
    rets = [r for r in ctx.m.walk_own(lp.node) if isinstance(r, ast.Return) and r.value is not None and not (isinstance(r.value, ast.Constant) and r.value.value is None)]
    lowered = bool(rets) and all(explicit_norm(r.value, ctx, lp, r) for r in rets)
    if lowered:
        R.ok("C12.R2", lp.short, "line prefix is lower-cased", loc(lp, rets[0]))
    else:
        R.violation("C12.R2", lp.short, "line prefix is lower-cased", loc(lp, rets[0] if rets else lp.node), "the text left of the cursor is returned as typed: the prefix test against lower-cased names fails for upper-case input")
    # prefix tests: <something>.lower().startswith(var_prefix)
    scope = [h] + [g for g in ctx.m.funcs.values() if g.qual.startswith(h.qual + ".")]
    for f in scope:
        for c in calls_in(f.node):
            if ctx.m.enclosing_func(c) is not f:
                continue
            if isinstance(c.func, ast.Attribute) and c.func.attr == "startswith" and c.args and isinstance(c.args[0], ast.Name) and "prefix" in c.args[0].id:
                st = ctx.m.enclosing_stmt(c)
                if explicit_norm(c.func.value, ctx, f, c):
                    R.ok("C12.R2", f.short, unparse(c)[:80], loc(f, c), "candidate name lower-cased before the prefix test")
                else:
                    R.violation("C12.R2", f.short, unparse(c)[:80], loc(f, c), "the candidate's name is compared with the typed prefix as spelled in the source: `Foo` is not offered for `fo`")
    # every item appended in the handler is prefix-tested or comes from the filtering collector
    collector = next((g for g in ctx.m.nested_funcs(h) if g.name == "get_candidates"), None)
    F = ctx.facts(h, interproc=False)
    for c in calls_in(h.node):
        if ctx.m.enclosing_func(c) is not h:
            continue
        if isinstance(c.func, ast.Attribute) and c.func.attr == "append" and isinstance(c.func.value, ast.Name) and c.func.value.id == "item_list":
            facts = F.at(c) or set()
            tested = any(fa[0] == "cond" and fa[2] is True and "startswith(" in fa[1] and "prefix" in fa[1] for fa in facts)
            # loop variable over the collector's (already filtered) result?
            from_collector = False
            lpn = ctx.m.parent.get(ctx.m.enclosing_stmt(c))
            while lpn is not None and not isinstance(lpn, (ast.FunctionDef,)):
                if isinstance(lpn, ast.For):
                    names = {x.id for x in ast.walk(lpn.iter) if isinstance(x, ast.Name)}
                    for nm in names:
                        for v in (x for _, x in defs_of(ctx, h, nm)):
                            if isinstance(v, ast.Call) and collector is not None and collector.qual in ctx.r.resolve_call(h, v)[1]:
                                from_collector = True
                        for st_, v in defs_of(ctx, h, nm):
                            if isinstance(st_, ast.Assign) and isinstance(st_.targets[0], ast.Tuple) and isinstance(st_.value, ast.Call) and collector is not None and collector.qual in ctx.r.resolve_call(h, st_.value)[1]:
                                from_collector = True
                lpn = ctx.m.parent.get(lpn)
            st = ctx.m.enclosing_stmt(c)
            k = key(h, st)[:90]
            if tested or from_collector:
                R.ok("C12.R2", h.short, k, loc(h, c), "prefix-tested" if tested else "candidate comes out of the filtering collector")
            else:
                R.violation("C12.R2", h.short, k, loc(h, c), "a completion item is added without any prefix test: names that do not start with the typed text are offered")
    if collector is not None:
        g = collector
        Fg = ctx.facts(g, interproc=False)
        rets = [r for r in ctx.m.walk_own(g.node) if isinstance(r, ast.Return) and isinstance(r.value, ast.Tuple)]
        for r in rets:
            facts = Fg.at(r) or set()
            names = [x.id for x in r.value.elts if isinstance(x, ast.Name)]
            unfiltered = any(fa[0] == "cond" and fa[2] is True and re.fullmatch(r"\w*prefix\w* == ''", fa[1]) for fa in facts) or any(fa[0] == "empty" and "prefix" in fa[1] for fa in facts)
            filtered = False
            for nm in names[:1]:
                for cc in calls_in(g.node):
                    if isinstance(cc.func, ast.Attribute) and cc.func.attr == "append" and isinstance(cc.func.value, ast.Name) and cc.func.value.id == nm:
                        f2 = Fg.at(cc) or set()
                        if any(fa[0] == "cond" and fa[2] is True and "startswith(" in fa[1] and "prefix" in fa[1] for fa in f2):
                            filtered = True
            if not filtered:
                # comprehension form: [... for v in cands if <prefix test>], the test inline or in a nested helper
                def prefix_test(e, fn, depth=0):
                    for x in ast.walk(e):
                        if isinstance(x, ast.Call) and isinstance(x.func, ast.Attribute) and x.func.attr == "startswith" and x.args and "prefix" in unparse(x.args[0]):
                            return True
                        if isinstance(x, ast.Call) and isinstance(x.func, ast.Name) and depth < 2:
                            k_, tg = ctx.r.resolve_call(fn, x)
                            if k_ == "nested":
                                for t in tg:
                                    hh = ctx.m.funcs[t]
                                    if any(isinstance(rr, ast.Return) and rr.value is not None and prefix_test(rr.value, hh, depth + 1) for rr in ctx.m.walk_own(hh.node)):
                                        return True
                    return False

                def comp_filtered(e, depth=0):
                    if isinstance(e, ast.Name) and depth < 3:
                        ds = [v for _, v in defs_of(ctx, g, e.id) if v is not None]
                        return bool(ds) and all(comp_filtered(v, depth + 1) for v in ds)
                    if isinstance(e, (ast.ListComp, ast.GeneratorExp)):
                        if any(prefix_test(i, g) for gen in e.generators for i in gen.ifs):
                            return True
                        return any(comp_filtered(gen.iter, depth + 1) for gen in e.generators)
                    return False

                if r.value.elts and all(comp_filtered(x) for x in r.value.elts[:1]):
                    filtered = True
            k = key(g, r)
            if unfiltered:
                R.ok("C12.R2", g.short, k, loc(g, r), "unfiltered list only for an empty prefix")
            elif filtered:
                R.ok("C12.R2", g.short, k, loc(g, r), "list filled under the prefix test")
            else:
                R.violation("C12.R2", g.short, k, loc(g, r), "the collector returns candidates that were not prefix-tested although a prefix was typed")


def r3(ctx, R):
    R.rule("C12.R3", "members of USE-associated modules are gathered with the public filter and restricted by ONLY; USE ... ONLY: offers public members only", floor=3, confirmed=4)
    h = handler(ctx)
    collector = next((g for g in ctx.m.nested_funcs(h) if g.name == "get_candidates"), None)
    if collector is None:
        raise AnalysisError("candidate collector not found")
    cc = next((g for g in ctx.m.nested_funcs(collector) if "filter_public" in g.params), None)
    if cc is None:
        raise AnalysisError("child collector with a filter_public parameter not found")
    from .c05 import _is_foreign

    # default of filter_public
    args = cc.node.args
    pos = args.posonlyargs + args.args
    dflt = dict(zip([p.arg for p in pos][len(pos) - len(args.defaults):], args.defaults))
    d = dflt.get("filter_public")
    default_true = isinstance(d, ast.Constant) and d.value is True
    for c in calls_in(collector.node):
        if ctx.m.enclosing_func(c) is not collector or cc.qual not in ctx.r.resolve_call(collector, c)[1]:
            continue
        scope_arg = c.args[0] if c.args else None
        fp = next((kw.value for kw in c.keywords if kw.arg == "filter_public"), None)
        if fp is None and len(c.args) > cc.params.index("filter_public"):
            fp = c.args[cc.params.index("filter_public")]
        foreign = _is_foreign(ctx, collector, scope_arg, c)
        st = ctx.m.enclosing_stmt(c)
        k = key(collector, st)[:90]
        if foreign:
            eff = default_true if fp is None else (isinstance(fp, ast.Constant) and fp.value is True)
            if eff:
                R.ok("C12.R3", collector.short, k + " :: public filter", loc(collector, c), "USE-associated module: public members only")
            else:
                R.violation("C12.R3", collector.short, k + " :: public filter", loc(collector, c), "members of a USE-associated module are offered without the public filter: PRIVATE names are completed")
            only = c.args[1] if len(c.args) > 1 else next((kw.value for kw in c.keywords if kw.arg == "only_list"), None)
            o = deref(ctx, collector, only) if only is not None else None
            if o is not None and ("rename" in unparse(o) or "only" in unparse(o)):
                R.ok("C12.R3", collector.short, k + " :: ONLY", loc(collector, c), "restricted by the ONLY list")
            else:
                R.violation("C12.R3", collector.short, k + " :: ONLY", loc(collector, c), "members of a USE-associated module are offered regardless of its ONLY list")
    # the child collector really filters: get_children(filter_public)
    gc = [c for c in calls_in(cc.node) if isinstance(c.func, ast.Attribute) and c.func.attr == "get_children"]
    if gc and any(isinstance(a, ast.Name) and a.id == "filter_public" for a in list(gc[0].args) + [kw.value for kw in gc[0].keywords]):
        R.ok("C12.R3", cc.short, key(cc, ctx.m.enclosing_stmt(gc[0]))[:90], loc(cc, gc[0]), "filter handed to get_children")
    else:
        R.violation("C12.R3", cc.short, "get_children(filter_public)", loc(cc, cc.node), "the public filter is accepted but not applied")
    # mod_mems context sets public_only
    for n in ctx.m.walk_own(h.node):
        if isinstance(n, ast.If) and "mod_mems" in unparse(n.test) and isinstance(n.test, ast.Compare) and isinstance(n.test.ops[0], ast.Eq):
            sets = any(isinstance(st, ast.Assign) and isinstance(st.targets[0], ast.Name) and st.targets[0].id == "public_only" and isinstance(st.value, ast.Constant) and st.value.value is True for st in ast.walk(n) if isinstance(st, ast.Assign))
            if sets:
                R.ok("C12.R3", h.short, "USE ... ONLY: public members only", loc(h, n))
            else:
                R.violation("C12.R3", h.short, "USE ... ONLY: public members only", loc(h, n), "after ONLY: private members of the module are offered")
    # Scope.get_children(public_only) skips private children
    sc = ctx.m.fn("Scope.get_children")
    if any(isinstance(n, ast.Compare) and "vis" in unparse(n) for n in ast.walk(sc.node)) and any("def_vis" in unparse(n) for n in ast.walk(sc.node)):
        R.ok("C12.R3", sc.short, "public_only honours vis and def_vis", loc(sc, sc.node))
    else:
        R.violation("C12.R3", sc.short, "public_only honours vis and def_vis", loc(sc, sc.node), "get_children(public_only=True) does not test both the entity's own visibility and the container default")


def r4(ctx, R):
    R.rule("C12.R4", "the type mask has an entry for every entity type id that a candidate can report", floor=1, confirmed=1)
    h = handler(ctx)
    sm = next((g for g in ctx.m.nested_funcs(h) if "mask" in g.name), None)
    if sm is None:
        raise AnalysisError("type mask builder not found")
    n = None
    for c in calls_in(sm.node):
        if isinstance(c.func, ast.Name) and c.func.id == "range" and c.args and isinstance(c.args[-1], ast.Constant):
            n = c.args[-1].value
    for x in ast.walk(sm.node):
        if isinstance(x, ast.BinOp) and isinstance(x.op, ast.Mult) and isinstance(x.right, ast.Constant) and isinstance(x.right.value, int):
            n = x.right.value
    if n is None:
        R.undecided("C12.R4", sm.short, "mask length", loc(sm, sm.node), "length not a constant")
        return
    consts = ctx.m.consts.get("fortls/constants.py", {})
    ids = {k: v.value for k, v in consts.items() if k.endswith("_TYPE_ID") and isinstance(v, ast.Constant) and isinstance(v.value, int)}
    mx = max(ids.values())
    # intrinsic objects: type ids given to Intrinsic(...) and the "type" values of the bundled tables
    extra = set()
    for f in ctx.m.funcs.values():
        for c in calls_in(f.node):
            if isinstance(c.func, ast.Name) and c.func.id in ("create_int_object",) and len(c.args) >= 3 and isinstance(c.args[2], ast.Constant):
                extra.add(c.args[2].value)
    jf = os.path.join(ctx.repo, "fortls/parsers/internal/intrinsic.procedures.json")
    try:
        with open(jf, encoding="utf-8") as fh:
            data = json.load(fh)
        extra |= {v.get("type") for v in data.values() if isinstance(v, dict) and isinstance(v.get("type"), int)}
    except (OSError, ValueError):
        R.notes.append("C12.R4: intrinsic.procedures.json not readable; only code constants considered")
    top = max([mx] + sorted(extra))
    if n > top:
        R.ok("C12.R4", sm.short, f"mask of {n} entries", loc(sm, sm.node), f"largest type id {top} (constants {mx}, intrinsic tables {sorted(extra)[-3:]})")
    else:
        R.violation("C12.R4", sm.short, f"mask of {n} entries", loc(sm, sm.node), f"type ids go up to {top}: type_mask[candidate.get_type()] raises IndexError for such a candidate and completion fails")


def r5(ctx, R):
    R.rule("C12.R5", "member completion includes inherited members of every EXTENDS level", floor=3, confirmed=3)
    t = ctx.m.cname.get("Type")
    gc = ctx.m.classes[t].methods.get("get_children") if t else None
    if not gc:
        raise AnalysisError("Type.get_children not found")
    g = ctx.m.funcs[gc]
    if any("in_children" in unparse(n) for n in ctx.m.walk_own(g.node)):
        R.ok("C12.R5", g.short, "inherited members included", loc(g, g.node))
    else:
        R.violation("C12.R5", g.short, "inherited members included", loc(g, g.node), "after `object%` the components inherited through EXTENDS are not offered")
    from .shared import inherited_member_sites

    for f, node, ok, what, why in inherited_member_sites(ctx):
        if ok:
            R.ok("C12.R5", f.short, what, loc(f, node))
        else:
            R.violation("C12.R5", f.short, what, loc(f, node), why)


def r6(ctx, R):
    R.rule("C12.R6", "context filters: after CALL only callable candidates, in USE only modules, ONLY-list test on the lower-cased name, renamed entities tested under their local name", floor=2, confirmed=4)
    h = handler(ctx)
    from .c13 import explicit_norm

    F = ctx.facts(h, interproc=False)
    # CALL: the branch sets a flag; every append of a candidate in the main loop is behind `flag and not is_callable -> continue`
    flag = None
    for n in ctx.m.walk_own(h.node):
        if isinstance(n, ast.If) and isinstance(n.test, ast.Compare) and isinstance(n.test.comparators[0], ast.Constant) and n.test.comparators[0].value == "call":
            for st in n.body:
                if isinstance(st, ast.Assign) and isinstance(st.targets[0], ast.Name) and isinstance(st.value, ast.Constant) and st.value.value is True:
                    flag = st.targets[0].id
            if flag is None:
                R.violation("C12.R6", h.short, "CALL context selects callable entities", loc(h, n), "the CALL branch sets no filter")
    if flag is not None:
        guard = None
        for n in ctx.m.walk_own(h.node):
            if isinstance(n, ast.If) and isinstance(n.test, ast.BoolOp) and isinstance(n.test.op, ast.And) and any(isinstance(v, ast.Name) and v.id == flag for v in n.test.values) and any(isinstance(b, ast.Continue) for b in n.body):
                neg = any(isinstance(v, ast.UnaryOp) and isinstance(v.op, ast.Not) and "is_callable" in unparse(deref(ctx, h, v.operand)) for v in n.test.values)
                if neg:
                    guard = n
        main_appends = [c for c in calls_in(h.node) if ctx.m.enclosing_func(c) is h and isinstance(c.func, ast.Attribute) and c.func.attr == "append" and isinstance(c.func.value, ast.Name) and c.func.value.id == "item_list"]
        loopers = []
        for c in main_appends:
            p = ctx.m.parent.get(ctx.m.enclosing_stmt(c))
            while p is not None and not isinstance(p, ast.FunctionDef):
                if isinstance(p, ast.For) and "candidate_list" in unparse(p.iter):
                    loopers.append((c, p))
                    break
                p = ctx.m.parent.get(p)
        if not loopers:
            raise AnalysisError("main candidate loop not found")
        for c, lp in loopers:
            cfg = ctx.cfg(h)
            if guard is not None and ctx.m.enclosing_stmt(c) is not guard and _after(ctx, h, guard, c, lp):
                R.ok("C12.R6", h.short, "CALL: " + key(h, ctx.m.enclosing_stmt(c))[:60], loc(h, c), f"behind `{flag} and not is_callable(): continue`")
            else:
                R.violation("C12.R6", h.short, "CALL: " + key(h, ctx.m.enclosing_stmt(c))[:60], loc(h, c), "after CALL a candidate is offered without the is_callable() test: variables and types are completed where only procedures are valid")
    # USE: only modules
    for c in calls_in(h.node):
        if ctx.m.enclosing_func(c) is not h or not (isinstance(c.func, ast.Attribute) and c.func.attr == "append" and isinstance(c.func.value, ast.Name) and c.func.value.id == "item_list"):
            continue
        facts = F.at(c) or set()
        if any(fa[0] == "cond" and fa[2] is True and "'mod_only'" in fa[1] for fa in facts) or any(fa[0] == "eq" and fa[2] == "mod_only" for fa in facts if len(fa) > 2):
            if any(fa[0] == "cond" and fa[2] is True and "get_type() == MODULE_TYPE_ID" in fa[1] for fa in facts):
                R.ok("C12.R6", h.short, "USE: only modules", loc(h, c))
            else:
                R.violation("C12.R6", h.short, "USE: only modules", loc(h, c), "in a USE statement entities other than modules are offered")
    # ONLY test on the lower-cased child name
    collector = next((g for g in ctx.m.nested_funcs(h) if g.name == "get_candidates"), None)
    cc = next((g for g in ctx.m.nested_funcs(collector) if "filter_public" in g.params), None) if collector else None
    found = False
    for n in ctx.m.walk_own(cc.node) if cc else ():
        if isinstance(n, ast.Compare) and isinstance(n.ops[0], (ast.In, ast.NotIn)) and isinstance(n.comparators[0], ast.Name) and n.comparators[0].id == "only_list":
            found = True
            if explicit_norm(n.left, ctx, cc, n):
                R.ok("C12.R6", cc.short, unparse(n), loc(cc, n), "ONLY names are stored lower-cased; candidate lower-cased")
            else:
                R.violation("C12.R6", cc.short, unparse(n), loc(cc, n), "the ONLY list holds lower-cased names but the candidate's name is compared as spelled: `use m, only: foo` hides `Foo`")
    if cc is not None and not found:
        R.violation("C12.R6", cc.short, "ONLY membership test", loc(cc, cc.node), "USE-associated members are not restricted to the ONLY list")
    # renamed entity: prefix test on the local name
    g = collector
    if g is not None:
        okk = False
        for c in calls_in(g.node):
            if isinstance(c.func, ast.Attribute) and c.func.attr == "startswith":
                base = c.func.value
                for _ in range(4):
                    while isinstance(base, ast.Call) and isinstance(base.func, ast.Attribute):
                        base = base.func.value
                    own = ctx.m.enclosing_func(c) or g  # the test may sit in a nested helper
                    nb = deref(ctx, own, base, 1) if isinstance(base, ast.Name) else base
                    if nb is base:
                        break
                    base = nb
                if isinstance(base, ast.Name):
                    own = ctx.m.enclosing_func(c) or g
                    srcs = [unparse(v) for _, v in defs_of(ctx, own, base.id) if v is not None]
                    if any(s == "rename" for s in srcs) and any(".name" in s for s in srcs):
                        okk = True
                        R.ok("C12.R6", g.short, "renamed entities matched by local name", loc(g, c))
        if not okk:
            R.violation("C12.R6", g.short, "renamed entities matched by local name", loc(g, g.node), "an entity renamed by `local => remote` is prefix-tested under its remote name only: typing the local name offers nothing")


def _after(ctx, h, guard, call, loop):
    """the guard `if ...: continue` precedes the statement of `call` in the same loop body chain"""
    st = ctx.m.enclosing_stmt(call)
    chain = []
    p = st
    while p is not None and p is not loop:
        chain.append(p)
        p = ctx.m.parent.get(p)
    if p is not loop or guard not in loop.body:
        return False
    top = chain[-1]
    return top in loop.body and loop.body.index(guard) < loop.body.index(top)


def r7(ctx, R):
    R.rule("C12.R7", "USE associations of all enclosing scopes are merged by the USE-tree builder itself: inside the loop over scopes its result replaces the accumulator that was passed in", floor=1, confirmed=1)
    gut = ctx.m.fn("get_use_tree")
    h = handler(ctx)
    scope = [h] + [g for g in ctx.m.funcs.values() if g.qual.startswith(h.qual + ".")]
    n = 0
    for f in scope:
        for c in calls_in(f.node):
            if ctx.m.enclosing_func(c) is not f or gut.qual not in ctx.r.resolve_call(f, c)[1]:
                continue
            lp = ctx.m.parent.get(ctx.m.enclosing_stmt(c))
            while lp is not None and not isinstance(lp, (ast.For, ast.While, ast.FunctionDef)):
                lp = ctx.m.parent.get(lp)
            if not isinstance(lp, (ast.For, ast.While)):
                continue
            n += 1
            st = ctx.m.enclosing_stmt(c)
            acc = c.args[1] if len(c.args) > 1 else next((kw.value for kw in c.keywords if kw.arg == "use_dict"), None)
            tgt = st.targets[0] if isinstance(st, ast.Assign) and st.value is c else None
            k = key(f, st)[:90]
            if tgt is not None and acc is not None and isinstance(acc, ast.Name) and unparse(tgt) == acc.id:
                R.ok("C12.R7", f.short, k, loc(f, c), f"accumulator `{acc.id}` threaded through the builder")
            else:
                R.violation("C12.R7", f.short, k, loc(f, c), "each enclosing scope's USE tree is built separately and combined outside the builder: a second `use M, only: b` in an inner scope replaces the host's `use M` instead of being merged with it, so host-associated names of M are no longer offered")
    if n == 0:
        raise AnalysisError("completion does not build USE trees in its scope loop")


def run(ctx, R):
    r7(ctx, R)
    r6(ctx, R)
    r1(ctx, R)
    r2(ctx, R)
    r3(ctx, R)
    r4(ctx, R)
    r5(ctx, R)
    # R8 (shared with C05.R7): `use m, only:` offers nothing of m - the reader keeps an empty ONLY list distinguishable from none
    from .c05 import r7 as _only_list_recorded

    _only_list_recorded(ctx, R, rule="C12.R8")
