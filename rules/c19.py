"""C19 — command line and configuration file are interchangeable; the file wins
(DESIGN.md 3/C19): option-table agreement, defaults, handler coverage."""
from __future__ import annotations

import ast

from sa.model import AnalysisError, access_path, unparse

from .shared import calls_in, exc_ancestors, handler_catches, key, loc, server_class, dispatch_table


def option_table(ctx):
    """dest -> dict(call, action, type, nargs, flags, func)"""
    out = {}
    for f in ctx.m.funcs.values():
        if not f.rel.endswith("interface.py"):
            continue
        for c in calls_in(f.node):
            if isinstance(c.func, ast.Attribute) and c.func.attr == "add_argument":
                flags = [a.value for a in c.args if isinstance(a, ast.Constant) and isinstance(a.value, str)]
                kws = {kw.arg: kw.value for kw in c.keywords}
                dest = None
                if "dest" in kws and isinstance(kws["dest"], ast.Constant):
                    dest = kws["dest"].value
                else:
                    longs = [x for x in flags if x.startswith("--")]
                    if longs:
                        dest = longs[0][2:].replace("-", "_")
                    elif flags and not flags[0].startswith("-"):
                        dest = flags[0]
                if dest is None:
                    continue
                act = kws.get("action")
                out[dest] = {
                    "call": c,
                    "func": f,
                    "flags": flags,
                    "action": (act.value if isinstance(act, ast.Constant) else unparse(act)) if act is not None else None,
                    "type": unparse(kws["type"]) if "type" in kws else None,
                    "nargs": unparse(kws["nargs"]) if "nargs" in kws else None,
                    "default": kws.get("default"),
                }
    if len(out) < 20:
        raise AnalysisError(f"option table: only {len(out)} add_argument calls found")
    return out


def loader_statements(ctx):
    """[(func, stmt, key literal, default expr, stored attr, value expr, get call)] for every
    `self.A = ... D.get("K", default) ...` in the server class."""
    cfgf, cfgtry = config_loader(ctx)
    # the configuration dict: the local bound to the parse result, and the
    # parameters it is handed to
    cfg_names = {}
    for st in ast.walk(cfgtry):
        if isinstance(st, ast.Assign) and isinstance(st.targets[0], ast.Name) and isinstance(st.value, ast.Call):
            d = ctx.m.dotted(cfgf.rel, st.value.func) if isinstance(st.value.func, (ast.Name, ast.Attribute)) else None
            if d and d.split(".")[-1] in ("load", "loads"):
                cfg_names[cfgf.qual] = st.targets[0].id
    if cfgf.qual not in cfg_names:
        raise AnalysisError("configuration dict local not found in the loader")
    for c in calls_in(cfgf.node):
        k, tg = ctx.r.resolve_call(cfgf, c)
        if k in ("typed", "module", "import", "nested"):
            for i, a in enumerate(c.args):
                if isinstance(a, ast.Name) and a.id == cfg_names[cfgf.qual]:
                    for t in tg:
                        g = ctx.m.funcs[t]
                        ps = g.params[1:] if g.cls else g.params
                        if i < len(ps):
                            cfg_names[t] = ps[i]
    out = []
    for q, cname in cfg_names.items():
        f = ctx.m.funcs[q]
        for st in ctx.m.walk_own(f.node):
            if not isinstance(st, (ast.Assign, ast.AnnAssign)):
                continue
            tgt = st.targets[0] if isinstance(st, ast.Assign) else st.target
            val = st.value
            if val is None:
                continue
            for c in ast.walk(val):
                if isinstance(c, ast.Call) and isinstance(c.func, ast.Attribute) and c.func.attr == "get" and c.args and isinstance(c.args[0], ast.Constant) and isinstance(c.args[0].value, str):
                    recv = c.func.value
                    if not isinstance(recv, ast.Name) or recv.id != cname:
                        continue
                    default = c.args[1] if len(c.args) > 1 else None
                    for kw in c.keywords:
                        if kw.arg == "default":
                            default = kw.value
                    attr = tgt.attr if isinstance(tgt, ast.Attribute) and isinstance(tgt.value, ast.Name) and tgt.value.id == f.params[0] else None
                    local = tgt.id if isinstance(tgt, ast.Name) else None
                    out.append({"func": f, "stmt": st, "key": c.args[0].value, "default": default, "attr": attr, "local": local, "value": val, "get": c})
    return out


def attr_reads(ctx, skip_rel=("interface.py", "schema.py")):
    """attribute names read (Load) anywhere in the package"""
    out = set()
    for rel, tree in ctx.m.mods.items():
        if rel.endswith(skip_rel):
            continue
        for n in ast.walk(tree):
            if isinstance(n, ast.Attribute) and isinstance(n.ctx, ast.Load):
                out.add(n.attr)
            if isinstance(n, ast.Call) and isinstance(n.func, ast.Name) and n.func.id == "getattr" and len(n.args) >= 2 and isinstance(n.args[1], ast.Constant):
                out.add(n.args[1].value)
    return out


def config_loader(ctx):
    """The method whose try covers open() + the configuration parse."""
    sc = server_class(ctx)
    for q in sc.methods.values():
        f = ctx.m.funcs[q]
        for n in ctx.m.walk_own(f.node):
            if isinstance(n, ast.Try):
                names = {ctx.m.dotted(f.rel, c.func) for c in calls_in(n) if isinstance(c.func, (ast.Name, ast.Attribute))}
                if "open" in names and any(d and d.split(".")[-1] in ("load", "loads") and d.split(".")[0] in ("json", "json5", "yaml", "toml", "tomllib") for d in names):
                    return f, n
    raise AnalysisError("configuration loader (try covering open + json load) not found")


def run(ctx, R):
    R.rule("C19.R1", "every effective command-line option can be given in the configuration file", floor=20, confirmed=27)
    R.rule("C19.R2", "file wins, absence keeps the command-line value: key = attribute, default = the current value", floor=20, confirmed=29)
    R.rule("C19.R3", "a faulty configuration file is reported, not fatal", floor=3, confirmed=5)
    R.rule("C19.R4", "state derived from options is re-derived after the file is read; consumers run after the load", floor=2, confirmed=6)
    R.rule("C19.R5", "same value type on both channels (set-valued options)", floor=1, confirmed=6)
    opts = option_table(ctx)
    loads = loader_statements(ctx)
    reads = attr_reads(ctx)
    sc = server_class(ctx)
    init = ctx.m.funcs[sc.methods["__init__"]]
    by_key = {}
    for L in loads:
        by_key.setdefault(L["key"], []).append(L)
    cfgf, cfgtry = config_loader(ctx)
    # ---------------------------------------------------------------- R1
    for dest, o in sorted(opts.items()):
        where = o["func"].short
        k = f"option {dest}"
        l = loc(o["func"], o["call"])
        if o["action"] in ("version", "help"):
            continue
        if dest.startswith("debug_") and dest != "debug_log":
            continue  # CLI-only debug front end (same exclusion as LangServer.__init__)
        if dest == "config":
            continue  # the locator of the file itself
        if dest not in reads:
            R.observe("C19.R1", where, k, l, "option is never read in the package (inert)")
            continue
        Ls = by_key.get(dest, [])
        if not Ls:
            # named as a literal somewhere below the configuration loader (a wrapper the table reader does not see through)?
            named = False
            for q_ in ctx.r.reachable({cfgf.qual}, by_name=False):
                g_ = ctx.m.funcs.get(q_)
                if g_ is not None and any(isinstance(x, ast.Constant) and x.value == dest for x in ast.walk(g_.node)):
                    named = True
            if named:
                R.undecided("C19.R1", where, k, l, f"--{dest} is named inside the configuration loader but not read with dict.get(key, default) - loader shape not recognised")
            else:
                R.violation("C19.R1", where, k, l, f"option --{dest} is read by the server but no loader takes it from the configuration file")
            continue
        R.ok("C19.R1", where, k, l, "loaded in " + Ls[0]["func"].short)
    # keys consulted that are no option at all (typos)
    for L in loads:
        if L["key"] not in opts:
            R.violation("C19.R1", L["func"].short, key(L["func"], L["stmt"]), loc(L["func"], L["stmt"]), f"configuration key {L['key']!r} is not the name of any command-line option")
    # ---------------------------------------------------------------- R2 / R5
    selfn = None
    for L in loads:
        f = L["func"]
        selfn = f.params[0]
        k = key(f, L["stmt"])
        l = loc(f, L["stmt"])
        if L["key"] not in opts:
            continue
        target = L["attr"]
        if target is None:
            # stored into a local first (debug_log idiom): default must still be self.<key>
            want = f"{selfn}.{L['key']}"
            d = L["default"]
            if d is not None and unparse(d) == want:
                R.ok("C19.R2", f.short, k, l, "read into a local with the current value as default")
            else:
                R.violation("C19.R2", f.short, k, l, f"default of {L['key']!r} is {unparse(d) if d is not None else 'None'}, not the command-line value {want}")
            continue
        if target != L["key"]:
            R.violation("C19.R2", f.short, k, l, f"configuration key {L['key']!r} is stored into self.{target}")
            continue
        d = L["default"]
        want = f"{selfn}.{target}"
        ok = d is not None and (unparse(d) == want or (isinstance(d, ast.Call) and len(d.args) == 1 and unparse(d.args[0]) == want))
        inside = {id(x) for x in ast.walk(d)} if d is not None else set()
        merged = [x for x in ast.walk(L["value"]) if isinstance(x, ast.Attribute) and id(x) not in inside and unparse(x) == want]
        if merged:
            R.violation("C19.R2", f.short, k, l, f"the stored value is computed from the current value {want} also when the file gives {L['key']!r}: the file's value is merged with the command-line value instead of replacing it")
        elif ok:
            R.ok("C19.R2", f.short, k, l)
        else:
            R.violation("C19.R2", f.short, k, l, f"an option absent from the file is reset to {unparse(d) if d is not None else 'None'} instead of keeping its command-line value ({want})")
        # R5
        o = opts[L["key"]]
        if o["action"] == "SetAction":
            v = L["value"]
            if isinstance(v, ast.Call) and isinstance(v.func, ast.Name) and v.func.id == "set":
                R.ok("C19.R5", f.short, k, l, "set-valued on both channels")
            else:
                R.violation("C19.R5", f.short, k, l, f"--{L['key']} is a set on the command line but stored as given (a list) from the file")
    if not any(i.rule == "C19.R5" for i in R.insts):
        R.undecided("C19.R5", cfgf.short, "set-valued options", loc(cfgf, cfgf.node), "no loader of a set-valued option stores its value in a recognised form")
    # the dictionary the loaders read is the parsed file itself: a re-binding that drops entries
    # by their *value* (falsy values, None, ...) makes the file lose against the command line
    # for exactly those values
    cname = None
    for st in ast.walk(cfgtry):
        if isinstance(st, ast.Assign) and isinstance(st.targets[0], ast.Name) and isinstance(st.value, ast.Call):
            d_ = ctx.m.dotted(cfgf.rel, st.value.func) if isinstance(st.value.func, (ast.Name, ast.Attribute)) else None
            if d_ and d_.split(".")[-1] in ("load", "loads"):
                cname = st.targets[0].id
    rebinds = [st for st in ctx.m.walk_own(cfgf.node) if isinstance(st, ast.Assign) and any(isinstance(t, ast.Name) and t.id == cname for t in st.targets) and not (isinstance(st.value, ast.Call) and (ctx.m.dotted(cfgf.rel, st.value.func) or "").split(".")[-1] in ("load", "loads"))]
    if not rebinds:
        R.ok("C19.R2", cfgf.short, "the loaders read the parsed file unfiltered", loc(cfgf, cfgf.node))
    for st in rebinds:
        v = st.value
        k = key(cfgf, st)
        if isinstance(v, ast.DictComp) and len(v.generators) == 1 and isinstance(v.generators[0].target, ast.Tuple) and len(v.generators[0].target.elts) == 2:
            kv, vv = v.generators[0].target.elts
            vname = vv.id if isinstance(vv, ast.Name) else None
            by_value = [c for c in v.generators[0].ifs if vname and any(isinstance(x, ast.Name) and x.id == vname for x in ast.walk(c))]
            changed = not (isinstance(v.value, ast.Name) and v.value.id == vname)
            if by_value or changed:
                R.violation("C19.R2", cfgf.short, k, loc(cfgf, st), "entries of the configuration file are dropped or rewritten depending on their value before the loaders see them: for those values (false, 0, \"\", [] ...) the file no longer wins over the command line")
            else:
                R.ok("C19.R2", cfgf.short, k, loc(cfgf, st), "re-binding filters by key only")
        else:
            R.undecided("C19.R2", cfgf.short, k, loc(cfgf, st), "the configuration dictionary is re-bound in a way the rule does not recognise")
    # every loader runs inside the guarded region: a value of the wrong type (`"source_dirs": 5`)
    # raises TypeError/AttributeError in a loader, which must end in the message, not in initialize
    from .shared import absorbs

    loader_quals = {L["func"].qual for L in loads if L["func"].qual != cfgf.qual}
    n_lc = 0
    for c in calls_in(cfgf.node):
        if ctx.m.enclosing_func(c) is not cfgf:
            continue
        tg = ctx.r.resolve_call(cfgf, c)[1] & loader_quals
        if not tg:
            continue
        n_lc += 1
        k = key(cfgf, ctx.m.enclosing_stmt(c))
        if absorbs(ctx, c, "TypeError") and absorbs(ctx, c, "ValueError"):
            R.ok("C19.R3", cfgf.short, k + " :: guarded", loc(cfgf, c), "wrong value types raised by the loader are reported")
        else:
            R.violation("C19.R3", cfgf.short, k + " :: guarded", loc(cfgf, c), "this loader runs outside the try that reports a faulty file: a value of the wrong type in a valid JSON file (`\"source_dirs\": 5`) raises TypeError out of initialize instead of producing a message")
    # ---------------------------------------------------------------- R3
    f, t = cfgf, cfgtry
    need = {"OSError": "an unreadable or vanished file", "ValueError": "invalid JSON / undecodable bytes"}
    covered = {}
    for name in ("OSError", "ValueError", "TypeError", "AttributeError"):
        anc = exc_ancestors(name)
        covered[name] = any(handler_catches(h, anc) for h in t.handlers)
    # a dominating isinstance(config, dict) guard makes Attribute/TypeError of a wrong top-level type impossible
    has_guard = any(isinstance(c.func, ast.Name) and c.func.id == "isinstance" and len(c.args) == 2 and unparse(c.args[1]).split(".")[-1] in ("dict", "Mapping") for c in calls_in(t))
    for name, what in need.items():
        if covered[name]:
            R.ok("C19.R3", f.short, f"handler coverage {name}", loc(f, t), what)
        else:
            R.violation("C19.R3", f.short, f"handler coverage {name}", loc(f, t), f"{what} raises {name} out of the configuration loader: initialize fails instead of reporting the faulty file")
    if covered["TypeError"] and (covered["AttributeError"] or has_guard):
        R.ok("C19.R3", f.short, "handler coverage wrong types", loc(f, t), "wrong top-level or value type is reported")
    else:
        miss = [n for n in ("AttributeError", "TypeError") if not covered[n] and not (n == "AttributeError" and has_guard)]
        R.violation("C19.R3", f.short, "handler coverage wrong types", loc(f, t), f"a configuration file of the wrong top-level or value type raises {'/'.join(miss)} out of the loader (e.g. a JSON list has no .get)")
    for h in t.handlers:
        hk = "except " + (unparse(h.type) if h.type is not None else "")
        posts = any(isinstance(c.func, ast.Attribute) and c.func.attr == "post_message" for s in h.body for c in calls_in(s))
        reraises = any(isinstance(x, ast.Raise) for s in h.body for x in ast.walk(s))
        if posts and not reraises:
            R.ok("C19.R3", f.short, hk, loc(f, h), "reports and continues")
        elif reraises:
            R.violation("C19.R3", f.short, hk, loc(f, h), "the handler re-raises: initialization does not complete")
        else:
            R.violation("C19.R3", f.short, hk, loc(f, h), "the handler swallows the error without a user-visible message")
    # ---------------------------------------------------------------- R4
    optnames = set(opts)
    derived = []
    for st in ctx.m.walk_own(init.node):
        if isinstance(st, (ast.Assign, ast.AnnAssign)):
            tgt = st.targets[0] if isinstance(st, ast.Assign) else st.target
            if isinstance(tgt, ast.Attribute) and isinstance(tgt.value, ast.Name) and tgt.value.id == init.params[0] and st.value is not None:
                srcs = {n.attr for n in ast.walk(st.value) if isinstance(n, ast.Attribute) and isinstance(n.value, ast.Name) and n.value.id == init.params[0] and n.attr in optnames}
                if srcs and tgt.attr not in optnames:
                    derived.append((tgt.attr, srcs, st))
    for attr, srcs, st in derived:
        for src in sorted(srcs):
            Ls = [L for L in by_key.get(src, []) if L["attr"] == src]
            if not Ls:
                continue
            L = Ls[0]
            f2 = L["func"]
            again = [s for s in ctx.m.walk_own(f2.node) if isinstance(s, (ast.Assign, ast.AnnAssign)) and isinstance((s.targets[0] if isinstance(s, ast.Assign) else s.target), ast.Attribute) and (s.targets[0] if isinstance(s, ast.Assign) else s.target).attr == attr and s.lineno > L["stmt"].lineno]
            if again:
                R.ok("C19.R4", f2.short, f"self.{attr} re-derived from {src}", loc(f2, again[0]))
            else:
                R.violation("C19.R4", f2.short, f"self.{attr} re-derived from {src}", loc(f2, L["stmt"]), f"self.{attr} is computed from --{src} in __init__ but not recomputed after the option is read from the file: the file's value has no effect")
    # consumers run after the load in the initialize handler
    inits = dispatch_table(ctx).get("initialize", set())
    for q in inits:
        g = ctx.m.funcs[q]
        load_call = None
        for c in calls_in(g.node):
            k, tg = ctx.r.resolve_call(g, c)
            if cfgf.qual in tg:
                load_call = c
        if load_call is None:
            R.violation("C19.R4", g.short, "configuration load", loc(g, g.node), "the initialize handler does not load the configuration file")
            continue
        attrs = ctx.e.attr_sets()
        for st in g.node.body:
            if st.lineno >= load_call.lineno:
                break
            for c in calls_in(st):
                k, tg = ctx.r.resolve_call(g, c)
                if k in ("external", "unknown"):
                    continue
                # a repo function called before the load that reads option attributes
                rd = set()
                for t in ctx.r.reachable(tg, by_name=False):
                    h = ctx.m.funcs[t]
                    rd |= {n.attr for n in ast.walk(h.node) if isinstance(n, ast.Attribute) and isinstance(n.ctx, ast.Load) and n.attr in optnames}
                rd |= {n.attr for a in c.args for n in ast.walk(a) if isinstance(n, ast.Attribute) and n.attr in optnames}
                if rd:
                    R.violation("C19.R4", g.short, key(g, st), loc(g, st), f"runs before the configuration file is loaded but depends on option(s) {sorted(rd)[:4]}")
        R.ok("C19.R4", g.short, "configuration loaded before option consumers", loc(g, load_call))
    # ---------------------------------------------------------------- R6 (shared with C15.R7)
    # a process-wide setting derived from an option ends initialisation holding the option's final
    # value, whichever channel set it; otherwise the file's value has no effect on files parsed in-process
    from .c15 import r7 as _process_wide_settings

    _process_wide_settings(ctx, R, rule="C19.R6")
