"""Anchors found by role and helpers shared by the property modules."""
from __future__ import annotations

import ast

from sa.model import AnalysisError, Func, access_path, alpha_key, const_str, head, unparse


def key(f: Func | None, node):
    return alpha_key(f.node if f is not None else None, node)


def loc(f_or_rel, node):
    rel = f_or_rel.rel if isinstance(f_or_rel, Func) else f_or_rel
    from sa.inline import true_line

    return f"{rel}:{true_line(node)}"


def calls_in(node):
    return [n for n in ast.walk(node) if isinstance(n, ast.Call)]


def str_keys(d: ast.Dict):
    return [k.value for k in d.keys if isinstance(k, ast.Constant) and isinstance(k.value, str)]


# ---------------------------------------------------------------- anchors
def dispatcher(ctx):
    """(func, dict node) — the method holding the dict literal keyed by LSP
    method names."""
    memo = getattr(ctx, "_dispatcher_memo", None)
    if memo is not None and memo[0] is ctx.m:
        return memo[1]
    hits = []
    for f in ctx.m.funcs.values():
        for n in ctx.m.walk_own(f.node):
            if isinstance(n, ast.Dict):
                ks = str_keys(n)
                if len(ks) >= 8 and sum(1 for k in ks if k.startswith("textDocument/")) >= 5:
                    hits.append((f, n))
    if len(hits) != 1:
        raise AnalysisError(f"dispatcher (dict literal keyed by LSP method names): found {len(hits)}")
    try:
        ctx._dispatcher_memo = (ctx.m, hits[0])
    except AttributeError:
        pass
    return hits[0]


def dispatch_table(ctx):
    """{method name: set of handler quals} from the dispatcher dict."""
    f, d = dispatcher(ctx)
    out = {}
    for k, v in zip(d.keys, d.values):
        if isinstance(k, ast.Constant) and isinstance(k.value, str):
            out[k.value] = ctx.r.func_value_targets(f, v)
    return out


def server_class(ctx):
    f, _ = dispatcher(ctx)
    if not f.cls:
        raise AnalysisError("dispatcher is not a method")
    return ctx.m.classes[f.cls]


def server_loop(ctx):
    """(func, while node, read call) — the method that calls read_message inside a while."""
    hits = []
    for f in ctx.m.funcs.values():
        if f.cls != server_class(ctx).qual:
            continue
        for n in ctx.m.walk_own(f.node):
            if isinstance(n, ast.While):
                for c in calls_in(n):
                    if isinstance(c.func, ast.Attribute) and c.func.attr == "read_message":
                        hits.append((f, n, c))
    if len(hits) != 1:
        raise AnalysisError(f"server loop (while containing read_message()): found {len(hits)}")
    return hits[0]


def connection_class(ctx):
    """Class of the server's connection object: the class defining read_message."""
    hits = [c for c in ctx.m.classes.values() if "read_message" in c.methods]
    if len(hits) != 1:
        raise AnalysisError(f"connection class (defines read_message): found {len(hits)}")
    return hits[0]


def framing_sites(ctx):
    """Functions that *build* a string containing 'Content-Length' (f-string,
    concatenation, %-format or .format template)."""
    out = []
    for f in ctx.m.funcs.values():
        for n in ctx.m.walk_own(f.node):
            hit = False
            if isinstance(n, ast.JoinedStr):
                txt = "".join(v.value for v in n.values if isinstance(v, ast.Constant) and isinstance(v.value, str))
                # header name directly followed by an interpolated value
                for a, b in zip(n.values, n.values[1:]):
                    if isinstance(a, ast.Constant) and isinstance(a.value, str) and a.value.rstrip(" ").endswith("Content-Length:") and isinstance(b, ast.FormattedValue):
                        hit = True
            elif isinstance(n, ast.Constant) and isinstance(n.value, str) and "Content-Length" in n.value:
                par = ctx.m.parent.get(n)
                if isinstance(par, ast.BinOp) and isinstance(par.op, (ast.Add, ast.Mod)) and n.value.rstrip(" ").endswith(("Content-Length:", "%d", "%s", "{}")):
                    hit = True
                elif isinstance(par, ast.BinOp) and isinstance(par.op, ast.Mod) and par.left is n and __import__("re").search(r"Content-Length:\s*%[ds]", n.value):
                    hit = True  # the whole header block as one %-template
                elif isinstance(par, ast.Attribute) and par.attr in ("format", "join"):
                    hit = True
            if hit and f not in out:
                out.append(f)
    return out


def response_writers(ctx):
    """Methods of the connection class that emit a *response*: body dict with an
    "id" key and a "result" or "error" key.  Returns {qual: 'result'|'error'}."""
    cc = connection_class(ctx)
    out = {}
    for name, q in cc.methods.items():
        f = ctx.m.funcs[q]
        for n in ctx.m.walk_own(f.node):
            if isinstance(n, ast.Dict):
                ks = set(str_keys(n))
                if "id" in ks and ("result" in ks or "error" in ks) and "method" not in ks:
                    out[q] = "result" if "result" in ks else "error"
    if not out:
        raise AnalysisError("no response writers found in the connection class")
    return out


def low_level_sender(ctx):
    """The connection method that frames and writes (contains Content-Length)."""
    cc = connection_class(ctx)
    hits = [f for f in framing_sites(ctx) if f.cls == cc.qual]
    if len(hits) != 1:
        raise AnalysisError(f"low-level sender: found {len(hits)}")
    return hits[0]


def enclosing_handlers(ctx, node):
    """ExceptHandler lists of the try statements whose *body* encloses node,
    innermost first."""
    out = []
    child = node
    cur = ctx.m.parent.get(node)
    while cur is not None and not isinstance(cur, (ast.FunctionDef, ast.AsyncFunctionDef)):
        if isinstance(cur, ast.Try) and any(child is s for s in cur.body):
            out.append(cur.handlers)
        child = cur
        cur = ctx.m.parent.get(cur)
    return out


def handler_catches(h: ast.ExceptHandler, names):
    """Does handler h catch an exception class named in `names` (or everything)?"""
    if h.type is None:
        return True
    ts = h.type.elts if isinstance(h.type, ast.Tuple) else [h.type]
    got = {unparse(t).split(".")[-1] for t in ts}
    return bool(got & (set(names) | {"BaseException"}))


BUILTIN_EXC_PARENTS = None


def exc_ancestors(name):
    """Names of the builtin exception `name` and its base classes."""
    import builtins

    cls = getattr(builtins, name, None)
    if cls is None or not isinstance(cls, type) or not issubclass(cls, BaseException):
        return {name, "Exception", "BaseException"}
    return {c.__name__ for c in cls.__mro__ if c is not object}


def absorbs(ctx, node, exc_name):
    """Is `node` inside a try body one of whose handlers catches exc_name (or an
    ancestor) without re-raising?"""
    anc = exc_ancestors(exc_name)
    for handlers in enclosing_handlers(ctx, node):
        for h in handlers:
            if handler_catches(h, anc):
                if not any(isinstance(x, ast.Raise) for s in h.body for x in ast.walk(s)):
                    return True
                return False
    return False


# ----------------------------------------------------------- local def-use
def defs_of(ctx, f, name):
    """All values assigned to local `name` in f's own body: list of (stmt, value
    or None when bound by for/with/unpacking)."""
    out = []
    for n in ctx.m.walk_own(f.node):
        if isinstance(n, ast.Assign):
            for t in n.targets:
                if isinstance(t, ast.Name) and t.id == name:
                    out.append((n, n.value))
                elif isinstance(t, (ast.Tuple, ast.List)):
                    for i, x in enumerate(t.elts):
                        if isinstance(x, ast.Name) and x.id == name:
                            if isinstance(n.value, (ast.Tuple, ast.List)) and len(n.value.elts) == len(t.elts):
                                out.append((n, n.value.elts[i]))
                            else:
                                out.append((n, None))
        elif isinstance(n, ast.AnnAssign) and isinstance(n.target, ast.Name) and n.target.id == name and n.value is not None:
            out.append((n, n.value))
        elif isinstance(n, ast.AugAssign) and isinstance(n.target, ast.Name) and n.target.id == name:
            out.append((n, None))
        elif isinstance(n, (ast.For, ast.comprehension)):
            if any(isinstance(x, ast.Name) and x.id == name for x in ast.walk(n.target)):
                out.append((n, None))
        elif isinstance(n, ast.NamedExpr) and isinstance(n.target, ast.Name) and n.target.id == name:
            out.append((n, n.value))
    return out


def single_def(ctx, f, name):
    d = defs_of(ctx, f, name)
    if len(d) == 1 and name not in f.params:
        return d[0][1]
    return None


def deref(ctx, f, e, depth=3):
    """Follow single-assignment locals: the expression a Name stands for."""
    while isinstance(e, ast.Name) and depth > 0:
        v = single_def(ctx, f, e.id)
        if v is None:
            break
        e = v
        depth -= 1
    return e


def is_call_to(ctx, f, e, dotted):
    if not isinstance(e, ast.Call) or not isinstance(e.func, (ast.Name, ast.Attribute)):
        return False
    d = ctx.m.dotted(f.rel, e.func)
    return d == dotted or (isinstance(dotted, (set, tuple, list)) and d in dotted)


def reaching_defs(ctx, f, at_node, name):
    """Values of the definitions of local `name` that reach AST node `at_node`
    (backward walk over the CFG).  Elements: value expr, or None for bindings
    without a single value (for targets, unpacking), or 'param' for the entry."""
    from sa.cfg import assigned_paths

    cfg = ctx.cfg(f)
    n0 = cfg.node_of(at_node)
    if n0 is None:
        return [v for _, v in defs_of(ctx, f, name)]
    out = []
    seen = set()
    stack = [p for p, lab in n0.preds]
    while stack:
        i = stack.pop()
        if i in seen:
            continue
        seen.add(i)
        n = cfg.nodes[i]
        hit = False
        a = n.ast
        if n.kind == "stmt" and isinstance(a, (ast.Assign, ast.AnnAssign, ast.AugAssign)):
            if name in assigned_paths(a):
                hit = True
                if isinstance(a, ast.Assign) and any(isinstance(t, ast.Name) and t.id == name for t in a.targets):
                    out.append(a.value)
                elif isinstance(a, ast.AnnAssign) and a.value is not None:
                    out.append(a.value)
                else:
                    out.append(None)
        elif n.kind == "for" and name in assigned_paths(a):
            hit = True
            out.append(None)
        elif n.kind == "stmt" and isinstance(a, ast.With) and name in assigned_paths(a):
            hit = True
            out.append(None)
        elif n.kind == "entry":
            if name in f.params:
                out.append("param")
            continue
        if not hit:
            stack.extend(p for p, lab in n.preds)
    return out


def reaching_def_nodes(ctx, f, at_node, name):
    """AST statements (Assign/AnnAssign/AugAssign/For/With) whose binding of
    local `name` reaches `at_node`; the string 'param' stands for the entry."""
    from sa.cfg import assigned_paths

    cfg = ctx.cfg(f)
    n0 = cfg.node_of(at_node)
    if n0 is None:
        return [st for st, _ in defs_of(ctx, f, name)] + (["param"] if name in f.params else [])
    out = []
    seen = set()
    stack = [p for p, lab in n0.preds]
    # a loop statement's own target binds on entry to the body
    while stack:
        i = stack.pop()
        if i in seen:
            continue
        seen.add(i)
        n = cfg.nodes[i]
        a = n.ast
        hit = False
        if n.kind == "stmt" and isinstance(a, (ast.Assign, ast.AnnAssign, ast.AugAssign, ast.With)) and name in assigned_paths(a):
            hit = True
            out.append(a)
        elif n.kind == "for" and name in assigned_paths(a):
            hit = True
            out.append(a)
        elif n.kind == "entry":
            if name in f.params:
                out.append("param")
            continue
        if not hit:
            stack.extend(p for p, lab in n.preds)
    return out


# ----------------------------------------------------------- inherited members
def inherited_member_sites(ctx):
    """[(func, node, ok, what, why)] for the code that fills a derived type's
    inherited-member list: the source must be the parent's *full* member list
    (own + inherited), taken after the parent's own inheritance was resolved."""
    t = ctx.m.cname.get("Type")
    if not t:
        raise AnalysisError("class Type not found")
    out = []
    for nm, q in ctx.m.classes[t].methods.items():
        f = ctx.m.funcs[q]
        for lp in (n for n in ctx.m.walk_own(f.node) if isinstance(n, (ast.For, ast.ListComp))):
            gens = [lp] if isinstance(lp, ast.For) else lp.generators
            body_txt = unparse(lp)
            fills = False
            if isinstance(lp, ast.For):
                fills = any(isinstance(c.func, ast.Attribute) and c.func.attr in ("append", "extend") and unparse(c.func.value) == "self.in_children" for c in calls_in(lp))
            else:
                st = ctx.m.enclosing_stmt(lp)
                fills = isinstance(st, ast.Assign) and any(unparse(tg) == "self.in_children" for tg in st.targets)
            if not fills:
                continue
            it = gens[0].iter
            txt = unparse(it)
            full = (isinstance(it, ast.Call) and isinstance(it.func, ast.Attribute) and it.func.attr == "get_children") or ("in_children" in txt and "children" in txt.replace("in_children", ""))
            if isinstance(it, ast.Name):
                ds = [v for _, v in defs_of(ctx, f, it.id) if v is not None]
                full = bool(ds) and all((isinstance(v, ast.Call) and isinstance(v.func, ast.Attribute) and v.func.attr == "get_children") for v in ds)
            out.append((f, lp, full, "members copied from the parent's full member list", f"the inherited members are taken from `{txt}`, which holds only the parent's own components: members the parent itself inherited are lost from the second EXTENDS level on (definition and completion on obj%grandparent_component fail)"))
            # parent resolved first
            src = txt
            if isinstance(it, ast.Name):
                ds = [v for _, v in defs_of(ctx, f, it.id) if v is not None]
                src = unparse(ds[0]) if ds else txt
            parent = src.split(".get_children")[0].split(".children")[0]
            pre = [c for c in calls_in(f.node) if isinstance(c.func, ast.Attribute) and c.func.attr == "resolve_inherit" and unparse(c.func.value) == parent and c.lineno < lp.lineno]
            # ... on every path: the call dominates the copy (not `if parent is in this file: resolve`)
            cfg = ctx.cfg(f)
            dom = cfg.dominators(follow_exc=False)
            ln = next((n_ for n_ in cfg.nodes if n_.kind in ("for", "loophead") and n_.ast is lp), None) if isinstance(lp, ast.For) else cfg.node_of(ctx.m.enclosing_stmt(lp))
            always = [c for c in pre if cfg.node_of(c) is not None and ln is not None and cfg.node_of(c).id in dom.get(ln.id, set())]
            msg = f"`{parent}.resolve_inherit(...)` is not called before the copy" if not pre else f"`{parent}.resolve_inherit(...)` is called on some paths only (under a condition)"
            out.append((f, lp, bool(always), "parent's inheritance resolved before its members are copied", msg + ": whether grandparent members arrive depends on the order in which types (files) are resolved"))
    if not out:
        raise AnalysisError("no code filling Type.in_children found")
    return out


# ------------------------------------------------------- small semantic helpers
def slice_attrs(ctx, f, e, at, depth=0, seen=None, nodes=None):
    """Attribute names read in the backward slice of expression `e` evaluated at
    statement `at`: through every reaching definition of the locals it mentions
    and through the tests that decide which definition runs (control dependence
    inside the function).  Robust to naming a condition, splitting it over an
    if/else, or routing it through an inlined helper."""
    seen = seen if seen is not None else set()
    out = {x.attr for x in ast.walk(e) if isinstance(x, ast.Attribute)}
    if nodes is not None:
        nodes.extend(x for x in ast.walk(e) if isinstance(x, ast.Attribute))
    if depth > 6:
        return out
    for x in ast.walk(e):
        if not (isinstance(x, ast.Name) and isinstance(x.ctx, ast.Load)):
            continue
        for d in reaching_def_nodes(ctx, f, at, x.id):
            if d == "param" or id(d) in seen:
                continue
            seen.add(id(d))
            val = getattr(d, "value", None)
            if isinstance(d, ast.For):
                val = d.iter
            if val is not None:
                out |= slice_attrs(ctx, f, val, d, depth + 1, seen, nodes)
            # control dependence: tests of the ifs that enclose the definition but not the use
            anc_at = set()
            p = at
            while p is not None:
                anc_at.add(id(p))
                p = ctx.m.parent.get(p)
            p = ctx.m.parent.get(d)
            while p is not None and id(p) not in anc_at:
                if isinstance(p, (ast.If, ast.While)):
                    out |= slice_attrs(ctx, f, p.test, p, depth + 1, seen, nodes)
                p = ctx.m.parent.get(p)
    return out


def bool_models(expr, atom_of):
    """Truth-table view of a test expression.  `atom_of(sub)` returns (key, positive)
    for sub-expressions it understands; every other leaf becomes a free atom keyed
    by its text.  Returns (sorted atom keys, eval(assignment dict) -> bool)."""
    atoms = set()

    def build(e):
        if isinstance(e, ast.BoolOp):
            parts = [build(v) for v in e.values]
            if isinstance(e.op, ast.And):
                return lambda a: all(p(a) for p in parts)
            return lambda a: any(p(a) for p in parts)
        if isinstance(e, ast.UnaryOp) and isinstance(e.op, ast.Not):
            inner = build(e.operand)
            return lambda a: not inner(a)
        r = atom_of(e)
        if r is not None:
            k, pos = r
            atoms.add(k)
            return (lambda a: a[k]) if pos else (lambda a: not a[k])
        if isinstance(e, ast.Constant):
            v = bool(e.value)
            return lambda a: v
        k = "?" + ast.unparse(e)
        atoms.add(k)
        return lambda a: a[k]

    fn = build(expr)
    return sorted(atoms), fn


def cond_implies(expr, polarity, goal, atom_of):
    """Does `expr == polarity` imply goal(assignment) for every assignment of the atoms?"""
    import itertools

    atoms, fn = bool_models(expr, atom_of)
    if len(atoms) > 12:
        return False
    for vals in itertools.product((False, True), repeat=len(atoms)):
        a = dict(zip(atoms, vals))
        if fn(a) == polarity and not goal(a):
            return False
    return True


def emptiness_atom(e, path_pred):
    """(key 'empty:<path>', positive) for len(X)==0 / not X / len(X)>0 / X ... where
    path_pred(text of X) holds"""
    def is_len(x):
        return isinstance(x, ast.Call) and isinstance(x.func, ast.Name) and x.func.id == "len" and len(x.args) == 1 and path_pred(ast.unparse(x.args[0]))

    if isinstance(e, ast.Compare) and len(e.ops) == 1:
        l, op, r = e.left, e.ops[0], e.comparators[0]
        if is_len(r) and isinstance(l, ast.Constant):
            # mirror: 0 < len(x)
            flip = {ast.Lt: ast.Gt, ast.Gt: ast.Lt, ast.LtE: ast.GtE, ast.GtE: ast.LtE, ast.Eq: ast.Eq, ast.NotEq: ast.NotEq}
            l, r, op = r, l, flip[type(op)]()
        if is_len(l) and isinstance(r, ast.Constant) and isinstance(r.value, int):
            k = "empty:" + ast.unparse(l.args[0])
            n = r.value
            if isinstance(op, ast.Eq) and n == 0 or isinstance(op, ast.Lt) and n == 1 or isinstance(op, ast.LtE) and n == 0:
                return k, True
            if isinstance(op, ast.Gt) and n == 0 or isinstance(op, ast.GtE) and n == 1 or isinstance(op, ast.NotEq) and n == 0:
                return k, False
        return None
    if is_len(e):
        return "empty:" + ast.unparse(e.args[0]), False
    if isinstance(e, (ast.Name, ast.Attribute)) and path_pred(ast.unparse(e)):
        return "empty:" + ast.unparse(e), False
    if isinstance(e, ast.Call) and isinstance(e.func, ast.Name) and e.func.id == "bool" and len(e.args) == 1 and path_pred(ast.unparse(e.args[0])):
        return "empty:" + ast.unparse(e.args[0]), False
    return None


def membership_atom(e, coll_pred):
    """(key 'in:<elem>:<coll>', positive) for `x in C` / `x not in C` with coll_pred(text of C)"""
    if isinstance(e, ast.Compare) and len(e.ops) == 1 and isinstance(e.ops[0], (ast.In, ast.NotIn)) and coll_pred(ast.unparse(e.comparators[0])):
        return "in:" + ast.unparse(e.comparators[0]), isinstance(e.ops[0], ast.In)
    return None


def may_return_none(ctx, g):
    """[(how, line)] for the ways function g can hand back None although it also returns
    values: an explicit `return None` / bare `return`, or falling off the end."""
    has_val = any(isinstance(r, ast.Return) and r.value is not None and not (isinstance(r.value, ast.Constant) and r.value.value is None) for r in ctx.m.walk_own(g.node))
    if not has_val:
        return []
    out = []
    for r in ctx.m.walk_own(g.node):
        if isinstance(r, ast.Return) and (r.value is None or isinstance(r.value, ast.Constant) and r.value.value is None):
            out.append(("return None", r))
    cfg = ctx.cfg(g)
    for p, lab in cfg.exit.preds:
        n = cfg.nodes[p]
        if not (n.kind == "stmt" and isinstance(n.ast, (ast.Return, ast.Raise))):
            out.append(("falls off the end", n.ast if n.ast is not None else g.node))
    return out


def immediate_result_uses(ctx, f):
    """[(node, call, how)] where the result of a call to a repository function is taken
    apart on the spot: unpacked into a tuple of targets, subscripted, or an attribute read."""
    out = []
    for n in ctx.m.walk_own(f.node):
        call = how = None
        if isinstance(n, ast.Assign) and isinstance(n.targets[0], (ast.Tuple, ast.List)) and isinstance(n.value, ast.Call):
            call, how = n.value, "unpacked"
        elif isinstance(n, (ast.Subscript, ast.Attribute)) and isinstance(n.value, ast.Call) and isinstance(n.ctx, ast.Load):
            call, how = n.value, "subscripted" if isinstance(n, ast.Subscript) else f"read for .{n.attr}"
        elif isinstance(n, ast.For) and isinstance(n.iter, ast.Call):
            call, how = n.iter, "iterated"
        if call is None:
            continue
        k, tg = ctx.r.resolve_call(f, call)
        if k in ("external", "unknown", "ctor") or not tg:
            continue
        out.append((n, call, how, tg))
    return out


def check_immediate_results(ctx, R, rule, funcs):
    n = 0
    for f in funcs:
        for node, call, how, tg in immediate_result_uses(ctx, f):
            n += 1
            k = key(f, ctx.m.enclosing_stmt(node))[:100]
            bad = None
            for t in sorted(tg):
                mn = may_return_none(ctx, ctx.m.funcs[t])
                if mn:
                    bad = (ctx.m.funcs[t], mn[0])
                    break
            if bad is None:
                R.ok(rule, f.short, k, loc(f, node), f"result {how}: no callee returns None")
            elif absorbs(ctx, node, "TypeError") and absorbs(ctx, node, "AttributeError"):
                R.ok(rule, f.short, k, loc(f, node), "TypeError/AttributeError absorbed")
            else:
                g, (why, at) = bad
                R.violation(rule, f.short, k, loc(f, node), f"the result of {g.short} is {how} here, but {g.short} can hand back None ({why}, line {getattr(at, 'lineno', '?')}): TypeError/AttributeError for the inputs that take that path")
    return n
