"""C15 — the start-up index does not depend on workers, enumeration order or
hash seed (DESIGN.md 3/C15): the phase structure that makes it so."""
from __future__ import annotations

import ast

from sa.model import AnalysisError, access_path, unparse

from .shared import calls_in, dispatch_table, key, loc, server_class

CROSS_FILE = {"resolve_includes", "resolve_links", "find_in_scope", "resolve_link", "resolve_inherit", "get_use_tree", "climb_type_tree"}


def pool_site(ctx):
    """(function, submit call, worker func) of the start-up indexing pool"""
    sc = server_class(ctx)
    for q in sc.methods.values():
        f = ctx.m.funcs[q]
        for c in calls_in(f.node):
            if isinstance(c.func, ast.Attribute) and c.func.attr in ("apply_async", "submit", "map", "imap", "starmap", "imap_unordered", "map_async") and c.args:
                tg = ctx.r.func_value_targets(f, c.args[0])
                if tg:
                    return f, c, ctx.m.funcs[next(iter(tg))]
    raise AnalysisError("worker pool submission (apply_async of a repo function) not found")


def r1(ctx, R):
    R.rule("C15.R1", "pool workers share nothing: no self, transitive writes only to fresh objects and the per-process keyword-order global; the result is returned", floor=3, confirmed=4)
    f, sub, worker = pool_site(ctx)
    is_static = any(isinstance(d, ast.Name) and d.id == "staticmethod" for d in worker.node.decorator_list) or not worker.cls
    if is_static:
        R.ok("C15.R1", worker.short, "worker takes no server instance", loc(worker, worker.node))
    else:
        R.violation("C15.R1", worker.short, "worker takes no server instance", loc(worker, worker.node), "the pool worker is a bound method: the whole server object is pickled into every task and writes to it are lost / diverge per process")
    summ = ctx.e.summaries()
    ws = summ.get(worker.qual, {})
    bad = []
    for k, w in sorted(ws.items()):
        root, path, kind = k
        if root == "unknown":
            continue  # fresh per-statement records (dataclasses returned by the readers)
        if root.startswith("global:"):
            g = ctx.m.funcs[w.func]
            # accepted: a module global set from the task's own argument (same value in every task)
            val = getattr(w.node, "value", None)
            if isinstance(val, ast.Name) and val.id in g.params:
                R.ok("C15.R1", worker.short, f"{root} set in {g.short}", loc(g, w.node), "per-process global written with the task's own argument")
                continue
            bad.append((root, path, w))
        elif root.startswith("param:"):
            bad.append((root, path, w))
        elif root == "self":
            bad.append((root, path, w))
    for root, path, w in bad:
        g = ctx.m.funcs[w.func]
        R.violation("C15.R1", g.short, key(g, ctx.m.enclosing_stmt(w.node) if not isinstance(w.node, ast.stmt) else w.node), loc(g, w.node), f"reachable from the pool worker {worker.short} and writes to {root}{('.' + path) if path else ''}: state shared with (or diverging from) the parent process, so the index depends on which worker handled which file")
    if not bad:
        R.ok("C15.R1", worker.short, "transitive writes", loc(worker, worker.node), f"{len(ws)} summarised writes, none to shared state")
    # result returned, parent stores it
    rets = [n for n in ctx.m.walk_own(worker.node) if isinstance(n, ast.Return) and n.value is not None]
    if rets:
        R.ok("C15.R1", worker.short, "result returned", loc(worker, rets[-1]))
    else:
        R.violation("C15.R1", worker.short, "result returned", loc(worker, worker.node), "the worker returns nothing: whatever it indexed stays in the worker process")


def _loops_calling(ctx, f, names):
    out = []
    for lp in (n for n in ctx.m.walk_own(f.node) if isinstance(n, ast.For)):
        for c in calls_in(lp):
            if isinstance(c.func, ast.Attribute) and c.func.attr in names:
                out.append((lp, c))
                break
    return out


def _over_all_files(lp, call=None):
    """the loop runs over the whole workspace table and (when `call` is given) the phase call is
    not under a condition inside the loop body - `if path != changed: ...` skips a file"""
    it = lp.iter
    whole = isinstance(it, ast.Call) and isinstance(it.func, ast.Attribute) and it.func.attr in ("items", "values") and access_path(it.func.value) and access_path(it.func.value).endswith("workspace")
    if not whole or call is None:
        return bool(whole)

    def path_to(node, target):
        if node is target:
            return [node]
        for ch in ast.iter_child_nodes(node):
            p = path_to(ch, target)
            if p:
                return [node] + p
        return None

    for st in lp.body:
        p = path_to(st, call)
        if p:
            return not any(isinstance(x, (ast.If, ast.IfExp, ast.Try, ast.While, ast.BoolOp)) for x in p[:-1]) and not any(isinstance(x, (ast.Continue, ast.Break)) for b in lp.body for x in ast.walk(b))
    return False


def r2(ctx, R):
    R.rule("C15.R2", "start-up: wait for all workers, merge without resolving, then includes for all files, bump the link version, then links for all files", floor=5, confirmed=6)
    f, sub, worker = pool_site(ctx)
    cfg = ctx.cfg(f)
    dom = cfg.dominators(follow_exc=False)

    def node(n):
        return cfg.node_of(n)

    gets = [c for c in calls_in(f.node) if isinstance(c.func, ast.Attribute) and c.func.attr == "get" and not c.args and ctx.r.expr_builtin(f, c.func.value) is None and not ctx.r.expr_classes(f, c.func.value)]
    joins = [c for c in calls_in(f.node) if isinstance(c.func, ast.Attribute) and c.func.attr == "join" and not c.args]
    closes = [c for c in calls_in(f.node) if isinstance(c.func, ast.Attribute) and c.func.attr in ("close",) and not c.args]
    with_pool = any(isinstance(n, ast.With) and any("Pool" in unparse(i.context_expr) for i in n.items) for n in ctx.m.walk_own(f.node))
    if not gets:
        R.undecided("C15.R2", f.short, "result collection", loc(f, f.node), "no result.get()")
    else:
        g0 = gets[0]
        gn = node(g0)
        okj = any(node(j) is not None and gn is not None and node(j).id in dom.get(gn.id, set()) for j in joins)
        if okj:
            R.ok("C15.R2", f.short, "pool.join() before the first result.get()", loc(f, g0))
        else:
            R.violation("C15.R2", f.short, "pool.join() before the first result.get()", loc(f, g0), "results are merged while workers are still running: merge order follows completion order")
    # merge loop: the loop holding result.get(); no cross-file resolution in it
    merge = None
    for lp in (n for n in ctx.m.walk_own(f.node) if isinstance(n, ast.For)):
        if any(c in gets for c in calls_in(lp)):
            merge = lp
    if merge is None:
        R.undecided("C15.R2", f.short, "merge loop", loc(f, f.node), "no loop around result.get()")
    else:
        bad = [c for c in calls_in(merge) if (isinstance(c.func, ast.Attribute) and c.func.attr in CROSS_FILE) or (isinstance(c.func, ast.Name) and c.func.id in CROSS_FILE)]
        if bad:
            R.violation("C15.R2", f.short, key(f, ctx.m.enclosing_stmt(bad[0])), loc(f, bad[0]), f"{unparse(bad[0].func)} is called while files are still being merged: what it finds depends on which files were merged before (file enumeration / hash order)")
        else:
            R.ok("C15.R2", f.short, "merge loop resolves nothing across files", loc(f, merge))
    inc = [(lp, c) for lp, c in _loops_calling(ctx, f, {"resolve_includes"}) if lp is not merge]
    lnk = [(lp, c) for lp, c in _loops_calling(ctx, f, {"resolve_links"}) if lp is not merge]
    if not inc or not lnk:
        R.violation("C15.R2", f.short, "include and link phases", loc(f, f.node), "start-up lacks a resolve_includes loop and/or a resolve_links loop over the workspace")
        return
    (ilp, ic), (llp, lc) = inc[0], lnk[0]
    for nm, lp, pc in (("resolve_includes", ilp, ic), ("resolve_links", llp, lc)):
        if _over_all_files(lp, pc):
            R.ok("C15.R2", f.short, f"{nm} over every workspace file", loc(f, lp))
        else:
            R.violation("C15.R2", f.short, f"{nm} over every workspace file", loc(f, lp), f"{nm} does not run over all files of the workspace ({unparse(lp.iter)})")
    order_ok = merge is not None and merge.lineno < ilp.lineno < llp.lineno
    if order_ok:
        R.ok("C15.R2", f.short, "merge < includes < links", loc(f, ilp))
    else:
        R.violation("C15.R2", f.short, "merge < includes < links", loc(f, ilp), "links are resolved before all includes are in place (or before the merge has finished)")
    bumps = [st for st in ctx.m.walk_own(f.node) if isinstance(st, (ast.Assign, ast.AugAssign)) and "link_version" in unparse(st.targets[0] if isinstance(st, ast.Assign) else st.target)]
    if any(ilp.lineno < b.lineno < llp.lineno or (merge is not None and merge.lineno < b.lineno < llp.lineno) for b in bumps):
        R.ok("C15.R2", f.short, "link version bumped before linking", loc(f, bumps[0]))
    else:
        R.violation("C15.R2", f.short, "link version bumped before linking", loc(f, llp), "the link/inherit generation is not advanced before re-linking: types already stamped with this generation are skipped")


def r3(ctx, R):
    R.rule("C15.R3", "opening / saving a file re-runs the closing phases over the whole workspace (includes, version bump, links)", floor=3, confirmed=4)
    for q in dispatch_table(ctx).get("textDocument/didSave", ()):
        f = ctx.m.funcs[q]
        inc = _loops_calling(ctx, f, {"resolve_includes"})
        lnk = _loops_calling(ctx, f, {"resolve_links"})
        if not lnk:
            R.violation("C15.R3", f.short, "global re-link", loc(f, f.node), "saving/opening a file does not re-link the workspace: links into the new version of the file are missing, links into the old one survive")
            continue
        llp, lc = lnk[0]
        if _over_all_files(llp, lc):
            R.ok("C15.R3", f.short, "resolve_links over every workspace file", loc(f, llp))
        else:
            R.violation("C15.R3", f.short, "resolve_links over every workspace file", loc(f, llp), (f"only {unparse(llp.iter)} is re-linked after a file changed" if not _over_all_files(llp) else "the re-link call is conditional inside the loop, so some files (e.g. the saved one) are skipped") + ": links that depend on what the include phase just grafted, or on the other files' new objects, are missing - the index differs from a fresh start")
        if inc and _over_all_files(inc[0][0], inc[0][1]) and inc[0][0].lineno < llp.lineno:
            R.ok("C15.R3", f.short, "includes of every file refreshed before linking", loc(f, inc[0][0]))
        else:
            R.violation("C15.R3", f.short, "includes of every file refreshed before linking", loc(f, llp), "INCLUDE statements pointing at the changed file are not refreshed for all files before links are resolved")
        bumps = [st for st in ctx.m.walk_own(f.node) if isinstance(st, (ast.Assign, ast.AugAssign)) and "link_version" in unparse(st.targets[0] if isinstance(st, ast.Assign) else st.target)]
        if any(b.lineno < llp.lineno for b in bumps):
            R.ok("C15.R3", f.short, "link version bumped before re-linking", loc(f, bumps[0]))
        else:
            R.violation("C15.R3", f.short, "link version bumped before re-linking", loc(f, llp), "the link generation is not advanced: inheritance already stamped is not recomputed")
        # the open path uses the same routine
        opens = dispatch_table(ctx).get("textDocument/didOpen", set())
        reach = ctx.r.reachable(opens, by_name=False)
        if q in reach:
            R.ok("C15.R3", f.short, "didOpen goes through the same routine", loc(f, f.node))
        else:
            R.violation("C15.R3", f.short, "didOpen goes through the same routine", loc(f, f.node), "opening a file does not run the re-link routine")


def r4(ctx, R):
    R.rule("C15.R4", "both indexing paths (pool worker, in-process update) construct and parse a file alike", floor=2, confirmed=3)
    f, sub, worker = pool_site(ctx)
    sc = server_class(ctx)
    other = None
    for q in sc.methods.values():
        g = ctx.m.funcs[q]
        if g is worker:
            continue
        if any(isinstance(c.func, ast.Attribute) and c.func.attr == "parse" for c in calls_in(g.node)) and any(isinstance(c.func, ast.Name) and c.func.id == "FortranFile" for c in calls_in(g.node)):
            other = g
    if other is None:
        R.undecided("C15.R4", worker.short, "sibling", loc(worker, worker.node), "in-process indexing routine not found")
        return

    def shape(g):
        ctor = [c for c in calls_in(g.node) if isinstance(c.func, ast.Name) and c.func.id == "FortranFile"]
        parse = [c for c in calls_in(g.node) if isinstance(c.func, ast.Attribute) and c.func.attr == "parse"]
        errs = sorted({n.value for n in ast.walk(g.node) if isinstance(n, ast.Constant) and isinstance(n.value, str) and "parsing" in n.value.lower() and "error" in n.value.lower() and "while" not in n.value.lower()})
        return ctor, parse, errs

    c1, p1, e1 = shape(worker)
    c2, p2, e2 = shape(other)
    # constructor: same number of arguments, second one is the pp_suffixes option on both
    a1 = [unparse(a).split(".")[-1] for a in c1[0].args] if c1 else []
    a2 = [unparse(a).split(".")[-1] for a in c2[0].args] if c2 else []
    if len(a1) == len(a2) and a1[1:] == a2[1:]:
        R.ok("C15.R4", other.short, "FortranFile(...) arguments agree", loc(other, c2[0]), f"{a1} / {a2}")
    else:
        R.violation("C15.R4", other.short, "FortranFile(...) arguments agree", loc(other, c2[0]) if c2 else loc(other, other.node), f"a file indexed at start-up is constructed with {a1}, the same file opened later with {a2}: preprocessing is decided differently")
    k1 = sorted(kw.arg for kw in p1[0].keywords) if p1 else []
    k2 = sorted(kw.arg for kw in p2[0].keywords) if p2 else []
    v1 = {kw.arg: unparse(kw.value).split(".")[-1] for kw in p1[0].keywords} if p1 else {}
    v2 = {kw.arg: unparse(kw.value).split(".")[-1] for kw in p2[0].keywords} if p2 else {}
    if k1 == k2 and v1 == v2:
        R.ok("C15.R4", other.short, "parse(...) keywords agree", loc(other, p2[0]), f"{v1}")
    else:
        R.violation("C15.R4", other.short, "parse(...) keywords agree", loc(other, p2[0]) if p2 else loc(other, other.node), f"start-up parses with {v1}, the in-process update with {v2}")
    if e1 == e2 and e1:
        R.ok("C15.R4", other.short, "same failure mapping", loc(other, other.node), f"{e1}")
    else:
        R.observe("C15.R4", other.short, "failure mapping", loc(other, other.node), f"{e1} vs {e2}")


def r5(ctx, R):
    R.rule("C15.R5", "a resolver forces what it reads: a derived type resolves its parent's inheritance (whatever file the parent is in) on every path before it copies the parent's members, so the member list does not depend on which file was linked first", floor=1, confirmed=1)
    from .shared import inherited_member_sites

    for f, node, ok, what, why in inherited_member_sites(ctx):
        if "resolved before" not in what:
            continue
        if ok:
            R.ok("C15.R5", f.short, what, loc(f, node))
        else:
            R.violation("C15.R5", f.short, what, loc(f, node), why)


def r6(ctx, R):
    R.rule("C15.R6", "inside a resolver an object is resolved before it is read: a call that hands object X to a method reading fields which X.resolve_*() fills comes after (is dominated by) that resolve call - otherwise what is copied depends on whether another file's link pass already ran", floor=1, confirmed=1)
    summ = ctx.e.summaries()
    fobj = ctx.m.cname.get("FortranObj")
    cone = ctx.m.cone(fobj) if fobj else set()
    by_name = {}
    for cq in cone:
        for mn, q in ctx.m.classes[cq].methods.items():
            if mn.startswith("resolve_"):
                by_name.setdefault(mn, set()).add(q)

    def fields_written(mn):
        out = set()
        for q in by_name.get(mn, ()):
            for (root, path, kind) in summ.get(q, {}):
                if root == "self":
                    out.add(path[0] if isinstance(path, tuple) and path else path)
        return out

    n = 0
    for cq in sorted(cone):
        for mn, q in sorted(ctx.m.classes[cq].methods.items()):
            if not mn.startswith("resolve_"):
                continue
            f = ctx.m.funcs[q]
            res_calls = {}
            for c in calls_in(f.node):
                if ctx.m.enclosing_func(c) is f and isinstance(c.func, ast.Attribute) and c.func.attr.startswith("resolve_") and isinstance(c.func.value, ast.Name) and c.func.value.id != f.params[0]:
                    res_calls.setdefault(c.func.value.id, []).append(c)
            if not res_calls:
                continue
            cfg = ctx.cfg(f)
            dom = cfg.dominators(follow_exc=False)
            for c in calls_in(f.node):
                if ctx.m.enclosing_func(c) is not f or (isinstance(c.func, ast.Attribute) and c.func.attr.startswith("resolve_")):
                    continue
                for i, a in enumerate(c.args):
                    if not (isinstance(a, ast.Name) and a.id in res_calls):
                        continue
                    # fields of that parameter the callee reads
                    reads = set()
                    for t in ctx.r.resolve_call(f, c)[1]:
                        g = ctx.m.funcs.get(t)
                        if g is None:
                            continue
                        ps = g.params[1:] if g.cls else g.params
                        if i >= len(ps):
                            continue
                        pn = ps[i]
                        reads |= {x.attr for x in ctx.m.walk_own(g.node) if isinstance(x, ast.Attribute) and isinstance(x.ctx, ast.Load) and isinstance(x.value, ast.Name) and x.value.id == pn}
                    for rc in res_calls[a.id]:
                        common = reads & fields_written(rc.func.attr)
                        if not common:
                            continue
                        n += 1
                        cn, rn = cfg.node_of(c), cfg.node_of(rc)
                        k = f"{unparse(rc)[:40]} before {unparse(c)[:40]}"
                        if cn is not None and rn is not None and rn.id in dom.get(cn.id, set()) and rn.id != cn.id:
                            R.ok("C15.R6", f.short, k, loc(f, c), f"reads {sorted(common)} after they are resolved")
                        else:
                            R.violation("C15.R6", f.short, k, loc(f, c), f"`{unparse(c)[:50]}` reads {sorted(common)} of `{a.id}`, which `{unparse(rc)[:40]}` fills, but is not preceded by it on every path: if the file that declares `{a.id}` has not been linked yet the copy is taken from an unresolved object, and the result depends on the order in which files are linked")
    if n == 0:
        R.undecided("C15.R6", "resolvers", "resolve-then-read pairs", "fortls:0", "no resolver hands an object it resolves to a reader of the resolved fields")


# ------------------------------------------------------------------- R7
def _global_setters(ctx):
    """{qual: (global name, param index)} of module-level functions `def f(x): global G; G = x`"""
    out = {}
    for g in ctx.m.funcs.values():
        if g.cls or "." in g.qual.split(":", 1)[-1]:
            continue
        gl = {n for st in ctx.m.walk_own(g.node) if isinstance(st, ast.Global) for n in st.names}
        for st in ctx.m.walk_own(g.node):
            if isinstance(st, ast.Assign) and len(st.targets) == 1 and isinstance(st.targets[0], ast.Name) and st.targets[0].id in gl and isinstance(st.value, ast.Name) and st.value.id in g.params:
                out[g.qual] = (st.targets[0].id, g.params.index(st.value.id))
    return out


def _events(ctx, f, setters, attr, depth=0, cond=(), seen=()):
    """ordered events of one run through f: ('set', setter qual, arg expr, func, node, conditional),
    ('write', attr, func, node, conditional); calls to methods of the same class are followed"""
    out = []
    if depth > 4 or f.qual in seen:
        return out

    def calls_ordered(node):
        cs = [c for c in ast.walk(node) if isinstance(c, ast.Call)]
        return sorted(cs, key=lambda c: (getattr(c, "end_lineno", c.lineno), getattr(c, "end_col_offset", 0)))

    def visit(stmts, cond):
        for st in stmts:
            if isinstance(st, (ast.FunctionDef, ast.AsyncFunctionDef, ast.ClassDef)):
                continue
            if isinstance(st, (ast.If, ast.While)):
                heads = [st.test]
            elif isinstance(st, (ast.For,)):
                heads = [st.iter]
            elif isinstance(st, ast.With):
                heads = [i.context_expr for i in st.items]
            elif isinstance(st, ast.Try):
                heads = []
            else:
                heads = [st]
            for h in heads:
                for c in calls_ordered(h):
                    kind, tg = ctx.r.resolve_call(f, c)
                    tg = [q for q in tg if q in ctx.m.funcs]
                    hit = [q for q in tg if q in setters]
                    if hit and kind != "by_name":
                        a = c.args[setters[hit[0]][1]] if len(c.args) > setters[hit[0]][1] else None
                        out.append(("set", hit[0], a, f, c, cond))
                    elif len(tg) == 1 and kind != "by_name" and ctx.m.funcs[tg[0]].cls == f.cls and f.cls and isinstance(c.func, ast.Attribute) and unparse(c.func.value) == "self":
                        out.extend(_events(ctx, ctx.m.funcs[tg[0]], setters, attr, depth + 1, cond, seen + (f.qual,)))
            if isinstance(st, (ast.Assign, ast.AnnAssign, ast.AugAssign)):
                tgts = st.targets if isinstance(st, ast.Assign) else [st.target]
                for t in tgts:
                    for x in ast.walk(t):
                        if isinstance(x, ast.Attribute) and x.attr == attr and unparse(x.value) == "self":
                            out.append(("write", attr, f, st, cond))
            # reflective option loading: setattr(self, key, value)
            if isinstance(st, ast.Expr) and isinstance(st.value, ast.Call) and isinstance(st.value.func, ast.Name) and st.value.func.id == "setattr" and st.value.args and unparse(st.value.args[0]) == "self":
                k = st.value.args[1] if len(st.value.args) > 1 else None
                if not (isinstance(k, ast.Constant) and k.value != attr):
                    out.append(("write", attr, f, st, cond))
            if isinstance(st, ast.If):
                visit(st.body, tuple(cond) + (unparse(st.test),))
                visit(st.orelse, tuple(cond) + (f"not ({unparse(st.test)})",))
            elif isinstance(st, (ast.For, ast.While)):
                visit(st.body, tuple(cond) + ("<loop>",))
                visit(st.orelse, tuple(cond) + ("<loop>",))
            elif isinstance(st, ast.With):
                visit(st.body, cond)
            elif isinstance(st, ast.Try):
                visit(st.body, cond)
                for h in st.handlers:
                    visit(h.body, tuple(cond) + ("<except>",))
                visit(st.orelse, cond)
                visit(st.finalbody, cond)

    visit(f.node.body, cond)
    return out


def r7(ctx, R, rule="C15.R7"):
    R.rule(rule, "a process-wide parse setting that pool workers receive as an explicit argument holds the same option value in the server process once initialisation is over (files opened later are parsed in-process)", floor=1, confirmed=1)
    f, sub, worker = pool_site(ctx)
    setters = _global_setters(ctx)
    sc = server_class(ctx)
    # which worker parameter feeds which setter, and which server option is submitted for it
    args_tuple = next((kw.value for kw in sub.keywords if kw.arg == "args"), sub.args[1] if len(sub.args) > 1 else None)
    wparams = worker.params[1:] if (worker.cls and worker.params and worker.params[0] in ("self", "cls")) else list(worker.params)
    if isinstance(args_tuple, (ast.Tuple, ast.List)) and any(isinstance(e, ast.Starred) for e in args_tuple.elts):
        # args=(path, *common) with `common` bound once to a display: the flattened tuple
        from .shared import defs_of

        flat = []
        for e in args_tuple.elts:
            if isinstance(e, ast.Starred) and isinstance(e.value, ast.Name):
                ds = [v for _, v in defs_of(ctx, f, e.value.id)]
                if len(ds) == 1 and isinstance(ds[0], (ast.Tuple, ast.List)) and not any(isinstance(x, ast.Starred) for x in ds[0].elts):
                    flat.extend(ds[0].elts)
                    continue
                flat = None
                break
            flat.append(e)
        if flat is not None:
            args_tuple = ast.Tuple(elts=flat, ctx=ast.Load())
    n = 0
    for c in calls_in(worker.node):
        kind, tg = ctx.r.resolve_call(worker, c)
        hit = [q for q in tg if q in setters]
        if not hit or not c.args:
            continue
        sq = hit[0]
        a = c.args[setters[sq][1]] if len(c.args) > setters[sq][1] else None
        if not (isinstance(a, ast.Name) and a.id in wparams and isinstance(args_tuple, (ast.Tuple, ast.List)) and len(args_tuple.elts) > wparams.index(a.id)):
            R.undecided(rule, worker.short, key(worker, ctx.m.enclosing_stmt(c)), loc(worker, c), "argument of the setter is not a task argument")
            continue
        opt = args_tuple.elts[wparams.index(a.id)]
        if not (isinstance(opt, ast.Attribute) and unparse(opt.value) == "self"):
            R.undecided(rule, worker.short, key(worker, ctx.m.enclosing_stmt(c)), loc(f, opt), f"submitted value `{unparse(opt)}` is not a server option")
            continue
        attr = opt.attr
        n += 1
        init = ctx.m.funcs.get(ctx.m.method(sc.qual, "__init__") or "")
        hs = dispatch_table(ctx).get("initialize") or set()
        if init is None or len(hs) != 1:
            R.undecided(rule, worker.short, f"{setters[sq][0]} <- self.{attr}", loc(worker, c), "constructor or initialize handler not identified")
            continue
        handler = ctx.m.funcs[next(iter(hs))]
        ev = _events(ctx, init, setters, attr) + _events(ctx, handler, setters, attr)
        ev = [e for e in ev if e[0] == "write" or e[1] == sq]
        # value of the global after the sequence: index of the option write it reflects
        version = 0  # number of writes to self.<attr> seen so far
        held = None  # version of self.<attr> the global holds; "const" for other values
        held_at = None
        prev_ret = {}  # local name bound to the setter's return value -> version held before that call
        undec = None
        # what the global may hold when a conditional setter call is skipped: values it held before
        # (a conditional call adds its value to the possibilities, an unconditional one replaces them)
        base = {"<module default>"}
        cond_vals = {}
        maybe = set(base)
        skipped = None  # (func, call, conditions) of the last conditional call that installs the current value
        for e in ev:
            if e[0] == "write":
                version += 1
                continue
            _, _, arg, g, call, cond = e
            before = held
            st = ctx.m.enclosing_stmt(call)
            if isinstance(st, ast.Assign) and st.value is call and len(st.targets) == 1 and isinstance(st.targets[0], ast.Name):
                prev_ret[(g.qual, st.targets[0].id)] = before
            if isinstance(arg, ast.Attribute) and unparse(arg) == f"self.{attr}":
                held = version
            elif isinstance(arg, ast.Name) and (g.qual, arg.id) in prev_ret:
                held = prev_ret[(g.qual, arg.id)]
            elif isinstance(arg, ast.Constant):
                held = ("const", arg.value)
            else:
                held = None
                undec = (g, call, f"argument `{unparse(arg) if arg is not None else ''}` not derived")
            if cond:
                # calls under the same condition run together: the later one replaces the earlier one's value
                cond_vals[tuple(cond)] = held
                maybe = base | set(cond_vals.values())
                skipped = (g, call, tuple(cond))
            else:
                base = {held}
                cond_vals = {}
                maybe = set(base)
                skipped = None
            held_at = (g, call)
        kk = f"{setters[sq][0]} <- self.{attr}"
        stale = [h for h in maybe if h != version]
        if held_at is None:
            R.violation(rule, handler.short, kk, loc(handler, handler.node), f"workers parse with self.{attr} (passed explicitly), but the server process never sets `{setters[sq][0]}`: files opened later are parsed with the module default")
        elif held == version and stale and skipped is not None:
            # the call that installs the current value can be skipped
            conds = [c_ for c_ in skipped[2]]
            if undec is None and not any(attr in c_ for c_ in conds) and not any(c_.startswith("<") for c_ in conds):
                what = sorted(("the value self.%s had after %d of its %d writes" % (attr, h, version)) if isinstance(h, int) else ("the constant %r" % (h[1],) if isinstance(h, tuple) else str(h)) for h in stale if h is not None)
                R.violation(rule, skipped[0].short, kk, loc(skipped[0], skipped[1]), f"the call that hands the current self.{attr} to `{setters[sq][0]}` only runs under `{' and '.join(conds)}`; otherwise the process-wide setting keeps {' / '.join(what) or 'an earlier value'} while workers receive the current option: with the option set in the configuration file, files indexed at start-up and files parsed later in the server process use different settings")
            else:
                R.undecided(rule, skipped[0].short, kk, loc(skipped[0], skipped[1]), "the setter is called conditionally")
        elif undec is not None and held != version:
            R.undecided(rule, undec[0].short, kk, loc(undec[0], undec[1]), undec[2])
        elif held == version:
            R.ok(rule, held_at[0].short, kk, loc(held_at[0], held_at[1]), f"last setter call of initialisation passes self.{attr} after its last write ({version} writes: constructor, configuration file)")
        elif isinstance(held, tuple):
            R.violation(rule, held_at[0].short, kk, loc(held_at[0], held_at[1]), f"initialisation leaves `{setters[sq][0]}` at the constant {held[1]!r}; workers parse with self.{attr}: a file indexed at start-up and the same file opened later are parsed with different settings")
        else:
            R.violation(rule, held_at[0].short, kk, loc(held_at[0], held_at[1]), f"after initialisation `{setters[sq][0]}` holds the value self.{attr} had before its last write (the configuration file is read later), while workers receive the current self.{attr}: with the option set in the configuration file, files indexed at start-up and files opened later are parsed with different settings")
    if n == 0:
        R.undecided(rule, worker.short, "process-wide settings", loc(worker, worker.node), "the worker sets no process-wide setting from its arguments")


def r8(ctx, R):
    """Links that one object's resolver installs on *another* object (the submodule
    attaches the implementation to the prototype in the ancestor module) survive
    only if the other object's own resolver leaves that field alone: the two
    resolvers run in the order in which files happen to be linked."""
    from .c20 import _classes_by_type_id

    R.rule("C15.R8", "a link field that a resolver stores on another object is not written by that object's own resolvers (otherwise the result depends on which file is linked first)", floor=1, confirmed=1)
    n = 0
    LF = None
    for f in sorted(ctx.m.funcs.values(), key=lambda g: g.qual):
        if not (f.name.startswith("resolve_") and f.rel.startswith("fortls/parsers/") and f.cls):
            continue
        for st in ctx.m.walk_own(f.node):
            if not isinstance(st, ast.Assign):
                continue
            for t in st.targets:
                if not (isinstance(t, ast.Attribute) and isinstance(t.value, ast.Name) and t.value.id != f.params[0]):
                    continue
                if isinstance(st.value, ast.Constant):
                    continue
                fld = t.attr
                # only objects reached through a *name-resolved link* can belong to another file (the ancestor module of a
                # submodule); what hangs off the resolver's own containers is built and linked with it, in parse order
                if LF is None:
                    from .c20 import LinkFields

                    LF = LinkFields(ctx)
                from .c05 import _slice_values

                sl_attrs = {x.attr for e_ in _slice_values(ctx, f, t.value, st) for x in ast.walk(e_) if isinstance(x, ast.Attribute)}
                if not (sl_attrs & set(LF.link)):
                    R.ok("C15.R8", f.short, key(f, st), loc(f, st), f"`{unparse(t.value)}` hangs off the resolver's own containers ({sorted(sl_attrs)[:3]}): same file, fixed order")
                    n += 1
                    continue
                # the selection by type id is more exact than a declared element type
                ks = _classes_by_type_id(ctx, f, t.value)
                if not ks:
                    ks = ctx.r.expr_classes(f, t.value)
                    ks = {d for k_ in ks for d in ctx.m.cone(k_)} if ks else None
                k = key(f, st)
                unknown = not ks
                if unknown:
                    ks = set(ctx.m.classes)  # any class: decided only if no resolver anywhere writes the field on itself
                n += 1
                bad = None
                for c in sorted(ks):
                    names = {m for q in ctx.m.mro(c) for m in ctx.m.classes[q].methods if m.startswith("resolve_")}
                    for m in sorted(names):
                        q = ctx.m.method(c, m)
                        if not q:
                            continue
                        g = ctx.m.funcs[q]
                        for s2 in ctx.m.walk_own(g.node):
                            if isinstance(s2, (ast.Assign, ast.AnnAssign, ast.AugAssign)):
                                tg2 = s2.targets if isinstance(s2, ast.Assign) else [s2.target]
                                if any(isinstance(x, ast.Attribute) and x.attr == fld and isinstance(x.value, ast.Name) and x.value.id == g.params[0] for x in tg2):
                                    bad = (g, s2, c)
                if bad and unknown:
                    R.undecided("C15.R8", f.short, k, loc(f, st), f"class of `{unparse(t.value)}` not derived, and {bad[0].short} writes `{fld}` on itself")
                elif bad:
                    g, s2, c = bad
                    R.violation("C15.R8", f.short, k, loc(g, s2), f"{f.short} installs `{fld}` on another object ({unparse(t)}), and that object's own resolver {g.short} writes the same field (`{unparse(s2)[:60]}`): which of the two runs last depends on the order in which the two files are linked (directory listing, the file that is opened first), so the link is present under one order and wiped under the other")
                else:
                    R.ok("C15.R8", f.short, k, loc(f, st), f"`{fld}` of {len(ks)} candidate classes is written by no resolver of theirs")
    if n == 0:
        R.undecided("C15.R8", "resolvers", "cross-object link stores", "fortls/parsers", "no resolver stores a link on another object")



def run(ctx, R):
    r1(ctx, R)
    r2(ctx, R)
    r3(ctx, R)
    r4(ctx, R)
    r5(ctx, R)
    r6(ctx, R)
    r7(ctx, R)
    r8(ctx, R)
