"""C17 — indexing never executes or writes anything on behalf of file contents
(DESIGN.md 3/C17): complete syntactic effect inventory + reachability."""
from __future__ import annotations

import ast

from sa.model import AnalysisError, Model, const_str, unparse

from .shared import calls_in, deref, dispatch_table, key, loc, server_class, server_loop

EVAL_BUILTINS = {"eval", "exec", "compile", "__import__", "breakpoint", "input", "execfile"}
EVAL_PREFIX = (
    "importlib.", "runpy.", "code.", "codeop.", "pickle.", "cPickle.", "marshal.", "shelve.", "dill.", "ctypes.",
    "os.system", "os.popen", "os.exec", "os.spawn", "os.posix_spawn", "os.startfile", "subprocess.", "pty.",
    "yaml.load", "yaml.unsafe_load", "yaml.full_load", "builtins.eval", "builtins.exec", "builtins.compile",
    "builtins.__import__", "commands.", "popen2.", "multiprocessing.Process", "jinja2.", "timeit.",
    # configuration-driven object construction: "()" / "class" / "ext://" entries of a logging
    # configuration name arbitrary callables, fileConfig evaluates its args, listen() receives configurations
    "logging.config.", "pydoc.locate", "pydoc.safeimport", "pkgutil.resolve_name", "pkgutil.get_loader", "imp.",
    "zipimport.", "webbrowser.", "os.fork", "os.forkpty", "trace.", "cProfile.run", "profile.run", "pdb.",
)
EVAL_ALLOWED = {"importlib.metadata", "importlib.resources", "pickle.dumps", "pickle.dump", "marshal.dumps"}
WRITE_FUNCS = {
    "os.remove", "os.unlink", "os.rename", "os.replace", "os.mkdir", "os.makedirs", "os.rmdir", "os.removedirs",
    "os.renames", "os.truncate", "os.chmod", "os.chown", "os.link", "os.symlink", "os.utime", "os.mkfifo",
    "os.mknod", "os.write", "os.open", "os.fdopen", "logging.FileHandler", "os.ftruncate",
}
WRITE_PREFIX = ("shutil.", "tempfile.", "logging.handlers.")
PATH_WRITE_METHODS = {"write_text", "write_bytes", "touch", "mkdir", "unlink", "rmdir", "chmod", "symlink_to", "hardlink_to", "rename"}
NET_PREFIX = ("urllib.request.", "socket.", "http.client.", "subprocess.", "ftplib.", "smtplib.", "requests.", "httpx.", "ssl.", "telnetlib.", "xmlrpc.", "asyncio.open_connection", "asyncio.create_subprocess")


def _is_const_arg(ctx, f, e, _depth=0):
    """Constant-folded argument: constants, displays of such, sys.executable."""
    if isinstance(e, ast.Constant):
        return True
    if isinstance(e, (ast.List, ast.Tuple)):
        return all(_is_const_arg(ctx, f, x, _depth + 1) for x in e.elts)
    if isinstance(e, ast.JoinedStr):
        return const_str(e) is not None
    if isinstance(e, (ast.Name, ast.Attribute)):
        d = ctx.m.dotted(f.rel if f else "", e) if f else None
        if d in ("sys.executable", "os.devnull", "subprocess.PIPE", "subprocess.DEVNULL", "subprocess.STDOUT"):
            return True
    if isinstance(e, ast.BinOp) and isinstance(e.op, ast.Add):
        return _is_const_arg(ctx, f, e.left, _depth + 1) and _is_const_arg(ctx, f, e.right, _depth + 1)
    if isinstance(e, ast.Name) and f is not None and e.id not in f.params and _depth < 4:
        # a local that is only ever bound to / extended by constant values
        vals, ok = [], True
        for n in ctx.m.walk_own(f.node):
            if isinstance(n, ast.Assign) and any(isinstance(x, ast.Name) and x.id == e.id and isinstance(x.ctx, ast.Store) for t in n.targets for x in ast.walk(t)):
                if len(n.targets) == 1 and isinstance(n.targets[0], ast.Name):
                    vals.append(n.value)
                else:
                    ok = False
            elif isinstance(n, ast.AugAssign) and isinstance(n.target, ast.Name) and n.target.id == e.id:
                vals.append(n.value)
            elif isinstance(n, (ast.For, ast.comprehension, ast.NamedExpr, ast.withitem, ast.ExceptHandler, ast.Global, ast.Nonlocal)):
                tgt = getattr(n, "target", None) or getattr(n, "optional_vars", None)
                if tgt is not None and any(isinstance(x, ast.Name) and x.id == e.id for x in ast.walk(tgt)):
                    ok = False
                if isinstance(n, (ast.Global, ast.Nonlocal)) and e.id in n.names:
                    ok = False
                if isinstance(n, ast.ExceptHandler) and n.name == e.id:
                    ok = False
            elif isinstance(n, ast.Call) and isinstance(n.func, ast.Attribute) and isinstance(n.func.value, ast.Name) and n.func.value.id == e.id:
                if n.func.attr in ("append", "extend", "insert", "add", "update"):
                    vals.extend(n.args)
                elif n.func.attr not in ("copy", "index", "count"):
                    ok = False
        return ok and bool(vals) and all(_is_const_arg(ctx, f, v, _depth + 1) for v in vals)
    return False


def _open_mode(call, is_method=False):
    """mode argument of open()/Path.open(); returns (mode expr or None)."""
    pos = 0 if is_method else 1
    m = call.args[pos] if len(call.args) > pos else None
    for kw in call.keywords:
        if kw.arg == "mode":
            m = kw.value
    return m


def _writes_mode(m):
    if m is None:
        return False
    if isinstance(m, ast.Constant) and isinstance(m.value, str):
        return any(c in m.value for c in "wax+")
    return True  # non-constant mode counts as a write


class Hit:
    def __init__(self, cat, f, rel, node, what, why):
        self.cat, self.f, self.rel, self.node, self.what, self.why = cat, f, rel, node, what, why


def inventory(ctx, mods=None):
    """Every reference (call or value use) to an execution / write / network
    primitive in the package."""
    m = ctx.m
    hits = []
    for rel, tree in (mods or m.mods).items():
        shadow = set(m.imports.get(rel, {}))
        for n in ast.walk(tree):
            f = m.enclosing_func(n) if mods is None else None
            if isinstance(n, ast.Name) and isinstance(n.ctx, ast.Load) and n.id in EVAL_BUILTINS and n.id not in shadow:
                # locally re-defined names (a def named compile) are not the builtin
                if f is not None and n.id in f.params:
                    continue
                if f"{rel}:{n.id}" in m.funcs:
                    continue
                par = m.parent.get(n) if mods is None else None
                call = par if isinstance(par, ast.Call) and par.func is n else None
                hits.append(Hit("eval", f, rel, call or n, n.id, "dynamic evaluation builtin"))
                continue
            if isinstance(n, (ast.Name, ast.Attribute)) and isinstance(getattr(n, "ctx", None), ast.Load):
                par = m.parent.get(n) if mods is None else None
                if isinstance(par, ast.Attribute) and par.value is n:
                    continue  # inner part of a longer chain
                if mods is None:
                    d = m.dotted(rel, n)
                else:
                    d = _dotted_plain(n, tree)
                if not d or "." not in d and d not in ("open",):
                    if d != "open":
                        continue
                call = par if (mods is None and isinstance(par, ast.Call) and par.func is n) else None
                if mods is not None:
                    call = _call_parent(tree, n)
                if d.startswith(EVAL_PREFIX) and not d.startswith(tuple(EVAL_ALLOWED)):
                    hits.append(Hit("eval", f, rel, call or n, d, "process/code execution primitive"))
                if d.startswith(NET_PREFIX):
                    hits.append(Hit("net", f, rel, call or n, d, "network/process primitive"))
                if d in WRITE_FUNCS or d.startswith(WRITE_PREFIX):
                    hits.append(Hit("write", f, rel, call or n, d, "file-system write primitive"))
                if d in ("open", "io.open", "codecs.open", "builtins.open") and "open" not in shadow:
                    if call is None:
                        hits.append(Hit("write", f, rel, n, d, "open used as a value"))
                    elif _writes_mode(_open_mode(call)):
                        hits.append(Hit("write", f, rel, call, d, "file opened for writing"))
                if d == "logging.basicConfig" and call is not None and any(kw.arg in ("filename", "handlers") for kw in call.keywords):
                    hits.append(Hit("write", f, rel, call, d, "log file"))
            if isinstance(n, ast.Call) and isinstance(n.func, ast.Attribute):
                a = n.func.attr
                if a in PATH_WRITE_METHODS or (a == "open" and _writes_mode(_open_mode(n, True))):
                    if mods is None and f is not None:
                        k, tg = ctx.r.resolve_call(f, n)
                        if k != "external":
                            continue
                        b = ctx.r.expr_builtin(f, n.func.value)
                        if b in ("str", "list", "dict", "set", "match"):
                            continue
                        d = m.dotted(rel, n.func) or ""
                        if d.startswith(("os.", "shutil.", "tempfile.")):
                            continue  # already covered by the dotted rules
                    hits.append(Hit("write", f, rel, n, "." + a, "path write method"))
    return hits


def _dotted_plain(n, tree):
    parts = []
    e = n
    while isinstance(e, ast.Attribute):
        parts.append(e.attr)
        e = e.value
    if isinstance(e, ast.Name):
        parts.append(e.id)
        return ".".join(reversed(parts))
    return None


def _call_parent(tree, n):
    for c in ast.walk(tree):
        if isinstance(c, ast.Call) and c.func is n:
            return c
    return None


def _log_name_leaves(ctx, f, e, depth=0):
    """leaves of the log file name that are neither constants nor the root path"""
    from .shared import reaching_defs

    if depth > 5:
        return [unparse(e)]
    if isinstance(e, ast.Constant):
        return []
    if isinstance(e, ast.Attribute) and unparse(e) in ("self.root_path",):
        return []
    if isinstance(e, ast.Call):
        d = ctx.m.dotted(f.rel, e.func) if isinstance(e.func, (ast.Name, ast.Attribute)) else None
        if d in ("os.path.join", "os.path.abspath", "os.path.normpath", "str"):
            out = []
            for a in e.args:
                out += _log_name_leaves(ctx, f, a, depth + 1)
            return out
        return [unparse(e)]
    if isinstance(e, ast.Name):
        out = []
        vals = [v for v in reaching_defs(ctx, f, e, e.id)] if False else None
        from .shared import defs_of

        ds = [v for _, v in defs_of(ctx, f, e.id)]
        if not ds:
            return [e.id]
        for v in ds:
            if v is None:
                out.append(e.id)
            elif isinstance(v, ast.Call) and any(isinstance(a, ast.Name) and a.id == e.id for a in v.args):
                # fname = os.path.join(root, fname): the other arguments count
                for a in v.args:
                    if not (isinstance(a, ast.Name) and a.id == e.id):
                        out += _log_name_leaves(ctx, f, a, depth + 1)
            else:
                out += _log_name_leaves(ctx, f, v, depth + 1)
        return out
    if isinstance(e, (ast.BinOp, ast.JoinedStr)):
        out = []
        for x in ast.walk(e):
            if isinstance(x, (ast.Name, ast.Attribute)) and not isinstance(ctx.m.parent.get(x), ast.Attribute):
                out += _log_name_leaves(ctx, f, x, depth + 1)
        return out
    return [unparse(e)]


def entry_points(ctx):
    roots = set()
    lf, _, _ = server_loop(ctx)
    roots.add(lf.qual)
    for tgs in dispatch_table(ctx).values():
        roots |= tgs
    # pool workers
    for f in ctx.m.funcs.values():
        for n, k, t in ctx.r.callees(f):
            if k == "funcvalue":
                roots |= t
    return roots


def guarded_by(ctx, f, node, needle):
    """Is `node` dominated by a condition that mentions `needle` (after following
    single-assignment locals), with which polarity?  Returns 'T', 'F' or None."""
    if f is None:
        return None
    F = ctx.facts(f, interproc=False)
    facts = F.at(node)
    if facts is None:
        return None
    for fact in facts:
        if fact[0] == "cond":
            txt = fact[1]
            try:
                e = ast.parse(txt, mode="eval").body
            except SyntaxError:
                continue
            names = {unparse(x) for x in ast.walk(e) if isinstance(x, (ast.Attribute, ast.Name))}
            if any(needle in nm for nm in names):
                return "T" if fact[2] else "F"
            for x in ast.walk(e):
                if isinstance(x, ast.Name):
                    v = deref(ctx, f, x)
                    if v is not x and needle in unparse(v):
                        return "T" if fact[2] else "F"
    return None


CONTROL = '''
import os, subprocess, pickle
def handler(x, p):
    y = eval(x)
    with open(p, "w") as fh:
        fh.write(y)
    os.remove(p)
    subprocess.run(x, shell=True)
    return pickle.loads(x)
'''


def run(ctx, R):
    R.rule("C17.R1", "no dynamic evaluation / process execution with non-constant arguments anywhere in the package", floor=1, confirmed=2)
    R.rule("C17.R2", "no file-system write reachable from the server entry points except the debug log", floor=1, confirmed=2)
    R.rule("C17.R3", "network/process effects only behind the auto-update switch, with constant targets", floor=2, confirmed=3)
    hits = inventory(ctx)
    reach = ctx.r.reachable(entry_points(ctx))
    R.notes.append(f"C17: {len(reach)} functions reachable from {len(entry_points(ctx))} entry points; inventory hits: {len(hits)}")

    def owner_reachable(f):
        cur = f
        while cur is not None:
            if cur.qual in reach:
                return True
            cur = ctx.m.funcs.get(cur.parent) if cur.parent else None
        return False

    for h in hits:
        f = h.f
        where = f.short if f else h.rel
        st = ctx.m.enclosing_stmt(h.node) if isinstance(h.node, ast.AST) else None
        k = key(f, st) if st is not None and f is not None else unparse(h.node)
        l = loc(f or h.rel, h.node)
        call = h.node if isinstance(h.node, ast.Call) else None
        is_debug = h.rel.endswith("debug.py")
        if h.cat == "eval":
            if call is None:
                R.violation("C17.R1", where, k, l, f"{h.what} is used as a value (aliasing hides what is evaluated)")
            else:
                args = list(call.args) + [kw.value for kw in call.keywords if kw.arg not in ("capture_output", "check", "timeout", "text", "encoding")]
                if all(_is_const_arg(ctx, f, a) for a in args) and not any(kw.arg == "shell" and not (isinstance(kw.value, ast.Constant) and kw.value.value is False) for kw in call.keywords):
                    R.ok("C17.R1", where, k, l, f"{h.what} with constant arguments only")
                else:
                    bad = next((a for a in args if not _is_const_arg(ctx, f, a)), None)
                    R.violation("C17.R1", where, k, l, f"{h.what}() is applied to a computed value ({unparse(bad) if bad is not None else 'shell=True'}): text taken from files can be executed")
        elif h.cat == "write":
            if f is None or not owner_reachable(f):
                R.observe("C17.R2", where, k, l, f"{h.what}: {h.why}; not reachable from the server entry points (no caller in the graph)")
                continue
            g = guarded_by(ctx, f, h.node, "debug_log")
            if h.what == "logging.basicConfig" and g == "T":
                fn = next((kw.value for kw in call.keywords if kw.arg == "filename"), None) if call is not None else None
                bad_leaf = _log_name_leaves(ctx, f, fn) if fn is not None else ["no filename"]
                if bad_leaf:
                    R.violation("C17.R2", where, k, l, f"the debug log is opened for writing at a location built from {bad_leaf[0]}: a value from the configuration file (or any other computed text) can make the server truncate an arbitrary file; the log must be a fixed name under the root")
                else:
                    R.ok("C17.R2", where, k, l, "the optional debug log (fixed file name under the root), guarded by the debug_log option")
            else:
                R.violation("C17.R2", where, k, l, f"{h.what}: {h.why}, reachable from the server entry points (indexing/queries must not create, modify or delete files)")
        elif h.cat == "net":
            if f is None or not owner_reachable(f):
                R.observe("C17.R3", where, k, l, f"{h.what}; not reachable from the server entry points")
                continue
            if call is None:
                continue  # attribute chains such as urllib.request.Request handled at their call
            g = guarded_by(ctx, f, h.node, "disable_autoupdate")
            const_target = True
            if h.what.startswith(("urllib.request.", "http.client.", "socket.", "requests.")):
                for a in call.args[:1]:
                    a2 = deref(ctx, f, a)
                    if isinstance(a2, ast.Call):
                        const_target = all(_is_const_arg(ctx, f, x) for x in a2.args)
                    else:
                        const_target = _is_const_arg(ctx, f, a2)
            if g == "F" and const_target:
                R.ok("C17.R3", where, k, l, f"{h.what} behind `if self.disable_autoupdate: return`")
            elif g != "F":
                R.violation("C17.R3", where, k, l, f"{h.what} is reachable without passing the disable_autoupdate switch")
            else:
                R.violation("C17.R3", where, k, l, f"{h.what} is given a computed target")
    # observation-only inventory of reflective attribute writes (R4)
    for f in ctx.m.funcs.values():
        for c in calls_in(f.node):
            if isinstance(c.func, ast.Name) and c.func.id in ("setattr", "delattr") and len(c.args) >= 2 and not isinstance(c.args[1], ast.Constant):
                R.observe("C17.R4", f.short, key(f, ctx.m.enclosing_stmt(c)), loc(f, c), "attribute name computed at run time (argparse dest / config key / __dict__ copy)")
    # positive control: the same inventory must flag the embedded snippet
    tree = ast.parse(CONTROL)
    saved = (ctx.m.imports.get("<control>"),)
    ctx.m.imports["<control>"] = ctx.m._imports("<control>.py", tree)
    chits = inventory(ctx, {"<control>": tree})
    ctx.m.imports.pop("<control>", None)
    cats = {(h.cat, h.what) for h in chits}
    need = {("eval", "eval"), ("write", "open"), ("write", "os.remove"), ("eval", "subprocess.run"), ("eval", "pickle.loads")}
    R.control("C17.R1", need <= cats)
    if not need <= cats:
        R.notes.append(f"control missing: {sorted(need - cats)}")


