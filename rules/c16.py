"""C16 — wire framing is byte-exact in both directions (DESIGN.md 3/C16)."""
from __future__ import annotations

import ast
import re

from sa.model import AnalysisError, access_path, unparse

from .shared import calls_in, connection_class, defs_of, deref, framing_sites, is_call_to, key, loc, single_def

UTF8 = {"utf-8", "utf8", "UTF-8", "UTF8", "utf_8"}


def _is_frame(n):
    if isinstance(n, ast.JoinedStr):
        for a, b in zip(n.values, n.values[1:]):
            if isinstance(a, ast.Constant) and isinstance(a.value, str) and a.value.rstrip(" ").endswith("Content-Length:") and isinstance(b, ast.FormattedValue):
                return True
    return False


def _as_fstring(ctx, f, e, depth=0):
    """The f-string that a %-template / concatenation of text pieces abbreviates
    (values: Constant text and FormattedValue around the *original* expression
    nodes), or None when e is not such a construction."""
    def fv(x):
        return ast.copy_location(ast.FormattedValue(value=x, conversion=-1, format_spec=None), x)

    if isinstance(e, ast.Constant) and isinstance(e.value, str):
        return [e]
    if isinstance(e, ast.JoinedStr):
        return list(e.values)
    if isinstance(e, ast.BinOp) and isinstance(e.op, ast.Add):
        a, b = _as_fstring(ctx, f, e.left, depth + 1), _as_fstring(ctx, f, e.right, depth + 1)
        if a is None and b is None:
            return None
        return (a if a is not None else [fv(e.left)]) + (b if b is not None else [fv(e.right)])
    if isinstance(e, ast.BinOp) and isinstance(e.op, ast.Mod) and isinstance(e.left, ast.Constant) and isinstance(e.left.value, str):
        parts = re.split(r"(%%|%[ds])", e.left.value)
        args = list(e.right.elts) if isinstance(e.right, ast.Tuple) else [e.right]
        if any(p.startswith("%") and p not in ("%%", "%d", "%s") for p in re.findall(r"%.", e.left.value)):
            return None
        out = []
        for p_ in parts:
            if p_ in ("%d", "%s"):
                if not args:
                    return None
                out.append(fv(args.pop(0)))
            elif p_ == "%%":
                out.append(ast.copy_location(ast.Constant(value="%"), e.left))
            elif p_:
                out.append(ast.copy_location(ast.Constant(value=p_), e.left))
        return out if not args else None
    if isinstance(e, ast.Name) and depth < 4:
        v = single_def(ctx, f, e.id)
        if v is not None and isinstance(v, (ast.BinOp, ast.JoinedStr)):
            return _as_fstring(ctx, f, v, depth + 1)
    return None


def _frame_string(ctx, f):
    for n in ctx.m.walk_own(f.node):
        if _is_frame(n):
            return n
    # the same frame written as a %-template and/or a concatenation of pieces
    best = None
    for n in ctx.m.walk_own(f.node):
        if isinstance(n, ast.BinOp) and isinstance(n.op, (ast.Add, ast.Mod)):
            vals = _as_fstring(ctx, f, n)
            if not vals:
                continue
            merged = []
            for v in vals:
                if merged and isinstance(v, ast.Constant) and isinstance(merged[-1], ast.Constant):
                    merged[-1] = ast.copy_location(ast.Constant(value=merged[-1].value + v.value), merged[-1])
                else:
                    merged.append(v)
            J = ast.copy_location(ast.JoinedStr(values=merged), n)
            if _is_frame(J) and (best is None or len(merged) > len(best.values)):
                best = J
    return best


def _encode_call(e):
    """(receiver, encoding or None) if e is X.encode([enc])"""
    if isinstance(e, ast.Call) and isinstance(e.func, ast.Attribute) and e.func.attr == "encode":
        enc = None
        if e.args and isinstance(e.args[0], ast.Constant):
            enc = e.args[0].value
        for kw in e.keywords:
            if kw.arg == "encoding" and isinstance(kw.value, ast.Constant):
                enc = kw.value.value
        if (e.args and not isinstance(e.args[0], ast.Constant)):
            enc = "?"
        return e.func.value, enc
    return None


def r1_r2(ctx, R):
    R.rule("C16.R1", "the announced Content-Length is the UTF-8 byte length of the body that is written", floor=3, confirmed=3)
    R.rule("C16.R2", "frame layout: Content-Length header first, CRLF after every header, one empty line, body last", floor=3, confirmed=3)
    sites = framing_sites(ctx)
    if not sites:
        raise AnalysisError("no framing site (string built around 'Content-Length:') found")
    for f in sites:
        J = _frame_string(ctx, f)
        if J is None:
            R.undecided("C16.R1", f.short, "frame", loc(f, f.node), "frame is not built as one f-string")
            R.undecided("C16.R2", f.short, "frame", loc(f, f.node), "frame is not built as one f-string")
            continue
        fvs = [v for v in J.values if isinstance(v, ast.FormattedValue)]
        lenv, bodyv = fvs[0], fvs[-1]
        # ---- R2 layout on the folded template
        tmpl = "".join(v.value if isinstance(v, ast.Constant) else "\x00" for v in J.values)
        if re.fullmatch("Content-Length: ?\x00\r\n(?:[^\r\n\x00]+\r\n)*\r\n\x00", tmpl) and len(fvs) == 2:
            R.ok("C16.R2", f.short, "frame template", loc(f, J), repr(tmpl.replace("\x00", "{}")))
        elif isinstance(ctx.m.parent.get(J), (ast.Tuple, ast.List, ast.BinOp, ast.Call, ast.GeneratorExp, ast.ListComp)) and "\r\n" not in tmpl:
            # the f-string is only one header field; the frame is assembled from pieces (join over fields) the rule does not fold
            R.undecided("C16.R2", f.short, "frame template", loc(f, J), "the frame is assembled from separate header fields")
            R.undecided("C16.R1", f.short, "frame", loc(f, J), "the frame is assembled from separate header fields")
            continue
        else:
            why = "frame template is " + repr(tmpl.replace("\x00", "{}"))
            if "\r\n\r\n" not in tmpl:
                why += ": no empty CRLF line before the body"
            elif re.search("[^\r]\n", tmpl):
                why += ": a header line ends in a bare LF"
            R.violation("C16.R2", f.short, "frame template", loc(f, J), why)
        # ---- R1 measure
        M = deref(ctx, f, lenv.value)
        B = bodyv.value
        if not isinstance(B, ast.Name):
            R.undecided("C16.R1", f.short, "body", loc(f, J), "body is not a local variable")
            continue
        measured = None
        via_encode = False
        if isinstance(M, ast.Call) and isinstance(M.func, ast.Name) and M.func.id == "len" and len(M.args) == 1:
            a = M.args[0]
            enc = _encode_call(a)
            if enc:
                measured, e = enc
                via_encode = True
                if e is not None and e not in UTF8:
                    R.violation("C16.R1", f.short, key(f, ctx.m.enclosing_stmt(M)), loc(f, M), f"length measured in encoding {e!r}, the stream writer encodes UTF-8")
                    continue
            else:
                measured = a
        if measured is None:
            R.violation("C16.R1", f.short, "Content-Length value " + unparse(M), loc(f, M), "the announced length is not len(<body>) / len(<body>.encode()) of the body that is written")
            continue
        if not (isinstance(measured, ast.Name) and measured.id == B.id):
            R.violation("C16.R1", f.short, "Content-Length value " + unparse(M), loc(f, M), f"the length of {unparse(measured)} is announced but {B.id} is written")
            continue
        # one definition of the body between measure and write
        bdefs = defs_of(ctx, f, B.id)
        if len(bdefs) != 1 or B.id in f.params and False:
            # re-binding such as `body = json.dumps(body)` of a same-named local built just before is the idiom
            # of the two module-level helpers: accept when the *last* def is the serialisation and precedes the measure
            bdefs_sorted = sorted(bdefs, key=lambda d: d[0].lineno)
            last = bdefs_sorted[-1]
            mst = ctx.m.enclosing_stmt(M)
            if not (last[0].lineno < mst.lineno <= J.lineno):
                R.violation("C16.R1", f.short, f"{B.id} re-bound", loc(f, last[0]), "the body is re-bound between measuring and writing")
                continue
            bval = last[1]
        else:
            bval = bdefs[0][1]
        if bval is not None and is_call_to(ctx, f, bval, "json.dumps"):
            ea = None
            for kw in bval.keywords:
                if kw.arg == "ensure_ascii":
                    ea = kw.value
                if kw.arg is None:
                    ea = kw.value  # **kwargs: unknown
            ascii_only = ea is None or (isinstance(ea, ast.Constant) and ea.value is True)
            if ascii_only or via_encode:
                R.ok("C16.R1", f.short, key(f, ctx.m.enclosing_stmt(M)), loc(f, M), "ASCII-only serialisation measured with len()" if ascii_only and not via_encode else "measured on the encoded bytes")
            else:
                R.violation("C16.R1", f.short, key(f, ctx.m.enclosing_stmt(bval)), loc(f, bval), "json.dumps(ensure_ascii=...) may emit non-ASCII characters but the length is counted in characters, not UTF-8 bytes")
        elif via_encode:
            R.ok("C16.R1", f.short, key(f, ctx.m.enclosing_stmt(M)), loc(f, M), "measured on the encoded bytes")
        else:
            R.undecided("C16.R1", f.short, key(f, ctx.m.enclosing_stmt(M)), loc(f, M), "body is not produced by json.dumps in this function; character count may differ from byte count")


def stream_classes(ctx):
    """Classes wrapping a reader/writer pair: define read, readline and write."""
    out = [c for c in ctx.m.classes.values() if {"read", "readline", "write"} <= set(c.methods)]
    if not out:
        raise AnalysisError("no stream wrapper class (read/readline/write) found")
    return out


def r3(ctx, R):
    R.rule("C16.R3", "the stream writer encodes UTF-8 and flushes; the server is given binary stdin/stdout", floor=2, confirmed=3)
    for c in stream_classes(ctx):
        f = ctx.m.funcs[c.methods["write"]]
        param = f.params[1] if len(f.params) > 1 else None
        wrote = flushed = None
        bad = None
        for call in calls_in(f.node):
            if isinstance(call.func, ast.Attribute) and call.func.attr == "write" and call.args:
                a = deref(ctx, f, call.args[0])
                enc = _encode_call(a)
                if enc and isinstance(enc[0], ast.Name) and enc[0].id == param:
                    if enc[1] is not None and enc[1] not in UTF8:
                        bad = f"encodes as {enc[1]!r}"
                    wrote = call
                else:
                    bad = "writes " + unparse(call.args[0]) + " without encoding the text as UTF-8"
                    wrote = call
            if isinstance(call.func, ast.Attribute) and call.func.attr == "flush":
                flushed = call
        if wrote is None:
            R.undecided("C16.R3", f.short, "write", loc(f, f.node), "no underlying write call")
        elif bad:
            R.violation("C16.R3", f.short, key(f, ctx.m.enclosing_stmt(wrote)), loc(f, wrote), "stream writer " + bad)
        elif flushed is None or flushed.lineno < wrote.lineno:
            R.violation("C16.R3", f.short, key(f, ctx.m.enclosing_stmt(wrote)), loc(f, wrote), "the frame is not flushed after being written")
        else:
            R.ok("C16.R3", f.short, key(f, ctx.m.enclosing_stmt(wrote)), loc(f, wrote))
    # binary std streams
    names = {c.name for c in stream_classes(ctx)}
    n = 0
    for f in ctx.m.funcs.values():
        if f.rel.endswith("debug.py"):
            continue
        for call in calls_in(f.node):
            if isinstance(call.func, ast.Name) and call.func.id in names and len(call.args) >= 2:
                vals = [deref(ctx, f, a) for a in call.args[:2]]
                txt = [ctx.m.dotted(f.rel, v) if isinstance(v, (ast.Name, ast.Attribute)) else unparse(v) for v in vals]
                std = [t for t in txt if t and t.startswith("sys.std")]
                if not std:
                    continue
                n += 1
                if all(t.endswith(".buffer") for t in std):
                    R.ok("C16.R3", f.short, key(f, ctx.m.enclosing_stmt(call)), loc(f, call), " / ".join(txt))
                else:
                    R.violation("C16.R3", f.short, key(f, ctx.m.enclosing_stmt(call)), loc(f, call), f"the connection is given a text stream ({' / '.join(txt)}): newlines are translated and the text re-encoded")
    if n == 0:
        R.undecided("C16.R3", "main", "stream wrapper construction on std streams", "fortls/__init__.py:0", "no construction on sys.stdin/sys.stdout found")


def _receiver(ctx):
    cc = connection_class(ctx)
    hits = []
    for q in cc.methods.values():
        f = ctx.m.funcs[q]
        names = {c.func.attr for c in calls_in(f.node) if isinstance(c.func, ast.Attribute)}
        if "readline" in names and "read" in names:
            hits.append(f)
    if len(hits) != 1:
        raise AnalysisError(f"frame receiver (calls readline and read): found {len(hits)}")
    return hits[0]


def _header_parser(ctx):
    cc = connection_class(ctx)
    hits = []
    for q in cc.methods.values():
        f = ctx.m.funcs[q]
        for n in ctx.m.walk_own(f.node):
            if isinstance(n, ast.Constant) and isinstance(n.value, str) and n.value.lower().startswith("content-length") and isinstance(ctx.m.parent.get(n), ast.Call):
                if f not in hits and any(isinstance(x, ast.Call) and isinstance(x.func, ast.Name) and x.func.id == "int" for x in ast.walk(f.node)):
                    hits.append(f)
    return hits


def r4(ctx, R):
    R.rule("C16.R4", "every header line is examined for the length; the body is read only once a length is known", floor=2, confirmed=3)
    f = _receiver(ctx)
    cfg = ctx.cfg(f)
    parsers = {p.qual for p in _header_parser(ctx)}
    inline = f.qual in parsers or not parsers
    # the body read and its length variable
    reads = [c for c in calls_in(f.node) if isinstance(c.func, ast.Attribute) and c.func.attr == "read"]
    if len(reads) != 1:
        R.undecided("C16.R4", f.short, "body read", loc(f, f.node), f"{len(reads)} read() calls")
        return
    rd = reads[0]
    L = rd.args[0] if rd.args else None
    F = ctx.facts(f)
    if L is None:
        R.violation("C16.R4", f.short, key(f, ctx.m.enclosing_stmt(rd)), loc(f, rd), "the body is read without a length: everything up to end of input is consumed")
        return
    lk = unparse(L)
    facts = F.at(rd) or set()
    int_def = isinstance(L, ast.Name) and all(v is not None and isinstance(v, ast.Call) and isinstance(v.func, ast.Name) and v.func.id == "int" for _, v in defs_of(ctx, f, L.id)) and defs_of(ctx, f, L.id)
    if ("nonnull", lk) in facts or int_def:
        R.ok("C16.R4", f.short, key(f, ctx.m.enclosing_stmt(rd)), loc(f, rd), "length known at the read")
    else:
        R.violation("C16.R4", f.short, key(f, ctx.m.enclosing_stmt(rd)), loc(f, rd), f"read({lk}) is reached on a path where no Content-Length has been obtained ({lk} may be None: the rest of the stream is swallowed)")
    # each header line reaches the parser
    rl_nodes = []
    for n in cfg.nodes:
        if n.kind == "stmt" and isinstance(n.ast, ast.Assign) and isinstance(n.ast.value, ast.Call) and isinstance(n.ast.value.func, ast.Attribute) and n.ast.value.func.attr == "readline" and isinstance(n.ast.targets[0], ast.Name):
            rl_nodes.append(n)
    if not rl_nodes:
        R.undecided("C16.R4", f.short, "header lines", loc(f, f.node), "no `v = <conn>.readline()` statement")
        return
    rd_node = cfg.node_of(rd)
    # names the length is copied from (`ret = length` of an inlined helper)
    lks = {lk}
    for _ in range(4):
        for st in ctx.m.walk_own(f.node):
            if isinstance(st, ast.Assign) and len(st.targets) == 1 and isinstance(st.targets[0], ast.Name) and st.targets[0].id in lks and isinstance(st.value, ast.Name):
                lks.add(st.value.id)

    def parses(n, var):
        if n.ast is None or n.kind not in ("stmt", "test"):
            return False
        for c in ast.walk(n.ast):
            if isinstance(c, ast.Call) and any(isinstance(a, ast.Name) and a.id == var for a in c.args):
                k, tg = ctx.r.resolve_call(f, c)
                if tg & parsers:
                    return True
            # inline parse: int(...) of something derived from the line after a Content-Length test
        return False

    for n in rl_nodes:
        var = n.ast.targets[0].id
        # search: from n's normal successors, can we reach the body read or another
        # readline assignment without (a) parsing var, (b) knowing the length already,
        # (c) having established that var is the blank line / EOF?
        seen = set()
        stack = [(t, lab) for t, lab in n.succs if not (lab and lab[0] == "exc")]
        offender = None
        while stack and offender is None:
            t, lab = stack.pop()
            if lab and lab[0] in ("T", "F"):
                from sa.cfg import derive

                fs = derive(lab[1], lab[0] == "T")
                if any(("nonnull", x) in fs for x in lks):
                    continue  # length already known: the line need not be examined
                if ("eq", var, "'\\r\\n'") in fs or ("eq", var, "''") in fs or ("empty", var) in fs:
                    continue  # blank line (end of headers) or end of input
            if t in seen:
                continue
            seen.add(t)
            tn = cfg.nodes[t]
            if parses(tn, var):
                continue
            if tn is rd_node or (tn in rl_nodes):
                offender = tn
                break
            if tn.kind in ("exit", "xexit"):
                continue
            for t2, lab2 in tn.succs:
                if lab2 and lab2[0] == "exc":
                    continue
                stack.append((t2, lab2))
        if offender is None:
            R.ok("C16.R4", f.short, key(f, n.ast), loc(f, n.ast), "header line reaches the Content-Length parser on every path")
        else:
            what = "the body read" if offender is rd_node else "the next readline()"
            R.violation("C16.R4", f.short, key(f, n.ast), loc(f, n.ast), f"a header line read here can reach {what} without being examined for Content-Length (a header that is not first is ignored)")


def r5(ctx, R):
    R.rule("C16.R5", "the body is cut by bytes, then decoded", floor=1, confirmed=2)
    for c in stream_classes(ctx):
        f = ctx.m.funcs[c.methods["read"]]
        rets = [n for n in ctx.m.walk_own(f.node) if isinstance(n, ast.Return) and n.value is not None]
        verdict = None
        # a block of a body that is read in several pieces is not text yet: decoding piece by piece
        # fails (or corrupts) when a multi-byte character lies across two pieces
        piecewise = None
        for lp in (n for n in ctx.m.walk_own(f.node) if isinstance(n, (ast.For, ast.While))):
            reads_in = [x for x in calls_in(lp) if isinstance(x.func, ast.Attribute) and x.func.attr in ("read", "read1", "readinto", "recv") and not (isinstance(x.func.value, ast.Name) and x.func.value.id == "self")]
            decs_in = [x for x in calls_in(lp) if isinstance(x.func, ast.Attribute) and x.func.attr == "decode" and "decoder" not in unparse(x.func.value).lower()]
            if reads_in and decs_in:
                piecewise = decs_in[0]
        if piecewise is not None:
            R.violation("C16.R5", f.short, key(f, ctx.m.enclosing_stmt(piecewise)), loc(f, piecewise), "each block read from the stream is decoded on its own: a body whose multi-byte character lies across two blocks raises UnicodeDecodeError (the message and the frames after it are lost) - bytes must be joined first and decoded once")
            continue
        for r in rets:
            v = deref(ctx, f, r.value)
            # X.decode(...) where X is (a local bound to) <reader>.read(*args)
            if isinstance(v, ast.Call) and isinstance(v.func, ast.Attribute) and v.func.attr == "decode":
                src = deref(ctx, f, v.func.value)
                quals = {k.methods[m] for k in stream_classes(ctx) for m in ("read", "readline") if m in k.methods}
                U = _Units(ctx, f, quals)
                raw_reads = [x for x in calls_in(f.node) if U._raw_read(x)]
                joined = isinstance(v.func.value, ast.Call) and isinstance(v.func.value.func, ast.Attribute) and v.func.value.func.attr == "join" and isinstance(v.func.value.func.value, ast.Constant) and isinstance(v.func.value.func.value.value, bytes)
                if not (isinstance(src, ast.Call) and isinstance(src.func, ast.Attribute) and src.func.attr == "read") and (U.unit(v.func.value) == BYT or joined) and raw_reads:
                    # bytes accumulated over several reads of the underlying stream, decoded once at the end
                    src = raw_reads[0]
                if isinstance(src, ast.Call) and isinstance(src.func, ast.Attribute) and src.func.attr == "read":
                    passes = any(isinstance(a, ast.Starred) for a in src.args) or any(isinstance(x, ast.Name) and x.id in f.params for a in src.args for x in ast.walk(a))
                    if passes:
                        enc = v.args[0].value if v.args and isinstance(v.args[0], ast.Constant) else None
                        if enc is None or enc in UTF8:
                            verdict = ("ok", r)
                        else:
                            verdict = ("bad", r, f"decodes as {enc!r}")
                    else:
                        verdict = ("bad", r, "the requested byte count is not passed to the underlying read")
                else:
                    verdict = ("bad", r, "decode is not applied directly to the bytes just read")
            elif isinstance(v, ast.Subscript):
                verdict = ("bad", r, "the decoded text is sliced by characters: multi-byte payloads are cut at the wrong place")
            else:
                verdict = ("und", r)
        if verdict is None:
            R.undecided("C16.R5", f.short, "read", loc(f, f.node), "no return")
        elif verdict[0] == "ok":
            R.ok("C16.R5", f.short, key(f, verdict[1]), loc(f, verdict[1]))
        elif verdict[0] == "bad":
            R.violation("C16.R5", f.short, key(f, verdict[1]), loc(f, verdict[1]), verdict[2])
        else:
            R.undecided("C16.R5", f.short, key(f, verdict[1]), loc(f, verdict[1]), "shape not recognised")


def r6(ctx, R):
    R.rule("C16.R6", "path<->URI mapping is an inverse pair (quote/unquote, same scheme prefix per platform arm)", floor=2, confirmed=4)
    to = ctx.m.fn("path_to_uri")
    fr = ctx.m.fn("path_from_uri")
    prefixes = []
    for r in (n for n in ctx.m.walk_own(to.node) if isinstance(n, ast.Return)):
        v = r.value
        if isinstance(v, ast.BinOp) and isinstance(v.op, ast.Add) and isinstance(v.left, ast.Constant) and isinstance(v.left.value, str):
            q = v.right
            if isinstance(q, ast.Call) and ctx.m.dotted(to.rel, q.func) == "urllib.parse.quote":
                prefixes.append(v.left.value)
                R.ok("C16.R6", to.short, key(to, r), loc(to, r), f"prefix {v.left.value!r} + quote()")
            else:
                R.violation("C16.R6", to.short, key(to, r), loc(to, r), "the path is not percent-encoded with urllib.parse.quote: '%', '#', '?' and non-ASCII characters yield a URI that does not decode to the same path")
        else:
            R.undecided("C16.R6", to.short, key(to, r), loc(to, r), "shape not recognised")
    unq = [c for c in calls_in(fr.node) if ctx.m.dotted(fr.rel, c.func) == "urllib.parse.unquote"]
    if not unq:
        R.violation("C16.R6", fr.short, "unquote", loc(fr, fr.node), "the URI is not percent-decoded")
    else:
        R.ok("C16.R6", fr.short, key(fr, ctx.m.enclosing_stmt(unq[0])), loc(fr, unq[0]), "unquote() applied")
    splits = []
    for c in calls_in(fr.node):
        if isinstance(c.func, ast.Attribute) and c.func.attr in ("split", "removeprefix", "partition") and c.args and isinstance(c.args[0], ast.Constant):
            splits.append((c, c.args[0].value))
    got = sorted(p for _, p in splits)
    if prefixes and splits:
        if sorted(prefixes) == got:
            R.ok("C16.R6", fr.short, "scheme prefixes", loc(fr, fr.node), f"{got}")
        else:
            R.violation("C16.R6", fr.short, "scheme prefixes", loc(fr, fr.node), f"path_to_uri adds {sorted(prefixes)} but path_from_uri strips {got}")


# ------------------------------------------------------------------ R7: units
STR, BYT, NCH, NBY, UNK = "str", "bytes", "n_chars", "n_bytes", "?"


class _Units:
    """Flow-insensitive unit inference inside one function of the framing module:
    text vs bytes objects, character counts vs byte counts."""

    def __init__(self, ctx, f, stream_quals):
        self.ctx, self.f = ctx, f
        self.stream_quals = stream_quals
        self.assigns = {}
        for n in ctx.m.walk_own(f.node):
            if isinstance(n, ast.Assign):
                for t in n.targets:
                    if isinstance(t, ast.Name):
                        self.assigns.setdefault(t.id, []).append(n.value)
            elif isinstance(n, ast.AugAssign) and isinstance(n.target, ast.Name):
                self.assigns.setdefault(n.target.id, []).append(n.value)
            elif isinstance(n, ast.AnnAssign) and isinstance(n.target, ast.Name) and n.value is not None:
                self.assigns.setdefault(n.target.id, []).append(n.value)
        # parameters handed to the underlying binary stream's read are byte counts
        self.byte_params = set()
        for c in calls_in(f.node):
            if self._raw_read(c):
                for a in c.args:
                    a = a.value if isinstance(a, ast.Starred) else a
                    if isinstance(a, ast.Name) and a.id in f.params:
                        self.byte_params.add(a.id)
        # ... and so are locals handed to a stream wrapper's read (the wrapper passes them on)
        self.wrapper_reads = []
        if f.qual not in stream_quals:
            for c in calls_in(f.node):
                if isinstance(c.func, ast.Attribute) and c.func.attr == "read" and any(q in stream_quals for q in ctx.r.resolve_call(f, c)[1]):
                    self.wrapper_reads.append(c)
                    for a in c.args:
                        if isinstance(a, ast.Name):
                            self.byte_params.add(a.id)
        self._busy = set()

    def _raw_read(self, c):
        """<self>.<field>.read/readline(...) on something that is not a class of the repository"""
        if not (isinstance(c.func, ast.Attribute) and c.func.attr in ("read", "readline", "recv", "read1", "readinto")):
            return False
        if self.f.qual not in self.stream_quals or not isinstance(c.func.value, ast.Attribute):
            return False
        kind, qs = self.ctx.r.resolve_call(self.f, c)
        return kind == "by_name" or not [q for q in qs if q in self.stream_quals]

    def unit(self, e):
        if isinstance(e, ast.Constant):
            return STR if isinstance(e.value, str) else BYT if isinstance(e.value, bytes) else UNK
        if isinstance(e, ast.JoinedStr):
            return STR
        if isinstance(e, ast.Call):
            fn = e.func
            if isinstance(fn, ast.Attribute):
                if fn.attr == "decode":
                    return STR
                if fn.attr == "encode":
                    return BYT
                if self._raw_read(e):
                    return BYT
                if fn.attr in ("read", "readline"):
                    kind, qs = self.ctx.r.resolve_call(self.f, e)
                    if (kind != "by_name" or self.f.qual not in self.stream_quals) and any(q in self.stream_quals for q in qs):
                        return STR  # the wrappers return decoded text (C16.R5)
                if fn.attr in ("strip", "rstrip", "lstrip", "lower", "upper", "join", "format", "replace"):
                    return self.unit(fn.value)
            if isinstance(fn, ast.Name):
                if fn.id == "len" and len(e.args) == 1:
                    u = self.unit(e.args[0])
                    return NCH if u == STR else NBY if u == BYT else UNK
                if fn.id == "str":
                    return STR
                if fn.id in ("bytes", "bytearray"):
                    return BYT
            if unparse(fn) == "json.dumps":
                return STR
            return UNK
        if isinstance(e, ast.BinOp) and isinstance(e.op, (ast.Add, ast.Sub)):
            a, b = self.unit(e.left), self.unit(e.right)
            if a == b:
                return a
            if UNK in (a, b):
                return a if b == UNK else b
            return UNK
        if isinstance(e, ast.Subscript) and isinstance(e.slice, ast.Slice):
            return self.unit(e.value)
        if isinstance(e, ast.Name):
            if e.id in self.byte_params:
                return NBY
            if e.id in self._busy:
                return UNK
            self._busy.add(e.id)
            try:
                us = {self.unit(v) for v in self.assigns.get(e.id, [])} - {UNK}
            finally:
                self._busy.discard(e.id)
            return us.pop() if len(us) == 1 else UNK
        return UNK


def r7(ctx, R):
    R.rule("C16.R7", "byte counts and character counts are never mixed on the reading side: what is compared with, subtracted from or passed as the requested length is measured on bytes, not on decoded text", floor=2, confirmed=3)
    quals = set()
    for c in stream_classes(ctx):
        quals |= {c.methods[m] for m in ("read", "readline") if m in c.methods}
    conn = connection_class(ctx)
    funcs = [ctx.m.funcs[q] for q in sorted(quals)]
    funcs += [ctx.m.funcs[q] for q in conn.methods.values() if any(isinstance(c.func, ast.Attribute) and c.func.attr in ("read", "readline") for c in calls_in(ctx.m.funcs[q].node))]
    for f in funcs:
        U = _Units(ctx, f, quals)
        bad = []
        for n in ctx.m.walk_own(f.node):
            pairs = []
            if isinstance(n, ast.Compare) and len(n.comparators) == 1:
                pairs.append((n.left, n.comparators[0]))
            elif isinstance(n, ast.BinOp) and isinstance(n.op, (ast.Sub, ast.Add)):
                pairs.append((n.left, n.right))
            for a, b in pairs:
                if {U.unit(a), U.unit(b)} == {NCH, NBY}:
                    bad.append((n, f"`{unparse(n)}` relates a character count to a byte count"))
            if isinstance(n, ast.Call) and U._raw_read(n):
                for a in n.args:
                    if any(U.unit(x) == NCH for x in ast.walk(a) if isinstance(x, (ast.Call, ast.Name))):
                        bad.append((n, f"`{unparse(n)}` requests a number of bytes computed from a character count"))
            if isinstance(n, ast.Subscript) and isinstance(n.slice, ast.Slice) and U.unit(n.value) == STR:
                for b in (n.slice.lower, n.slice.upper):
                    if b is not None and U.unit(b) == NBY:
                        bad.append((n, f"`{unparse(n)}` cuts decoded text at a byte count"))
        if bad:
            for n, msg in bad[:3]:
                R.violation("C16.R7", f.short, key(f, ctx.m.enclosing_stmt(n)), loc(f, n), msg + ": for a body with non-ASCII characters the two differ, so the reader runs into the next frame (or stops short of the end of this one)")
        else:
            R.ok("C16.R7", f.short, "units", loc(f, f.node), f"byte-count parameters: {sorted(U.byte_params)}")


def run(ctx, R):
    r1_r2(ctx, R)
    r3(ctx, R)
    r4(ctx, R)
    r5(ctx, R)
    r6(ctx, R)
    r7(ctx, R)
