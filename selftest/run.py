#!/venv/bin/python
"""Checker validation: apply each registered mutant / benign twin of a property
to a scratch copy of the *current* <repo>/fortls and run the property's rules on
it (statically; nothing of fortls is executed).

  selftest/run.py C01 [--repo /repo] [--jobs 16] [--only name]

A mutant must produce a violation of its expected rule that the unmodified tree
does not have; a twin must produce no new violation.  Entries whose anchor text
no longer occurs exactly once are skipped and counted."""
from __future__ import annotations

import argparse
import importlib
import json
import os
import shutil
import sys
import tempfile

HERE = os.path.dirname(os.path.abspath(__file__))
VERIF = os.path.dirname(HERE)
sys.path.insert(0, VERIF)
sys.dont_write_bytecode = True


def load(prop):
    p = os.path.join(HERE, "mutants", f"{prop}.json")
    if not os.path.exists(p):
        return []
    with open(p) as fh:
        return json.load(fh)


def violations(prop, repo):
    from sa.report import Ctx, Run
    from sa.model import AnalysisError

    mod = importlib.import_module(f"rules.{prop.lower()}")
    R = Run(prop, "quick", repo, 0, quiet=True)
    try:
        ctx = Ctx(repo)
        mod.run(ctx, R)
    except AnalysisError as e:
        return None, f"ANALYSIS-ERROR {e}"
    except Exception as e:  # a crash of the analysis on a variant is a checker defect
        import traceback

        return None, "CRASH " + traceback.format_exc(limit=6)
    out = {}
    for i in R.insts:
        if i.verdict == "violation" and i.key() not in R.triage:
            out[(i.rule, i.where, i.stmt)] = i.msg
    und = sum(1 for i in R.insts if i.verdict == "undecided")
    return out, und


def apply_edits(root, edits):
    """edits: list of {file, find, replace[, count]}; returns None or reason."""
    for e in edits:
        p = os.path.join(root, e["file"])
        if not os.path.exists(p):
            return f"file {e['file']} missing"
        with open(p, encoding="utf-8") as fh:
            s = fh.read()
        n = s.count(e["find"])
        want = e.get("count", 1)
        if n != want:
            return f"anchor occurs {n}x (expected {want}) in {e['file']}"
        s = s.replace(e["find"], e["replace"])
        try:
            compile(s, p, "exec")
        except SyntaxError as ex:
            return f"variant does not compile: {ex}"
        with open(p, "w", encoding="utf-8") as fh:
            fh.write(s)
    return None


def seeded_entries(prop):
    """Seeded sub-agent changes as extra validation variants: a breaking change that the last
    matrix run attributed to this property must be reported, every behaviour-preserving change
    must leave the check silent (no violation, no analysis error)."""
    import glob

    out = []
    for d in sorted(glob.glob(os.path.join(VERIF, "seeded", "*", "patch.diff"))):
        name = os.path.basename(os.path.dirname(d))
        if name.startswith("benign"):
            out.append({"name": "seed:" + name, "kind": "twin", "patch": d})
            continue
        rp = os.path.join(os.path.dirname(d), "result.json")
        if not os.path.exists(rp):
            continue
        try:
            with open(rp) as fh:
                r = json.load(fh)
        except Exception:
            continue
        if prop in r.get("caught_by", []):
            out.append({"name": "seed:" + name, "kind": "mutant", "patch": d, "expect_rule": None, "breaks": "seeded change " + name})
    return out


def apply_patch(root, patch):
    import subprocess

    r = subprocess.run(["git", "apply", "--unsafe-paths", "--directory", root, patch], cwd=root, capture_output=True, text=True)
    if r.returncode:
        r = subprocess.run(["patch", "-p1", "-s", "-i", patch], cwd=root, capture_output=True, text=True)
    return None if r.returncode == 0 else "patch does not apply to the current tree"


def one(args):
    prop, repo, entry, base = args
    tmp = tempfile.mkdtemp(prefix="verif-st-", dir=os.environ.get("VERIF_TMP") or None)
    try:
        shutil.copytree(os.path.join(repo, "fortls"), os.path.join(tmp, "fortls"), ignore=shutil.ignore_patterns("__pycache__", "*.pyc"))
        if entry.get("patch"):
            why = apply_patch(tmp, entry["patch"])
        else:
            edits = entry.get("edits") or [{"file": entry["file"], "find": entry["find"], "replace": entry["replace"]}]
            why = apply_edits(tmp, edits)
        if why:
            return entry["name"], "skipped", why
        v, extra = violations(prop, tmp)
        if v is None:
            if entry.get("kind", "mutant") == "mutant" and entry.get("expect_rule") == "ANALYSIS-ERROR":
                return entry["name"], "pass", extra
            return entry["name"], "fail", extra
        new = {k: m for k, m in v.items() if k not in base}
        if entry.get("kind", "mutant") == "twin":
            if new:
                return entry["name"], "fail", "twin flagged: " + "; ".join(f"{k[0]} {k[1]} :: {k[2]}" for k in new)
            return entry["name"], "pass", "silent"
        exp = entry.get("expect_rule")
        hits = [k for k in new if exp is None or k[0] == exp or k[0].startswith(exp)]
        if hits:
            k = hits[0]
            return entry["name"], "pass", f"{k[0]} {k[1]} :: {k[2][:80]} -- {new[k][:100]}"
        return entry["name"], "fail", "not detected" + (f" (other new: {[k[0] for k in new]})" if new else "")
    finally:
        shutil.rmtree(tmp, ignore_errors=True)


def validate(prop, repo, jobs=16, only=None, seeds=None):
    entries = load(prop)
    if seeds is None:
        seeds = bool(os.environ.get("VERIF_SEEDS"))
    if seeds:
        entries = entries + seeded_entries(prop)
    if only:
        entries = [e for e in entries if only in e["name"]]
    base, _ = violations(prop, repo)
    if base is None:
        return {"error": "baseline analysis failed: " + str(_)}
    work = [(prop, repo, e, set(base)) for e in entries]
    if jobs > 1 and len(work) > 1:
        import multiprocessing as mp

        with mp.get_context("fork").Pool(min(jobs, len(work))) as pool:
            res = pool.map(one, work)
    else:
        res = [one(w) for w in work]
    summary = {"mutants": 0, "mutants_detected": 0, "twins": 0, "twins_silent": 0, "skipped": 0, "failures": [], "results": []}
    for e, (name, status, info) in zip(entries, res):
        kind = e.get("kind", "mutant")
        summary["results"].append({"name": name, "kind": kind, "status": status, "info": info, "breaks": e.get("breaks", "")})
        if status == "skipped":
            summary["skipped"] += 1
            continue
        if kind == "twin":
            summary["twins"] += 1
            summary["twins_silent"] += status == "pass"
        else:
            summary["mutants"] += 1
            summary["mutants_detected"] += status == "pass"
        if status == "fail":
            summary["failures"].append(f"{kind} {name}: {info}")
    return summary


def main():
    ap = argparse.ArgumentParser()
    ap.add_argument("prop")
    ap.add_argument("--repo", default="/repo")
    ap.add_argument("--jobs", type=int, default=16)
    ap.add_argument("--only")
    ap.add_argument("--seeds", action="store_true", help="also replay the seeded sub-agent changes")
    a = ap.parse_args()
    s = validate(a.prop.upper(), a.repo, a.jobs, a.only, seeds=a.seeds or None)
    if "error" in s:
        print(s["error"])
        return 2
    for r in s["results"]:
        print(f"{r['status']:8s} {r['kind']:6s} {r['name']:40s} {r['info'][:160]}")
    print(f"mutants {s['mutants_detected']}/{s['mutants']} detected, twins {s['twins_silent']}/{s['twins']} silent, skipped {s['skipped']}")
    return 1 if s["failures"] else 0


if __name__ == "__main__":
    sys.exit(main())
