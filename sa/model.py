"""Source model of <repo>/fortls (DESIGN.md 2.1).

Everything here is computed from the syntax trees of the files on disk; nothing
of the analysed package is imported or executed.
"""
from __future__ import annotations

import ast
import os
from collections import defaultdict


class AnalysisError(Exception):
    """The analysis itself cannot be carried out (vanished anchor, unparsable
    file, vacuous rule).  Ends the run with exit code 2, never a VIOLATION."""


class Func:
    __slots__ = ("qual", "node", "rel", "cls", "parent", "name", "params")

    def __init__(self, qual, node, rel, cls, parent):
        self.qual = qual
        self.node = node
        self.rel = rel
        self.cls = cls  # qualname of the class whose body holds it (methods only)
        self.parent = parent  # qualname of enclosing function for nested defs
        self.name = node.name
        a = node.args
        self.params = [x.arg for x in a.posonlyargs + a.args + a.kwonlyargs]
        if a.vararg:
            self.params.append(a.vararg.arg)
        if a.kwarg:
            self.params.append(a.kwarg.arg)

    @property
    def short(self):
        return self.qual.split(":", 1)[1]

    def __repr__(self):
        return f"<Func {self.qual}>"


class Cls:
    __slots__ = ("qual", "node", "rel", "name", "bases", "ext_bases", "methods", "fields")

    def __init__(self, qual, node, rel):
        self.qual = qual
        self.node = node
        self.rel = rel
        self.name = node.name
        self.bases = []  # repo classes
        self.ext_bases = []  # dotted names of non-repo bases
        self.methods = {}  # name -> func qual
        self.fields = {}  # name -> Field

    def __repr__(self):
        return f"<Cls {self.qual}>"


class Field:
    __slots__ = ("name", "ann", "assigns")

    def __init__(self, name):
        self.name = name
        self.ann = None  # annotation text
        self.assigns = []  # (func qual, value node or None, stmt node)

    @property
    def nullable(self):
        for _, v, _ in self.assigns:
            if isinstance(v, ast.Constant) and v.value is None:
                return True
        return False


class Model:
    PKG = "fortls"

    def __init__(self, repo: str, include_debug: bool = True):
        self.repo = os.path.abspath(repo)
        self.mods: dict[str, ast.Module] = {}
        self.src: dict[str, str] = {}
        self.funcs: dict[str, Func] = {}
        self.classes: dict[str, Cls] = {}
        self.parent: dict[ast.AST, ast.AST] = {}
        self.owner: dict[ast.AST, str] = {}  # function def node -> qual
        self.node_func: dict[int, str] = {}
        self.imports: dict[str, dict] = {}
        self.consts: dict[str, dict] = {}
        pkg = os.path.join(self.repo, self.PKG)
        if not os.path.isdir(pkg):
            raise AnalysisError(f"package directory not found: {pkg}")
        for d, dirs, fs in os.walk(pkg):
            dirs.sort()
            for f in sorted(fs):
                if not f.endswith(".py"):
                    continue
                p = os.path.join(d, f)
                rel = os.path.relpath(p, self.repo).replace(os.sep, "/")
                try:
                    with open(p, encoding="utf-8") as fh:
                        text = fh.read()
                    tree = ast.parse(text, filename=rel)
                except (OSError, SyntaxError, ValueError) as e:
                    raise AnalysisError(f"cannot parse {rel}: {e}")
                self.mods[rel] = tree
                self.src[rel] = text
        # normalisation: helpers that did not exist on the pinned tree are inlined into
        # their callers (sa/inline.py), so an "extract helper" refactoring does not hide
        # statements from rules that were written against the un-extracted shape
        self.inlined, self.dropped_helpers = [], []
        self.normalisation_error = None
        if not os.environ.get("VERIF_NO_INLINE"):
            from . import inline

            try:
                self.inlined, self.dropped_helpers = inline.normalise(self.mods)
            except Exception as e:  # the pass must never take the checks down: analyse the tree as written
                import traceback

                self.normalisation_error = traceback.format_exc(limit=4)
                self.inlined, self.dropped_helpers = [], []
                for rel in list(self.mods):
                    self.mods[rel] = ast.parse(self.src[rel], filename=rel)
        for rel, tree in self.mods.items():
            for n in ast.walk(tree):
                for ch in ast.iter_child_nodes(n):
                    self.parent[ch] = n
            self._collect(tree, rel, "", None, None)
            self.imports[rel] = self._imports(rel, tree)
        self.cname: dict[str, str] = {}
        for q, c in self.classes.items():
            # class simple names are unique in the package; keep first, note clash
            self.cname.setdefault(c.name, q)
        for q, c in self.classes.items():
            for b in c.node.bases:
                t = ast.unparse(b)
                rq = self.resolve_class_name(c.rel, t)
                if rq:
                    c.bases.append(rq)
                else:
                    c.ext_bases.append(self.dotted(c.rel, b) or t)
        self.subs = defaultdict(set)
        for q in self.classes:
            for a in self.mro(q)[1:]:
                self.subs[a].add(q)
        self._fields()
        for rel, tree in self.mods.items():
            self.consts[rel] = self._module_consts(tree)

    # ------------------------------------------------------------------ build
    def _collect(self, node, rel, prefix, cls, pf):
        for ch in ast.iter_child_nodes(node):
            if isinstance(ch, (ast.FunctionDef, ast.AsyncFunctionDef)):
                q = f"{rel}:{prefix}{ch.name}"
                if q in self.funcs:  # redefinition (try/except fallbacks): keep both
                    q = f"{q}#{ch.lineno}"
                f = Func(q, ch, rel, cls if pf is None else None, pf)
                self.funcs[q] = f
                self.owner[ch] = q
                if cls and pf is None:
                    self.classes[cls].methods[ch.name] = q
                self._collect(ch, rel, prefix + ch.name + ".", cls, q)
            elif isinstance(ch, ast.ClassDef):
                c = f"{rel}:{prefix}{ch.name}"
                self.classes[c] = Cls(c, ch, rel)
                self._collect(ch, rel, prefix + ch.name + ".", c, None)
            else:
                self._collect(ch, rel, prefix, cls, pf)

    def _imports(self, rel, tree):
        """name -> ('mod', dotted) | ('sym', module dotted, symbol)"""
        imp = {}
        pkgparts = rel[:-3].split("/")[:-1]
        for n in ast.walk(tree):
            if isinstance(n, ast.ImportFrom):
                if n.level:
                    base = pkgparts[: len(pkgparts) - (n.level - 1)]
                    mod = ".".join(base + ([n.module] if n.module else []))
                else:
                    mod = n.module or ""
                for a in n.names:
                    imp[a.asname or a.name] = ("sym", mod, a.name)
            elif isinstance(n, ast.Import):
                for a in n.names:
                    if a.asname:
                        imp[a.asname] = ("mod", a.name)
                    else:
                        imp[a.name.split(".")[0]] = ("mod", a.name.split(".")[0])
        return imp

    def mod_rel(self, dotted: str):
        """repo-relative file of a dotted module name, if it is a repo module"""
        p = dotted.replace(".", "/")
        for cand in (p + ".py", p + "/__init__.py"):
            if cand in self.mods:
                return cand
        return None

    def dotted(self, rel, expr):
        """Dotted external name of an expression after import resolution
        (`re.compile`, `os.path.join`, `json.dumps`), or None."""
        parts = []
        e = expr
        while isinstance(e, ast.Attribute):
            parts.append(e.attr)
            e = e.value
        if not isinstance(e, ast.Name):
            return None
        imp = self.imports.get(rel, {}).get(e.id)
        parts.reverse()
        if imp is None:
            return ".".join([e.id] + parts)
        if imp[0] == "mod":
            return ".".join([imp[1]] + parts)
        return ".".join([imp[1], imp[2]] + parts)

    def resolve_class_name(self, rel, name):
        name = name.strip("'\"").split("[")[0].split(".")[-1]
        q = f"{rel}:{name}"
        if q in self.classes:
            return q
        imp = self.imports.get(rel, {}).get(name)
        if imp and imp[0] == "sym":
            mrel = self.mod_rel(imp[1])
            if mrel and f"{mrel}:{imp[2]}" in self.classes:
                return f"{mrel}:{imp[2]}"
        # forward/TYPE_CHECKING references: unique simple name in the package
        return self.cname.get(name) if hasattr(self, "cname") else None

    def resolve_func_name(self, rel, name):
        q = f"{rel}:{name}"
        if q in self.funcs:
            return q
        imp = self.imports.get(rel, {}).get(name)
        if imp and imp[0] == "sym":
            mrel = self.mod_rel(imp[1])
            if mrel and f"{mrel}:{imp[2]}" in self.funcs:
                return f"{mrel}:{imp[2]}"
        return None

    def mro(self, c):
        out = [c]
        for b in self.classes[c].bases:
            for x in self.mro(b):
                if x not in out:
                    out.append(x)
        return out

    def cone(self, c):
        """class + all subclasses"""
        return {c} | set(self.subs.get(c, ()))

    def method(self, c, name):
        for k in self.mro(c):
            q = self.classes[k].methods.get(name)
            if q:
                return q
        return None

    def dispatch(self, c, name):
        out = set()
        m = self.method(c, name)
        if m:
            out.add(m)
        for s in self.subs.get(c, ()):
            q = self.classes[s].methods.get(name)
            if q:
                out.add(q)
        return out

    def _fields(self):
        for q, f in self.funcs.items():
            c = f.cls
            if not c:
                continue
            selfname = f.params[0] if f.params else None
            if not selfname:
                continue
            for n in self.walk_own(f.node):
                tgts = []
                val = None
                ann = None
                if isinstance(n, ast.AnnAssign):
                    tgts = [n.target]
                    val = n.value
                    ann = ast.unparse(n.annotation)
                elif isinstance(n, ast.Assign):
                    val = n.value
                    for t in n.targets:
                        if isinstance(t, (ast.Tuple, ast.List)):
                            tgts.extend(t.elts)
                            val = None
                        else:
                            tgts.append(t)
                elif isinstance(n, ast.AugAssign):
                    tgts = [n.target]
                for t in tgts:
                    if (
                        isinstance(t, ast.Attribute)
                        and isinstance(t.value, ast.Name)
                        and t.value.id == selfname
                    ):
                        fl = self.classes[c].fields.setdefault(t.attr, Field(t.attr))
                        if ann and not fl.ann:
                            fl.ann = ann
                        fl.assigns.append((q, val, n))
        # dataclass-style class-level annotated fields
        for q, c in self.classes.items():
            for st in c.node.body:
                if isinstance(st, ast.AnnAssign) and isinstance(st.target, ast.Name):
                    fl = c.fields.setdefault(st.target.id, Field(st.target.id))
                    fl.ann = fl.ann or ast.unparse(st.annotation)
                    fl.assigns.append((None, st.value, st))
                elif isinstance(st, ast.Assign):
                    for t in st.targets:
                        if isinstance(t, ast.Name):
                            fl = c.fields.setdefault(t.id, Field(t.id))
                            fl.assigns.append((None, st.value, st))

    def field(self, c, name):
        for k in self.mro(c):
            f = self.classes[k].fields.get(name)
            if f:
                return f
        return None

    def _module_consts(self, tree):
        out = {}
        for st in tree.body:
            if isinstance(st, ast.Assign) and len(st.targets) == 1 and isinstance(st.targets[0], ast.Name):
                out[st.targets[0].id] = st.value
            elif isinstance(st, ast.AnnAssign) and isinstance(st.target, ast.Name) and st.value is not None:
                out[st.target.id] = st.value
        return out

    # ---------------------------------------------------------------- queries
    def fn(self, suffix: str) -> Func:
        """Function by `Class.method`, `name`, or `path.py:Class.method`.
        Vanished or ambiguous anchors are analysis errors."""
        if suffix in self.funcs:
            return self.funcs[suffix]
        hits = [
            f
            for q, f in self.funcs.items()
            if q.endswith(":" + suffix) or q.endswith("/" + suffix) or q.endswith(suffix) and (":" in suffix)
        ]
        if len(hits) != 1:
            raise AnalysisError(
                f"anchor function '{suffix}' "
                + ("not found" if not hits else f"ambiguous ({[h.qual for h in hits]})")
            )
        return hits[0]

    def fn_opt(self, suffix):
        try:
            return self.fn(suffix)
        except AnalysisError:
            return None

    def cls(self, name: str) -> Cls:
        if name in self.classes:
            return self.classes[name]
        q = self.cname.get(name)
        if not q:
            raise AnalysisError(f"anchor class '{name}' not found")
        return self.classes[q]

    def walk_own(self, fnode):
        """Nodes of a function body without descending into nested defs/classes
        (lambdas are descended: they run in the same frame for our purposes)."""
        stack = list(reversed(list(ast.iter_child_nodes(fnode))))
        while stack:
            n = stack.pop()
            if isinstance(n, (ast.FunctionDef, ast.AsyncFunctionDef, ast.ClassDef)):
                continue
            yield n
            stack.extend(reversed(list(ast.iter_child_nodes(n))))

    def enclosing_func(self, node):
        n = node
        while n in self.parent:
            n = self.parent[n]
            if isinstance(n, (ast.FunctionDef, ast.AsyncFunctionDef)):
                return self.funcs[self.owner[n]]
        return None

    def enclosing_stmt(self, node):
        n = node
        while n is not None and not isinstance(n, ast.stmt):
            n = self.parent.get(n)
        return n

    def nested_funcs(self, f: Func):
        return [g for g in self.funcs.values() if g.parent == f.qual]

    def loc(self, f_or_rel, node):
        rel = f_or_rel.rel if isinstance(f_or_rel, Func) else f_or_rel
        return f"{rel}:{getattr(node, 'lineno', 0)}"

    def census(self):
        return {
            "files": len(self.mods),
            "classes": len(self.classes),
            "functions": len(self.funcs),
        }


# ----------------------------------------------------------------- text keys
def unparse(node) -> str:
    try:
        return ast.unparse(node)
    except Exception:  # pragma: no cover
        return "<?>"


def head(node) -> str:
    """One-line normalised text of a statement (compound statements: header only)."""
    if isinstance(node, (ast.If, ast.While)):
        kw = "if" if isinstance(node, ast.If) else "while"
        return f"{kw} {unparse(node.test)}:"
    if isinstance(node, (ast.For, ast.AsyncFor)):
        return f"for {unparse(node.target)} in {unparse(node.iter)}:"
    if isinstance(node, ast.With):
        return "with " + ", ".join(unparse(i) for i in node.items) + ":"
    if isinstance(node, ast.Try):
        return "try:"
    if isinstance(node, ast.ExceptHandler):
        return "except" + (" " + unparse(node.type) if node.type else "") + ":"
    if isinstance(node, (ast.FunctionDef, ast.AsyncFunctionDef)):
        return f"def {node.name}(...):"
    if isinstance(node, ast.ClassDef):
        return f"class {node.name}:"
    return " ".join(unparse(node).split())


class _Alpha(ast.NodeTransformer):
    def __init__(self, locals_):
        self.locals = locals_
        self.map = {}

    def visit_Name(self, n):
        if n.id in self.locals:
            if n.id not in self.map:
                self.map[n.id] = f"_v{len(self.map)}"
            return ast.copy_location(ast.Name(id=self.map[n.id], ctx=n.ctx), n)
        return n

    def visit_arg(self, n):
        return n


def local_names(fnode) -> set:
    out = set()
    a = fnode.args
    for x in a.posonlyargs + a.args + a.kwonlyargs:
        out.add(x.arg)
    if a.vararg:
        out.add(a.vararg.arg)
    if a.kwarg:
        out.add(a.kwarg.arg)
    for n in ast.walk(fnode):
        if isinstance(n, ast.Name) and isinstance(n.ctx, (ast.Store, ast.Del)):
            out.add(n.id)
    out.discard("self")
    return out


def alpha_key(fnode, node) -> str:
    """Statement text with locals/parameters replaced by positional
    placeholders (ordered by first occurrence in the statement itself), so a
    renamed local keeps its key while a changed action does not."""
    import copy

    locs = local_names(fnode) if fnode is not None else set()
    if isinstance(node, (ast.If, ast.While, ast.For, ast.With, ast.Try, ast.ExceptHandler)):
        # header only
        if isinstance(node, (ast.If, ast.While)):
            t = _Alpha(locs).visit(copy.deepcopy(node.test))
            return ("if " if isinstance(node, ast.If) else "while ") + unparse(t)
        return head(node)
    t = _Alpha(locs).visit(copy.deepcopy(node))
    return " ".join(unparse(ast.fix_missing_locations(t)).split())


def const_str(node):
    """String value of a constant-foldable expression (Constant str, +, JoinedStr
    without holes), else None."""
    if isinstance(node, ast.Constant) and isinstance(node.value, str):
        return node.value
    if isinstance(node, ast.BinOp) and isinstance(node.op, ast.Add):
        a, b = const_str(node.left), const_str(node.right)
        if a is not None and b is not None:
            return a + b
    if isinstance(node, ast.JoinedStr):
        out = ""
        for v in node.values:
            if isinstance(v, ast.Constant) and isinstance(v.value, str):
                out += v.value
            else:
                return None
        return out
    return None


def access_path(e):
    """'a.b.c' for Name/Attribute chains, else None."""
    parts = []
    while isinstance(e, ast.Attribute):
        parts.append(e.attr)
        e = e.value
    if isinstance(e, ast.Name):
        parts.append(e.id)
        return ".".join(reversed(parts))
    return None
